#!/usr/bin/env python3
"""post-process wave k: usage finish.py Cxx ['only-pattern' 'strengthening text']"""
import json, os, shutil, subprocess, sys
pid = sys.argv[1]
name = pid + "-k"
old = "/tmp/verif_old/seeded/%s/meta.json" % name
new_dir = "/verif/seeded/%s" % name
if os.path.exists(old):
    mo = json.load(open(old))
else:                       # batch 1 ran with /verif itself before the harness changed
    mo = json.load(open(new_dir + "/meta.json"))
    if "check_first_built" in mo:
        mo = dict(mo, check=mo["check_first_built"], detected=mo["first_run_detected"])
assert mo["valid"], mo
if mo["detected"]:
    os.makedirs(new_dir, exist_ok=True)
    if os.path.exists(old):
        for f in os.listdir(os.path.dirname(old)):
            shutil.copy(os.path.join(os.path.dirname(old), f), new_dir)
    m = json.load(open(new_dir + "/meta.json"))
    m["first_run_detected"] = True
    m["check"]["first"] = m["check"]["first"].replace("/tmp/verif_old", "/verif")
    json.dump(m, open(new_dir + "/meta.json", "w"), indent=1)
    print(name, "detected by the check as first built")
    sys.exit(0)
only, note = sys.argv[2], sys.argv[3]
needs = json.load(open("/tmp/wk/needs.json"))[pid]
env = dict(os.environ, SEED_ONLY=only)
p = subprocess.run(["/verif/.venv/bin/python", "/verif/tools/seed_verify.py", pid, "/tmp/wk/" + pid, name, needs], env=env,
                   capture_output=True, text=True)
print(p.stdout[-400:], p.stderr[-300:])
m = json.load(open(new_dir + "/meta.json"))
m["check_first_built"] = mo["check"]
m["first_run_detected"] = False
m["strengthening"] = note
json.dump(m, open(new_dir + "/meta.json", "w"), indent=1)
print(name, "valid", m["valid"], "detected now", m["detected"])
