#!/bin/sh
# run every registered check of one tier against /repo, one after the other; summary on stdout
cd "$(dirname "$0")/.."
tier=${1:-quick}
for p in $(python3 -c "import json; print(' '.join(c['property_id'] for c in json.load(open('MANIFEST.json'))['checks']))"); do
  s=$(date +%s)
  ./check $p $tier > /tmp/runall_$p.log 2>&1; rc=$?
  echo "$p $tier exit=$rc $(( $(date +%s) - s ))s $(grep "^$p $tier:" /tmp/runall_$p.log | cut -c1-160)"
done
