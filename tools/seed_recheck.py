#!/usr/bin/env python3
"""Run a property's check again against stored seeded breakages and bring their meta.json up to date.
usage: seed_recheck.py [--only <query pattern>] <seed name> ...
Each seed gets a scratch worktree of /repo under /tmp (removed afterwards); evidence of these runs goes to /tmp,
never to /verif/evidence."""
import json
import os
import subprocess
import sys
import time

ROOT = os.path.dirname(os.path.dirname(os.path.abspath(__file__)))


def sh(cmd, **kw):
    return subprocess.run(cmd, capture_output=True, text=True, **kw)


def main():
    args = sys.argv[1:]
    only = None
    if args and args[0] == "--only":
        only = args[1]
        args = args[2:]
    tier = os.environ.get("SEED_TIER", "quick")
    for name in args:
        d = os.path.join(ROOT, "seeded", name)
        meta = json.load(open(os.path.join(d, "meta.json")))
        pid = meta["property"]
        wt = "/tmp/wt_recheck_%s" % name
        sh(["git", "-C", "/repo", "worktree", "remove", "--force", wt])
        r = sh(["git", "-C", "/repo", "worktree", "add", "--detach", wt, "HEAD"])
        assert r.returncode == 0, r.stderr
        try:
            r = sh(["git", "apply", os.path.join(d, "patch.diff")], cwd=wt)
            assert r.returncode == 0, r.stderr
            env = dict(os.environ, OMBOTT_REPO=wt, VERIF_EVIDENCE_OUT="/tmp/seed_ev_%s.json" % name)
            cmd = [os.path.join(ROOT, ".venv/bin/python"), "-m", "vf.run", pid, "--tier", tier]
            if only:
                cmd += ["--only", only]
            env.update(PYTHONDONTWRITEBYTECODE="1", PYTHONHASHSEED="0")
            t = time.time()
            p = sh(cmd, cwd=ROOT, env=env)
            o = p.stdout + p.stderr
            lines = o.splitlines()
            viol = [ln for ln in lines if ln.startswith("VIOLATION")]
            first = ""
            for i, ln in enumerate(lines):
                if ln.startswith("VIOLATION"):
                    first = "\n".join(lines[i:i + 3])[:700]
                    break
            detected = p.returncode == 1 and bool(viol)
            if not only or detected:
                if "check" in meta and not meta.get("detected") and "check_first_built" not in meta:
                    meta["check_first_built"] = meta["check"]
                meta["check"] = {"cmd": "OMBOTT_REPO=<worktree with the change> ./check %s %s%s" % (pid, tier, only and " --only " + only or ""),
                                 "exit": p.returncode, "violations": len(viol), "first": first, "wall_s": round(time.time() - t, 1),
                                 "summary": [ln for ln in lines if ln.startswith(pid + " ")][-1:]}
                meta["detected"] = detected
                json.dump(meta, open(os.path.join(d, "meta.json"), "w"), indent=1)
            print(name, "exit", p.returncode, "detected", detected, first[:500].replace("\n", " | "), flush=True)
            if p.returncode not in (0, 1):
                print("\n".join(lines[-15:]))
        finally:
            sh(["git", "-C", "/repo", "worktree", "remove", "--force", wt])
            try:
                os.remove("/tmp/seed_ev_%s.json" % name)
            except OSError:
                pass


if __name__ == "__main__":
    main()
