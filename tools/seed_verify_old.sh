#!/bin/sh
cd /tmp/verif_old
for p in "$@"; do
  needs=$(python3 -c "import json,sys; print(json.load(open('/tmp/wk/needs.json')).get('$p',''))")
  .venv/bin/python tools/seed_verify.py $p /tmp/wk/$p $p-k "$needs" > /tmp/wk/$p.verify_old 2>&1
  echo "== $p: $(tail -c 600 /tmp/wk/$p.verify_old | tr '\n' ' ')"
done
