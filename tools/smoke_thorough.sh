#!/bin/sh
# harness smoke test of the thorough tier: every thorough query is explored for a few CPU seconds only (most end
# inconclusive, which is expected); what matters is that none ends as counterexample / error on the unchanged tree.
# Evidence goes to /tmp (not a registered check).
cd "$(dirname "$0")/.."
for p in "$@"; do
  VERIF_SMOKE_S=${SMOKE_S:-4} VERIF_EVIDENCE_OUT=/tmp/smoke_$p.json .venv/bin/python -m vf.run $p --tier thorough > /tmp/smoke_$p.log 2>&1
  echo "$p exit=$? $(grep "^$p thorough:" /tmp/smoke_$p.log | cut -c1-160) $(grep -c '^VIOLATION\|MACHINERY' /tmp/smoke_$p.log) alarms"
done
