#!/usr/bin/env python3
"""Regenerate the table of DESIGN.md §9.1 from seeded/*/meta.json (between the markers)."""
import glob, json, os, re
ROOT = os.path.dirname(os.path.dirname(os.path.abspath(__file__)))
rows = []
for p in sorted(glob.glob(os.path.join(ROOT, "seeded", "*", "meta.json"))):
    m = json.load(open(p))
    first = (m.get("check") or {}).get("first", "")
    q = ""
    for ln in first.splitlines():
        if "query=" in ln:
            q = ln.strip().split("query=")[1].split(" ")[0]
    det = "DETECTED" if m.get("detected") else "**not detected**"
    how = "yes" if m.get("first_run_detected", True) else "no -> " + m.get("strengthening", "")
    rows.append("| %s | %s | %s `%s` | %s |" % (m["name"], m["needs"].replace("|", "/"), det, q, how.replace("|", "/")))
n = len(rows)
nd = sum(1 for p in glob.glob(os.path.join(ROOT, "seeded", "*", "meta.json")) if json.load(open(p)).get("detected"))
nf = sum(1 for p in glob.glob(os.path.join(ROOT, "seeded", "*", "meta.json")) if not json.load(open(p)).get("first_run_detected", True))
text = ("<!-- seed-table:begin -->\n%d seeded breakages, %d detected by the quick tier now; %d of them were not caught by the check as first "
        "built and led to the strengthening noted (no oracle was loosened).\n\n"
        "| seed | what it needs to manifest | quick tier result, first detecting query | caught by the check as first built? |\n|---|---|---|---|\n"
        % (n, nd, nf)) + "\n".join(rows) + "\n<!-- seed-table:end -->"
d = open(os.path.join(ROOT, "DESIGN.md")).read()
if "<!-- seed-table:begin -->" in d:
    d = re.sub(r"<!-- seed-table:begin -->.*<!-- seed-table:end -->", lambda _: text, d, flags=re.S)
else:
    # replace the old static table: from the table header line to the blank line before section 10
    a = d.index("| seed | what it needs to manifest |")
    b = d.index("## 10. Deviations from the round-0 design")
    d = d[:a] + text + "\n\n" + d[b:]
open(os.path.join(ROOT, "DESIGN.md"), "w").write(d)
print(n, nd, nf)
