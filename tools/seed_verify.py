#!/usr/bin/env python3
"""Verify a seeded breakage produced in a scratch worktree, store it under /verif/seeded/<name>/ and run the
property's check against it.   usage: seed_verify.py <Cxx> <worktree> <name> ["needs text"]

Stores patch.diff, the demonstration script and meta.json (which property, what it needs to manifest, what was run
and with what result)."""
import json
import os
import shutil
import subprocess
import sys
import time

ROOT = os.path.dirname(os.path.dirname(os.path.abspath(__file__)))


def run(cmd, cwd=None, env=None, timeout=3600):
    t = time.time()
    p = subprocess.run(cmd, cwd=cwd, env=env, shell=isinstance(cmd, str), capture_output=True, text=True, timeout=timeout)
    return p.returncode, p.stdout + p.stderr, round(time.time() - t, 1)


def main():
    pid, wt, name = sys.argv[1:4]
    needs = sys.argv[4] if len(sys.argv) > 4 else ""
    tier = os.environ.get("SEED_TIER", "quick")
    out = os.path.join(ROOT, "seeded", name)
    os.makedirs(out, exist_ok=True)
    demos = [f for f in os.listdir(wt) if f.startswith("demo_") and f.endswith(".py")]
    assert len(demos) == 1, demos
    demo = demos[0]
    rc, diff, _ = run(["git", "diff", "--", "ombott"], cwd=wt)
    assert diff.strip(), "no source change in worktree"
    meta = {"property": pid, "name": name, "needs": needs, "ran": []}
    rc, o, t = run(["/venv/bin/python", "-m", "pytest", "-q", "-p", "no:cacheprovider"], cwd=wt)
    meta["ran"].append({"cmd": "pytest (change applied)", "exit": rc, "tail": o.strip().splitlines()[-1:]})
    tests_ok = rc == 0
    rc1, o1, _ = run(["/venv/bin/python", demo], cwd=wt)
    meta["ran"].append({"cmd": "demo (change applied)", "exit": rc1, "tail": o1.strip().splitlines()[-3:]})
    pf = "/tmp/%s.seedpatch" % name          # (git stash is shared between worktrees: revert/re-apply the patch instead)
    open(pf, "w").write(diff)
    r, o, _ = run(["git", "apply", "-R", pf], cwd=wt)
    assert r == 0, o
    try:
        rc0, o0, _ = run(["/venv/bin/python", demo], cwd=wt)
    finally:
        r, o, _ = run(["git", "apply", pf], cwd=wt)
        assert r == 0, o
        os.remove(pf)
    meta["ran"].append({"cmd": "demo (original code)", "exit": rc0, "tail": o0.strip().splitlines()[-2:]})
    meta["valid"] = bool(tests_ok and rc1 != 0 and rc0 == 0)
    open(os.path.join(out, "patch.diff"), "w").write(diff)
    shutil.copy(os.path.join(wt, demo), os.path.join(out, demo))
    if meta["valid"] and not os.environ.get("SEED_NO_CHECK"):
        env = dict(os.environ, OMBOTT_REPO=wt, VERIF_EVIDENCE_OUT="/tmp/seed_ev_%s.json" % name)
        only = os.environ.get("SEED_ONLY")       # restrict the run to the queries matching a pattern (recorded in the meta)
        if only:
            env.update(PYTHONDONTWRITEBYTECODE="1", PYTHONHASHSEED="0")
            rc, o, t = run([os.path.join(ROOT, ".venv/bin/python"), "-m", "vf.run", pid, "--tier", tier, "--only", only], cwd=ROOT, env=env)
        else:
            rc, o, t = run([os.path.join(ROOT, "check"), pid, tier], cwd=ROOT, env=env)
        viol = [ln for ln in o.splitlines() if ln.startswith("VIOLATION")]
        first = ""
        for i, ln in enumerate(o.splitlines()):
            if ln.startswith("VIOLATION"):
                first = "\n".join(o.splitlines()[i:i + 3])[:700]
                break
        meta["check"] = {"cmd": "OMBOTT_REPO=<worktree with the change> ./check %s %s" % (pid, tier) + (
            " (restricted to the queries matching %r: python -m vf.run %s --tier %s --only ...)" % (only, pid, tier) if only else ""), "exit": rc,
                         "violations": len(viol), "first": first, "wall_s": t,
                         "summary": [ln for ln in o.splitlines() if ln.startswith(pid + " ")][-1:]}
        meta["detected"] = rc == 1 and bool(viol)
    json.dump(meta, open(os.path.join(out, "meta.json"), "w"), indent=1)
    print(json.dumps({k: meta.get(k) for k in ("property", "name", "valid", "detected")}),
          (meta.get("check") or {}).get("first", "")[:400])


if __name__ == "__main__":
    main()
