#!/usr/bin/env python3
"""Regenerate /verif/MANIFEST.json from the harness modules (run with .venv/bin/python)."""
import os
os.environ["VERIF_DESCRIBE_ONLY"] = "1"
import importlib, json, os, sys
ROOT = os.path.dirname(os.path.dirname(os.path.abspath(__file__)))
sys.path.insert(0, ROOT); sys.path.insert(0, "/repo")
props = [json.loads(l) for l in open(os.path.join(ROOT, "properties.jsonl"))]
NA = json.load(open(os.path.join(ROOT, "tools", "not_applicable.json")))
REG = json.load(open(os.path.join(ROOT, "tools", "registered.json")))
checks, na = [], []
for p in props:
    pid = p["id"]
    mods = sorted(n[:-3] for n in os.listdir(os.path.join(ROOT, "harness")) if n.lower().startswith(pid.lower()) and n.endswith(".py"))
    if not mods or pid in NA or pid not in REG:
        na.append({"property_id": pid, "reason": NA.get(pid, "no solver-based check registered for this property yet")})
        continue
    # one process per harness: harnesses rebind attributes of ombott modules at import and must not see each other
    code = ("import sys, json; sys.path.insert(0, %r); sys.path.insert(0, '/repo'); import crosshair.core_and_libs; "
            "import importlib; m = importlib.import_module('harness.%s'); "
            "print('@@' + json.dumps({k: getattr(m, k) for k in ('LEVEL_TEXT', 'LEVEL_NOTE', 'TECHNIQUE')}))" % (ROOT, mods[0]))
    import subprocess, types
    out = subprocess.run([sys.executable, "-c", code], capture_output=True, text=True, cwd=ROOT)
    line = [ln for ln in out.stdout.splitlines() if ln.startswith("@@")]
    assert line, (pid, out.stderr[-2000:])
    m = types.SimpleNamespace(**json.loads(line[0][2:]))
    checks.append({
        "property_id": pid,
        "quick_cmd": "./check %s quick" % pid,
        "thorough_cmd": "./check %s thorough" % pid,
        "evidence_file": "/verif/evidence/%s.json" % pid,
        "replay_cmd_template": "./check --replay {path}",
        "engine": "crosshair-z3",
        "level_claimed": {"category": "model_checking", "text": m.LEVEL_TEXT, "design_ref": "DESIGN.md §4 " + pid},
        "level_note": m.LEVEL_NOTE,
        "technique": m.TECHNIQUE,
    })
man = {
    "version": 1,
    "setup_cmd": "./setup.sh",
    "hooks": {"guard": "OMBOTT_VERIF", "enable": "none needed: stubs are installed by rebinding module attributes inside the checking process; no hook code exists in /repo",
              "baseline_off_cmd": "cd /repo && /venv/bin/python -m pytest -ra -q -p no:cacheprovider --timeout=900 --continue-on-collection-errors",
              "source_commits": [], "add_only": True},
    "engines": [{"name": "crosshair-z3", "path": "/verif/vf/engine.py", "serves_properties": [c["property_id"] for c in checks],
                 "kind_free_text": "bounded symbolic execution of the real Python code of /repo/ombott (CrossHair 0.0.110) with z3 deciding every branch; path-exhaustive within stated bounds; counterexamples replayed natively"}],
    "checks": checks,
    "not_applicable": na,
    "notes": "All checks: ./check <id> quick|thorough -> vf/run.py. Evidence rewritten on every run. KNOWN_FINDINGS.txt lists genuine defects (fixed: entries suppress nothing). Exit 3 = machinery error (never a verdict).",
}
json.dump(man, open(os.path.join(ROOT, "MANIFEST.json"), "w"), indent=1)
print("checks:", [c["property_id"] for c in checks], "n/a:", [n["property_id"] for n in na])
