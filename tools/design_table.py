#!/usr/bin/env python3
"""refresh the 'quick: queries / paths / wall' column of the table in DESIGN.md section 4 from evidence/*.json"""
import json
import os
import re

ROOT = os.path.dirname(os.path.dirname(os.path.abspath(__file__)))
p = os.path.join(ROOT, "DESIGN.md")
s = open(p).read()


def fmt(n):
    return "%.1fk" % (n / 1000.0) if n >= 1000 else str(n)


def repl(m):
    pid = m.group(1)
    f = os.path.join(ROOT, "evidence", pid + ".json")
    if not os.path.exists(f):
        return m.group(0)
    ev = json.load(open(f))
    if ev.get("tier") != "quick":
        return m.group(0)
    c = ev["coverage"]
    extra = sum(len(b.get("queries", [])) for b in c.get("other_builds", {}).values())
    cell = "%d%s / %s / %d s" % (c["queries_total"], " + %d (-O)" % extra if extra else "", fmt(c["evaluations"]), round(ev["wall_s"]))
    return m.group(0)[:m.group(0).rindex("|", 0, len(m.group(0)) - 1) + 1] + " " + cell + " |"


# only the table of section 4 (other tables of the document have rows starting with a property id too)
i = s.index("## 4. Per-property design")
j = s.index("Per property (bounds are also in every query's")
s2 = s[:i] + re.sub(r"^\| (C\d\d) \|.*\|$", repl, s[i:j], flags=re.M) + s[j:]
open(p, "w").write(s2)
print("updated" if s2 != s else "unchanged")
