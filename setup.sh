#!/bin/sh
# Idempotent, offline: overlay venv over /venv with crosshair-tool + z3-solver from the local wheelhouse.
set -e
cd "$(dirname "$0")"
V=.venv
if [ ! -x $V/bin/python ] || ! $V/bin/python -c "import crosshair, z3" 2>/dev/null; then
    rm -rf $V
    /venv/bin/python -m venv $V
    SP=$($V/bin/python -c "import sysconfig; print(sysconfig.get_paths()['purelib'])")
    echo "import site; site.addsitedir('/venv/lib/python3.12/site-packages')" > "$SP/_venv_overlay.pth"
    PIP_NO_INDEX=1 $V/bin/pip install -q --no-index --find-links /opt/veriftools/wheels crosshair-tool z3-solver
fi
$V/bin/python -c "import crosshair, z3, ombott; print('setup ok: crosshair', crosshair.__version__, 'z3', z3.get_version_string(), 'ombott from', ombott.__file__)"
