"""Rule specifications, their rendering into ombott's rule syntax flavours, and the
plain rule-by-rule reference matcher (oracle) shared by C01 / C11 / C19.

Nothing here uses ombott's rule parser or router: a spec is rendered to rule
text by `render`, and matched by `match_spec` straight from the spec.
"""
import re
from dataclasses import dataclass
from typing import List, Optional

MARK = "\r"     # only used to compare pattern *positions* (literal vs wildcard) in `prefer`


@dataclass(frozen=True)
class L:
    text: str


@dataclass(frozen=True)
class W:
    name: Optional[str] = None       # None = anonymous
    filter: Optional[str] = None     # None | 'int' | 're' | 'path' | 'float'
    arg: str = ""                    # regex text for 're'


def positions(spec) -> str:
    """pattern-position string: literal text, one MARK per wildcard"""
    return "".join(s.text if isinstance(s, L) else MARK for s in spec)


def _regex_of(spec, k):
    w = spec[k]
    if w.filter == "int":
        return r"-?\d+"
    if w.filter == "float":
        return r"-?\d+(\.\d+)?"
    if w.filter == "re":
        return w.arg
    if w.filter == "path":
        nxt = spec[k + 1].text if k + 1 < len(spec) and isinstance(spec[k + 1], L) else ""
        return ".+(?=%s)" % re.escape(nxt) if nxt else ".+$"
    raise ValueError(w.filter)


_rx_cache = {}


def _rx(p):
    r = _rx_cache.get(p)
    if r is None:
        r = _rx_cache[p] = re.compile(p)
    return r


def warm(spec):
    for k, s in enumerate(spec):
        if isinstance(s, W) and s.filter:
            _rx(_regex_of(spec, k))


def match_spec(spec, path, allow_empty):
    """Plain matcher of ONE rule against the whole (already slash-stripped) path.
    Returns the list of (name, converted value) of all wildcards, or None."""
    i = 0
    n = len(path)
    vals = []
    for k, s in enumerate(spec):
        if isinstance(s, L):
            t = s.text
            if path[i:i + len(t)] != t:
                return None
            i += len(t)
            continue
        if s.filter is None:
            j = i
            while j < n and path[j] != "/":
                j += 1
            raw = path[i:j]
            val = raw
        else:
            m = _rx(_regex_of(spec, k)).match(path[i:])
            if m is None:
                return None
            raw = m.group()
            j = i + m.end()
            if s.filter == "int":
                val = int(raw)
            elif s.filter == "float":
                val = float(raw)
            else:
                val = raw
        if not allow_empty and len(raw) == 0:
            return None
        vals.append((s.name, val))
        i = j
    if i != n:
        return None
    return vals


def prefer(pa: str, pb: str):
    """which of two position strings wins when both rules match: 'a', 'b' or None (undetermined)"""
    for ca, cb in zip(pa, pb):
        if ca != cb:
            if ca == MARK:
                return "b"
            if cb == MARK:
                return "a"
            return None
    return None


# ------------------------------------------------------------------ rendering
def render(spec, flavour: int) -> str:
    """rule text for a spec. flavour selects among equivalent spellings (0..3)."""
    out = ["/"]
    for k, s in enumerate(spec):
        if isinstance(s, L):
            out.append(s.text)
            continue
        nxt = spec[k + 1] if k + 1 < len(spec) else None
        colon_ok = nxt is None or (isinstance(nxt, L) and nxt.text.startswith("/"))
        o, c = ("<", ">") if flavour % 2 == 0 else ("{", "}")
        if s.filter is None:
            if s.name is None:
                assert colon_ok, "anonymous unfiltered wildcard needs ':' syntax"
                out.append(":")
            elif colon_ok and flavour in (0, 3):
                out.append(":" + s.name)
            else:
                out.append(o + s.name + c)
            continue
        f = s.filter
        if f in ("int", "float", "path"):
            if s.name is None:
                body = ":" + f if flavour < 2 else f + "()"
            else:
                body = (s.name + ":" + f) if flavour == 0 else (s.name + "." + f + "()") if flavour == 1 else \
                    (s.name + ":" + f + "()") if flavour == 2 else (s.name + "." + f)
        else:  # re
            if s.name is None:
                body = ":re(%s)" % s.arg if flavour < 2 else "re(%s)" % s.arg
            else:
                body = ("%s:re(%s)" % (s.name, s.arg)) if flavour in (0, 3) else ("%s.re(%s)" % (s.name, s.arg)) \
                    if flavour == 1 else ("%s:re:%s" % (s.name, s.arg))
        out.append(o + body + c)
    return "".join(out)


def names(spec) -> List[str]:
    return [s.name for s in spec if isinstance(s, W) and s.name is not None]
