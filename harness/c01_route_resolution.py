"""C01 - route resolution equals the plain rule-by-rule semantics."""
import random
import re

from vf.engine import assume, cover
from vf.query import Q
from harness.routespec import L, W, render, match_spec, positions, prefer, names, warm

from vf import stubs_c19          # float(text) / str(float) model for symbolic decimal literals (see C19)
from ombott.router import RadiRouter
from ombott.router.radidict import RadiDictKeyError
from ombott.router.errors import RouteError
import ombott

PROPERTY = "C01"
TECHNIQUE = ("bounded symbolic execution of RadiRouter.resolve/RadiDict.get on a fully symbolic request path (CrossHair+z3), "
             "differential against a rule-by-rule reference matcher built from rule specs; rule sets enumerated")
LEVEL_TEXT = ("For each enumerated rule set (rendered into every rule-syntax flavour and registered through the real parser and "
              "radix-tree insert) the real lookup is executed on a fully symbolic path (every string up to N code points, any "
              "code point incl. '/', CR, non-ASCII); z3 decides every branch of the tree walk, the filter regexes and the "
              "oracle, so inside the bound the selected rule, the 404/405 answer, the kwargs names and the converted values "
              "equal the reference semantics for every path. Bounded: N and the rule sets.")
LEVEL_NOTE = ("Trusted: z3, CrossHair's str/regex/int models (+vf/chmodels corrections), the reference matcher in "
              "harness/routespec.py. Tolerance fixed in DESIGN: where the reference answer depends on whether a wildcard may "
              "bind the empty string either answer is accepted. Rules ending in '/' are not generated (resolve strips "
              "slashes from the path). int/float-filtered sets restrict the path to code points < 128.")
FUNCTIONS = [
    "ombott.router.radidict:RadiDict.get",
    "ombott.router.radirouter:RadiRouter.resolve",
    "ombott.router.radirouter:Route.make_params_dict",
    "ombott.router.radirouter:Route.__getitem__",
    "ombott.router.filter_factory:FilterFactory.make_filter",
    "ombott.router.radirouter:Route.parse_rule",
    "ombott.router.parser:Parser._iter_parse",
    "ombott.router.parser:Parser._parse_param",
    "ombott.router.radidict:RadiDict._set",
    "ombott.router.radidict:RadiDict._make_route",
    "ombott.router.radidict:RadiDict._split",
    "ombott.ombott:Ombott._handle",
]
STUBS = ["vf.stubs_c19.float_model: float(text) of a symbolic ASCII decimal literal kept as canonical text (float-filtered rule set only)"]
ASSUMPTIONS = ["tree construction (parser, _set/_split/_mount) runs concretely per rule set; only the lookup is symbolic"]
OUTSIDE = ["paths longer than N", "rule sets not in the enumerated/generated list", "rex filters with selectors",
           "float filters beyond what fits a path of N characters (v/ + 3-4 characters)", "rules with a trailing slash", "non-ASCII digits for int filters"]
BUDGET_S = {"quick": 280, "thorough": 1150}

GET, POST = "GET", "POST"
stubs_c19.install()


def RS(*rules):
    return [(list(spec), meth) for spec, meth in rules]


def r(*segs, m=GET):
    return (segs, m)


# hand-made rule sets: (tag, rules, ascii_only)
HAND = [
    ("lit-split", RS(r(L("a")), r(L("ab")), r(L("a/b")), r(L("a/bc")), r(L("b/a"))), False),
    ("backtrack", RS(r(L("a/"), W("x")), r(L("a/b")), r(L("a/"), W("x"), L("/c")), r(L("a/b/d"))), False),
    ("root-wild", RS(r(W("x")), r(L("a")), r(W("x"), L("/b")), r(L("a/c")), r()), False),
    ("int", RS(r(L("u/"), W("n", "int")), r(L("u/"), W("n", "int"), L("/e")), r(L("u/me")), r(L("u/-"))), True),
    ("re", RS(r(L("f/"), W("r", "re", "[a-c]+")), r(L("f/"), W("r", "re", "[a-c]+"), L("x")), r(L("f/ab"))), False),
    ("path", RS(r(L("p/"), W("q", "path"), L("/e")), r(L("p/"), W("q", "path"), L("/e/f")), r(L("p/x"))), False),
    ("inseg", RS(r(L("a"), W("x"), L("b")), r(L("a"), W("x")), r(L("ab"))), False),
    ("anon", RS(r(W(None), L("/a")), r(W(None, "re", "x."), L("/b")), r(W("k"), L("/c"))), False),
    ("samepat", RS(r(L("a/"), W("x")), r(L("a/"), W("y"), m=POST), r(L("a/"), W("z"), L("/k")), r(L("a/"), W(None), m="PUT")), False),
    ("adjacent", RS(r(W("a", "int"), W("b", "re", "[x-z]")), r(W("a", "int"), L("x")), r(L("1y"))), True),
    ("cr-lit", RS(r(L("c/"), W("y"), L("/b")), r(L("c/d/b"))), False),
    ("deep", RS(r(W("a"), L("/"), W("b")), r(W("a"), L("/"), W("b"), L("/"), W("c")), r(L("x/"), W("b")), r(L("x/y/z"))), False),
    ("path-short", RS(r(L("p"), W("q", "path"), L("e")), r(L("p"), W("q", "path"), L("e/"), W("t")), r(L("px"))), False),
    ("re-nested", RS(r(L("k/"), W("v", "re", "a(b(c)?)?")), r(L("k/"), W("v", "re", "a(b(c)?)?"), L("/z")), r(L("k/ab"))), False),
    ("split-wild", RS(r(L("i/new")), r(L("i/nex")), r(L("i/"), W("id")), r(L("i/"), W("id"), L("/s"))), False),
    # a path-filtered wildcard, literal text, then a wildcard in the ':name' flavour (one rule mixing syntax flavours)
    ("path-wild", RS(r(W("p", "path"), L("-"), W("v")), r(L("a-b")), r(W("p", "path"), L("-"), W("v"), L("/z"))), False),
    # filters whose regex looks at its left context (start anchor, word boundary, look-behind): a filter is applied to the
    # text at the cursor, what precedes the wildcard in the path is not its business (since seed C01-i)
    # rules of one shape whose wildcard at the same position carries different filters, registered for different methods:
    # the router may refuse the later ones (it does), or serve every rule behind its own filter (since seed C01-j)
    ("filter-clash", RS(r(L("n/"), W("v", "re", "[a-c]+")), r(L("n/"), W("v", "int"), m=POST), r(L("q/"), W("x", "int"), L("/z")),
                        r(L("q/"), W("x"), L("/z"), m="PUT")), True),
    ("re-context", RS(r(L("i/"), W("c", "re", "^[ab]+")), r(L("n"), W("k", "re", r"\B[0-9]")), r(L("t-"), W("t", "re", "(?<!-)[ab]"), L("/x")),
                      r(L("w"), W("b", "re", r"\b[0-9]"), L("z"))), True),
    # a literal sibling next to a plain wildcard next to an int-filtered rule: the lookup of "f/r<digits>" descends into the
    # literal branch with a backtracking point pending when the conversion runs (after-fault/ family, since seed C01-k)
    ("fault-int", RS(r(L("f/re")), r(L("f/"), W("name")), r(L("f/r"), W("rev", "int")), r(L("g"))), True),
    ("float", RS(r(L("v/"), W("f", "float")), r(L("v/"), W("f", "float"), L("/x")), r(L("v/1")), r(L("v/1.")),), True),
]


def gen_sets(n, seed):
    """seeded random rule sets over a small vocabulary designed to share / split prefixes"""
    rnd = random.Random(seed)
    lits = ["a", "b", "ab", "a/", "/b", "a/b", "/", "x", "-", "ba"]
    wilds = [W("p"), W("q"), W("n", "int"), W("r", "re", "[ab]+"), W("s", "re", "a?"), W("t", "path"), W(None, "re", "b.")]
    out = []
    for i in range(n):
        rules = []
        for _ in range(rnd.randint(3, 5)):
            segs = []
            last_w = False
            for _ in range(rnd.randint(1, 4)):
                if last_w or rnd.random() < 0.55:
                    t = rnd.choice(lits)
                    if segs and isinstance(segs[-1], L):
                        segs[-1] = L(segs[-1].text + t)
                    else:
                        segs.append(L(t))
                    last_w = False
                else:
                    segs.append(rnd.choice(wilds))
                    last_w = True
            # normalise: no leading '/', no trailing '/', unique wildcard names
            if isinstance(segs[0], L):
                t = segs[0].text.lstrip("/")
                segs = ([L(t)] if t else []) + segs[1:]
            if segs and isinstance(segs[-1], L):
                t = segs[-1].text.rstrip("/")
                segs = segs[:-1] + ([L(t)] if t else [])
            seen = set()
            ok = True
            for s in segs:
                if isinstance(s, W) and s.name:
                    if s.name in seen:
                        ok = False
                    seen.add(s.name)
            # anonymous unfiltered wildcard needs ':' position - none in vocabulary; '//' literal allowed
            if ok and segs:
                rules.append((segs, rnd.choice([GET, GET, POST])))
        asc = any(isinstance(s, W) and s.filter in ("int", "float") for sp, _ in rules for s in sp)
        out.append(("gen%d" % i, rules, asc))
    return out


def group_key(spec):
    return (positions(spec), tuple((el.filter, el.arg) for el in spec if not hasattr(el, "text")))


class Built:
    """router built by the real code from rendered rules + what the oracle needs"""

    def __init__(self, rules, flavour, names=False):
        self.routes = {}
        self.router = RadiRouter()
        self.accepted = []          # (spec, method, idx)
        self.rejected = []
        self.rendered = []
        for idx, (spec, meth) in enumerate(rules):
            warm(spec)
            text = render(spec, flavour)
            self.rendered.append(text)

            def handler(_idx=idx, **kw):
                return (_idx, kw)
            handler.idx = idx
            try:
                self.routes[idx] = self.router.add(text, meth, handler, **({"name": "n%d" % idx} if names else {}))
            except (RouteError, RadiDictKeyError, AssertionError, re.error) as e:   # rejected registration: not part of the set
                self.rejected.append((idx, "%s (%s: %s)" % (text, type(e).__name__, str(e).split("\n")[0])))
                continue
            self.accepted.append((spec, meth, idx))
        # groups: rules sharing position string AND the filters of their wildcards (rules of one shape with different
        # filters are different rules: each is matched behind its own filter, since seed C01-j)
        self.groups = {}
        for spec, meth, idx in self.accepted:
            self.groups.setdefault(group_key(spec), []).append((spec, meth, idx))


def oracle(built, path, method, allow_empty):
    """-> ('404',) | ('405', allow) | ('ok', idx, kwargs) | ('undetermined',)"""
    p = path.strip("/")
    best = None
    for pos, members in built.groups.items():
        vals = match_spec(members[0][0], p, allow_empty)
        if vals is None:
            continue
        if best is None:
            best = (pos, members, vals)
            continue
        w = None if best[0][0] == pos[0] else prefer(best[0][0], pos[0])
        if w is None:
            return ("undetermined",)
        if w == "b":
            best = (pos, members, vals)
    if best is None:
        return ("404",)
    pos, members, vals = best
    for spec, meth, idx in members:
        if meth == method:
            kw = {}
            k = 0
            for s in spec:
                if isinstance(s, W):
                    if s.name is not None:
                        kw[s.name] = vals[k][1]
                    k += 1
            return ("ok", idx, kw)
    return ("405", ",".join(sorted({m for _, m, _ in members})))


def observe(built, path, method):
    end_point, err = built.router.resolve(path, [method])
    if end_point:
        meth, params, hooks = end_point
        return ("ok", meth.handler.idx, dict(params))
    if err[0] == 404:
        return ("404",)
    return ("405", err[2])


def same(a, b):
    if a[0] != b[0]:
        return False
    if a[0] == "ok":
        if a[1] != b[1] or set(a[2]) != set(b[2]):
            return False
        for k in a[2]:
            va, vb = a[2][k], b[2][k]
            if type(va) is not type(vb) and not (isinstance(va, (int, str, float)) and isinstance(vb, (int, str, float))):
                return False
            if va != vb:
                return False
            if isinstance(va, str) != isinstance(vb, str):
                return False
        return True
    return a == b


EXPECT_REJECTED = {"path": {1}, "anon": {0, 2}, "path-short": {1}, "filter-clash": {1, 3}}
MAY_ACCEPT = {"filter-clash"}      # sets whose listed rules may also be accepted (then they are part of the rule-by-rule semantics)


def make_resolve(rules, flavour, N, ascii_only, method=GET, strict=False, may_accept=False):
    built = Built(rules, flavour)

    def q(path: str):
        rejected = {i for i, _ in built.rejected}
        if strict is not False and (not rejected <= strict if may_accept else rejected != strict):
            # apart from the rules listed in EXPECT_REJECTED (a second filter on a node that already has one; an
            # anonymous ':' wildcard followed by text) a hand-written set holds rules that are valid by the documented
            # syntax: a router that cannot take one of them answers 'not found' for paths a rule of the set matches
            return "rule set %r: rules rejected at registration %r, expected only numbers %r" % (
                built.rendered, built.rejected, sorted(strict))
        assume(len(path) <= N)
        if ascii_only:
            for ch in path:
                assume(ord(ch) < 128)
        got = observe(built, path, method)
        a = oracle(built, path, method, True)
        if a[0] == "undetermined" or same(got, a):
            cover(got[0])
            return None
        b = oracle(built, path, method, False)
        if b[0] == "undetermined" or same(got, b):
            cover("empty-wildcard-tolerance")
            return None
        return "path %r method %s: router %r, rule-by-rule semantics %r (rules %r)" % (
            path, method, got, a, built.rendered)
    return q, built


def make_removed(rules, flavour, N, how, arg):
    """the rule set after a removal: all rules are registered, then some are removed by one of the public spellings
    (rule text, name, route object, 'prefix*'); resolution must be the one of the rules that remain"""
    built = Built(rules, flavour, names=True)
    if how == "prefix":
        gone = {idx for spec, _m, idx in built.accepted if positions(spec).startswith(arg)}
        built.router.remove("/" + arg + "*")
    else:
        gone = {arg}
        if how == "rule":
            built.router.remove(built.rendered[arg])
        elif how == "name":
            built.router.remove(name="n%d" % arg)
        else:
            built.router.remove(built.routes[arg])
    assert gone
    built.accepted = [a for a in built.accepted if a[2] not in gone]
    built.groups = {}
    for spec, meth, idx in built.accepted:
        built.groups.setdefault(group_key(spec), []).append((spec, meth, idx))

    def q(path: str):
        assume(len(path) <= N)
        got = observe(built, path, GET)
        a = oracle(built, path, GET, True)
        if a[0] == "undetermined" or same(got, a):
            cover(got[0])
            return None
        b = oracle(built, path, GET, False)
        if b[0] == "undetermined" or same(got, b):
            return None
        return "after removing rule(s) %s by %s: path %r: router %r, rule-by-rule semantics of the remaining rules %r" % (
            sorted(gone), how, path, got, a)
    return q, sorted(gone)


def fault_path(spec):
    """a concrete path on which the rule's int conversion raises (more digits than int() accepts: ValueError)"""
    return "/" + "".join(s.text if isinstance(s, L) else ("9" * 4301 if s.filter == "int" else "x") for s in spec)


def make_after_fault(rules, flavour, N):
    """a lookup that dies from an exception (the conversion of an int wildcard refuses a numeral of 4301 digits: ValueError,
    answered 500 by the application), THEN the judged lookup on the same router: whatever the aborted lookup left behind
    must not reach the next one (every path a process of its own: the router is rebuilt)"""
    built0 = Built(rules, flavour)
    faults = [fault_path(spec) for spec, _, _ in built0.accepted if any(isinstance(s, W) and s.filter == "int" for s in spec)]
    assert faults
    from harness.c11_router_histories import untraced

    def q(path: str, which: int):
        assume(len(path) <= N)
        assume(0 <= which < len(faults))
        for ch in path:
            assume(ord(ch) < 128)
        built = untraced(lambda: Built(rules, flavour))
        fp = faults[which]

        def fault():
            try:
                built.router.resolve(fp, [GET])
            except ValueError:
                return True
            return False
        if untraced(fault):
            cover("fault")
        got = observe(built, path, GET)
        a = oracle(built, path, GET, True)
        if a[0] == "undetermined" or same(got, a):
            cover(got[0])
            return None
        b = oracle(built, path, GET, False)
        if b[0] == "undetermined" or same(got, b):
            return None
        return "after a lookup of %s...(%d characters) that raised: path %r -> router %r, rule-by-rule semantics %r (rules %r)" % (
            fp[:12], len(fp), path, got, a, built.rendered)
    return q, built0, faults


def make_wsgi(rules, flavour, N):
    """kwargs as received by the handler through Ombott.__call__"""
    built0 = Built(rules, flavour)

    def q(path: str):
        assume(len(path) <= N)
        for ch in path:
            assume(ord(ch) < 128)
        app = ombott.Ombott()
        for code in (404, 405):        # constant error bodies: rendering the URL into the page is C20's subject
            app.error_handlers[code] = lambda e: "err"
        seen = []
        for spec, meth, idx in built0.accepted:
            def h(_idx=idx, **kw):
                seen.append((_idx, kw))
                return "ok"
            app.route(render(spec, flavour), method=meth, callback=h)
        status = []
        env = {"REQUEST_METHOD": GET, "PATH_INFO": "/" + path, "wsgi.errors": None, "SERVER_NAME": "h", "SERVER_PORT": "80",
               "wsgi.url_scheme": "http"}
        body = b"".join(app(env, lambda s, h, e=None: status.append(s)))
        want = oracle(built0, "/" + path, GET, True)
        alt = oracle(built0, "/" + path, GET, False)
        code = status[0][:3]
        for o in (want, alt):
            if o[0] == "undetermined":
                return None
            if o[0] == "ok" and code == "200" and len(seen) == 1 and same(("ok",) + seen[0], o):
                cover("200")
                return None
            if o[0] in ("404", "405") and code == o[0] and not seen:
                cover(code)
                return None
        return "PATH_INFO %r: status %s handler calls %r, reference %r" % ("/" + path, status[0], seen, want)
    return q


def make_wsgi_late(rules, late, flavour, N):
    """a long-lived application: the request path is served once, THEN rule number `late` is registered (and the
    handler of rule 0 re-registered with overwrite=True), then the same path is requested again: the second answer must
    be the one of the final rule set (nothing remembered from the first resolution may survive the edit)"""
    built0 = Built(rules, flavour)

    def q(path: str):
        assume(len(path) <= N)
        for ch in path:
            assume(ord(ch) < 128)
        app = ombott.Ombott()
        for code in (404, 405):
            app.error_handlers[code] = lambda e: "err"
        seen = []

        def handler_for(idx, gen):
            def h(**kw):
                seen.append((idx, gen, kw))
                return "ok"
            return h
        for spec, meth, idx in built0.accepted:
            if idx != late:
                app.route(render(spec, flavour), method=meth, callback=handler_for(idx, 0))

        def get():
            status = []
            env = {"REQUEST_METHOD": GET, "PATH_INFO": "/" + path, "wsgi.errors": None, "SERVER_NAME": "h",
                   "SERVER_PORT": "80", "wsgi.url_scheme": "http"}
            b"".join(app(env, lambda s, h, e=None: status.append(s)))
            return status[0][:3]
        get()
        del seen[:]
        for spec, meth, idx in built0.accepted:
            if idx == late:
                app.route(render(spec, flavour), method=meth, callback=handler_for(idx, 1))
        spec0, meth0, idx0 = built0.accepted[0]
        app.route(render(spec0, flavour), method=meth0, callback=handler_for(idx0, 1), overwrite=True)
        code = get()
        want = oracle(built0, "/" + path, GET, True)
        alt = oracle(built0, "/" + path, GET, False)
        for o in (want, alt):
            if o[0] == "undetermined":
                return None
            if o[0] == "ok" and code == "200" and len(seen) == 1 and same(("ok", seen[0][0], seen[0][2]), o):
                if seen[0][0] in (late, idx0) and seen[0][1] != 1:
                    return "PATH_INFO %r after the edit: the handler registered BEFORE the edit ran (rule %d)" % ("/" + path, seen[0][0])
                cover("200-late" if seen[0][0] == late else "200")
                return None
            if o[0] in ("404", "405") and code == o[0] and not seen:
                cover(code)
                return None
        return "PATH_INFO %r requested again after registering %r: status %s handler calls %r, reference %r" % (
            "/" + path, built0.rendered[late], code, seen, want)
    return q


def queries(tier):
    T = tier == "thorough"
    out = []
    sets = list(HAND)
    seed = 20260929
    sets += gen_sets(4 if not T else 28, seed)
    for tag, rules, asc in sets:
        flavours = [0] if not T else [0, 1, 2]
        if T and tag.startswith("gen") and int(tag[3:]) >= 10:
            flavours = [int(tag[3:]) % 3]
        if tag in ("samepat", "anon", "int") and not T:
            flavours = [0, 1]
        for fl in flavours:
            N = 5 if not T else 6
            if not T and (tag.startswith("gen") or tag == "adjacent"):
                N = 4
            if T and tag.startswith("gen"):
                N = 5
            if tag in ("lit-split", "backtrack", "root-wild", "deep") and T:
                N = 7
            methods = [GET] if tag not in ("samepat", "filter-clash") else [GET, POST, "PUT"]
            for m in methods:
                fn, built = make_resolve(rules, fl, N, asc, m, strict=False if tag.startswith("gen") else EXPECT_REJECTED.get(tag, set()),
                                         may_accept=tag in MAY_ACCEPT)
                out.append(Q("resolve/%s/f%d/%s" % (tag, fl, m), fn,
                             "rules %r; every path with <= %d code points%s; method %s" % (
                                 built.rendered, N, " (< 128)" if asc else " (any code point)", m),
                             timeout=200 if not T else 600, family="resolve",
                             config={"rules": built.rendered, "accepted": [i for _, _, i in built.accepted]}))
    removals = [("backtrack", "prefix", "a/b"), ("backtrack", "name", 0), ("split-wild", "prefix", "i/ne"), ("deep", "object", 1)]
    if T:
        removals += [("backtrack", "rule", 2), ("root-wild", "prefix", "a"), ("split-wild", "name", 2), ("lit-split", "prefix", "a"),
                     ("deep", "prefix", "x/"), ("int", "object", 0)]
    for tag, how, arg in removals:
        rules = next((rs for t, rs, _ in HAND if t == tag), None)
        if rules is None:
            continue
        fn, gone = make_removed(rules, 0, 5 if not T else 6, how, arg)
        out.append(Q("removed/%s/%s-%s" % (tag, how, str(arg).replace("/", "_")), fn,
                     "rule set %r registered, then rule(s) %r removed by %s; every path with <= %d code points"
                     % (tag, gone, {"prefix": "remove('/%s*')" % arg, "rule": "remove(rule text)", "name": "remove(name=...)",
                                    "object": "remove(route object)"}[how], 5 if not T else 6),
                     timeout=200 if not T else 600, family="removed", config={"set": tag, "how": how, "arg": arg}))
    for tag in (["backtrack", "samepat"] if not T else ["backtrack", "samepat", "int", "re", "root-wild", "anon"]):
        rules = next(rs for t, rs, _ in HAND if t == tag)
        out.append(Q("wsgi/%s" % tag, make_wsgi(rules, 1, 4 if not T else 5),
                     "Ombott.__call__ GET, kwargs recorded by the handlers; PATH_INFO '/'+p, |p| <= %d, code points < 128" % (4 if not T else 5),
                     timeout=200 if not T else 600, family="wsgi"))
    for tag in (["fault-int", "int"] if not T else ["fault-int", "int", "adjacent", "filter-clash"]):
        rules = next(rs for t, rs, _ in HAND if t == tag)
        n = 4 if not T else 5
        fn, built, faults = make_after_fault(rules, 0, n)
        out.append(Q("after-fault/%s" % tag, fn,
                     "rules %r; first a lookup whose int conversion raises (one of %d concrete paths with a numeral of 4301 digits, "
                     "solver index), then every path with <= %d code points < 128 on the same router" % (built.rendered, len(faults), n),
                     timeout=200 if not T else 600, expect_cover=["fault"], family="after-fault", config={"rules": built.rendered}))
    for tag, late in ((("backtrack", 1), ("root-wild", 1)) if not T else (("backtrack", 1), ("backtrack", 3), ("root-wild", 1), ("path", 2))):
        rules = next(rs for t, rs, _ in HAND if t == tag)
        out.append(Q("wsgi-late/%s/r%d" % (tag, late), make_wsgi_late(rules, late, 1, 4 if not T else 5),
                     "Ombott.__call__ GET on one long-lived application: path requested, then rule %d of set %r registered and "
                     "rule 0 re-registered with overwrite, then the same path again; PATH_INFO '/'+p, |p| <= %d, code points < 128"
                     % (late, tag, 4 if not T else 5), timeout=200 if not T else 600, expect_cover=["200-late"], family="wsgi-late"))
    return out


def selftest(tier):
    # the reference matcher on the repo's own router test expectations
    spec = [L("foo/"), W(None, "re", "pro.+?(?=l)"), L("le/"), W("user"), L("/bar")]
    assert match_spec(spec, "foo/profile/tom/bar", True) == [(None, "profi"), ("user", "tom")]
    spec = [L("path/"), W("pth", "path"), L("/end")]
    assert match_spec(spec, "path/this/path/to/end", True) == [("pth", "this/path/to")]
    assert render([L("re/"), W("name", "re", "to."), L("/bar")], 0) == "/re/<name:re(to.)>/bar"
    return []
