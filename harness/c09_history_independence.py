"""C09 - each response depends on its own request only; retained state is bounded."""
from vf.engine import assume, cover
from vf.query import Q
from vf import stubs

import ombott
from ombott import HTTPError
from ombott.router.filter_factory import FilterFactory
from ombott import error_render

PROPERTY = "C09"
TECHNIQUE = ("bounded symbolic execution of Ombott.__call__ over request histories of length 2-3 on one application "
             "(CrossHair+z3): symbolic contents of the earlier request and of the handler's writes; oracle = same request on "
             "a fresh application; retention decided inductively by a persistent-object-graph signature before/after a request")
LEVEL_TEXT = ("For every ordered pair of request kinds (ok with cookie/header/status writes, 404, 405, undecodable path, "
              "malformed chunked body, oversized body, bodies below/above the in-memory threshold in both framings, handler crash, JSON-accepting client) the earlier request is served "
              "with symbolic contents (query text, header value written, cookie, status from a small list) and the later, "
              "concrete request must get byte-for-byte the response a fresh application gives; z3 decides every branch. "
              "Retention is decided in inductive form: after serving a request of each kind (symbolic contents) the signature "
              "of the persistent object graph (application, configuration incl. the shared error objects with their "
              "traceback/context chains, router, module caches) equals the signature before it, hence retention is constant "
              "for every N.")
LEVEL_NOTE = ("Trusted: z3, CrossHair str models, PyBytesIO stub, the signature function (it enumerates the persistent "
              "containers by hand: a container it does not know is outside). Garbage-collector liveness is heap behaviour "
              "outside the technique; a native weak-reference run over 40 requests is part of the selftest as a sanity "
              "witness only.")
FUNCTIONS = [
    "ombott.ombott:Ombott._handle", "ombott.ombott:Ombott._cast", "ombott.ombott:Ombott.wsgi",
    "ombott.ombott:Ombott.default_error_handler", "ombott.response:HTTPResponse.apply", "ombott.response:BaseResponse.__init__",
    "ombott.request_pkg.request:BaseRequest.__init__", "ombott.request_pkg.request:BaseRequest._raise",
    "ombott.request_pkg.body_mixin:BodyMixin._body", "ombott.error_render:render",
]
STUBS = ["PyBytesIO for io.BytesIO/TemporaryFile inside body_mixin", "FaultStream: wsgi.input whose 2nd read() raises (kinds streamfail / streamreset)",
         "the clock static_stream reads (Date of a 304) is fixed; static_file kinds read two real files made by the harness"]
ASSUMPTIONS = ["every application of a query gets an errors_map with the default contents but objects of its own (the default map is shared process-wide)", "one worker thread; requests served strictly one after another; the server iterates and closes each response"]
OUTSIDE = ["histories longer than 3", "request kinds outside the enumerated list", "symbolic text longer than 1-2 characters",
           "actual garbage-collector liveness (decided in inductive graph form instead)",
           "persistent containers not enumerated by the signature function"]
BUDGET_S = {"quick": 420, "thorough": 1500}

stubs.install_body_io()
error_render.render(HTTPError(500, "x"), "http://h/", False)
STATUS = [200, 201, 404, 500]
COOKIES = ["", "v1"]


class Err:
    def __init__(self):
        self.buf = []

    def write(self, t):
        self.buf.append(t)


def fresh_errors_map():
    """same mapping as DefaultConfig.errors_map but with objects of its own: the default map is a class attribute
    shared by every application of the process, so state leaking into its objects would also leak from one explored
    path into the next (and into the 'fresh application' reference) and blur the verdict"""
    from ombott.ombott import DefaultConfig
    return {cls: HTTPError(e.status_code, e.body) for cls, e in DefaultConfig.errors_map.items()}


def build_app(state):
    # max_memfile_size 2: bodies of 3 bytes and more are spilled to the (stubbed) temporary file
    # domain_map: virtual hosts behind a proxy are dispatched to sub-applications by a path prefix
    app = ombott.Ombott({"max_body_size": 6, "max_memfile_size": 2, "errors_map": fresh_errors_map(),
                         "domain_map": lambda host: {"blog.example": "blog", "shop.example": "shop"}.get(host),
                         "app_name_header": "HTTP_X_APP_NAME"})

    @app.route("/blog/w")
    def blog():
        app.response.set_cookie("tenant", "blog")
        return "blog:" + app.request.query_string

    def text_stream(charset, broken):
        def h():
            app.response.content_type = "text/plain; charset=" + charset

            def chunks():
                yield "\u65e5\u672c"
                if broken:
                    raise IOError("stream breaks off after its first chunk")
                yield "\u8a9e! ok"
            return chunks()
        return h
    # bodies streamed as text in a charset whose codec has state (shift sequences, a byte-order mark written once)
    app.route("/jp", callback=text_stream("iso2022_jp", False))
    app.route("/jp-broken", callback=text_stream("iso2022_jp", True))
    app.route("/u16", callback=text_stream("utf-16", False))
    app.route("/u16-broken", callback=text_stream("utf-16", True))

    @app.route("/who")
    def who():
        return "user=%s theme=%s" % (app.request.get_cookie("session", "nobody"), app.request.cookies.get("theme", "-"))

    @app.route("/logout")
    def logout():
        app.response.delete_cookie("sid")
        return "bye"

    @app.route("/admin/logout")
    def admin_logout():
        app.response.delete_cookie("sid", path="/admin", domain="admin.example", secure=True, httponly=True)
        app.response.set_cookie("seen", "1", max_age=5, path="/admin")
        return "bye admin"

    @app.route("/shop/w")
    def shop():
        app.response.headers["X-Tenant"] = "shop"
        return "shop:" + app.request.query_string

    @app.route("/ok")
    def ok():
        if state.get("write"):
            s, hv, ck = state["write"]
            app.response.status = s
            app.response.headers["X-Out"] = hv
            app.response.headers.append("X-Multi", "m1")
            if ck:
                app.response.set_cookie("sid", ck)
        return "ok:" + app.request.query_string

    @app.route("/only-put", method="PUT")
    def only_put():
        return "put"

    @app.route("/crash")
    def crash():
        app.response.headers["X-Leak"] = "crash"
        app.response.set_cookie("crash", "1")
        raise ValueError("boom")

    @app.route("/body", method="POST")
    def body():
        return app.request.body.read()

    @app.route("/raise")
    def raise_():
        raise ombott.HTTPResponse("raised", 202, X_Raised="1")
    return app


def _make_files():
    """two real files (fixed mtime) for the static_file kinds; the clock static_file reads for the Date of a 304 is fixed"""
    import atexit
    import os
    import shutil
    import tempfile
    from ombott import static_stream
    root = tempfile.mkdtemp(prefix="vf-c09-")
    atexit.register(shutil.rmtree, root, True)
    for name, data in (("page.txt", b"0123456789"), ("other.txt", b"abcdef")):
        with open(os.path.join(root, name), "wb") as f:
            f.write(data)
        os.utime(os.path.join(root, name), (1500000000, 1500000000))

    class FixedClock:
        @staticmethod
        def time():
            return 1600000000.0
    static_stream.time = FixedClock
    return root


FILE_ROOT = _make_files()
FILE_KINDS = ["file", "file-304", "file-range", "file-head", "file2", "file2-304"]
FILE_STATE = {}


def _default_app_routes():
    """static_file reads the request of the module-level default application, so the file kinds are served by it (there
    is one per process: 'a fresh application' is this one before the history)"""
    from ombott.ombott import Globals
    app = Globals.app

    @app.route("/c09/file")
    def file_():
        return ombott.static_file("page.txt", FILE_ROOT)

    @app.route("/c09/file2")
    def file2():
        return ombott.static_file("other.txt", FILE_ROOT, download="o.txt")

    @app.route("/c09/ok")
    def ok():
        if FILE_STATE.get("write"):
            s, hv, ck = FILE_STATE["write"]
            app.response.status = s
            app.response.headers["X-Out"] = hv
            if ck:
                app.response.set_cookie("sid", ck)
        return "ok:" + app.request.query_string
    return app


DEFAULT_APP = _default_app_routes()


def make_file_pair(k1, k2):
    def q(qs: str, hv: str, si: int, ci: int):
        assume(len(qs) <= 1 and len(hv) <= 1)
        for ch in qs + hv:
            o = ord(ch)
            assume(32 < o < 127 and o != 37)
        assume(0 <= si < len(STATUS) and 0 <= ci < len(COOKIES))
        FILE_STATE.clear()
        ref = serve(DEFAULT_APP, env_of(k2, "z=9"))
        FILE_STATE["write"] = (STATUS[si], hv, COOKIES[ci])
        first = serve(DEFAULT_APP, env_of(k1, qs))
        FILE_STATE.clear()
        second = serve(DEFAULT_APP, env_of(k2, "z=9"))
        if second != ref:
            return "history [%s(q=%r, wrote %r), %s] on the default application: response %r, before the history %r" % (
                k1, qs, (STATUS[si], hv, COOKIES[ci]), k2, second, ref)
        cover(first[0][0][0][:3])
        return None
    return q


def env_of(kind, qs="", accept=None):
    env = {"REQUEST_METHOD": "GET", "PATH_INFO": "/ok", "QUERY_STRING": qs, "SERVER_NAME": "h", "SERVER_PORT": "80",
           "wsgi.url_scheme": "http", "wsgi.errors": Err(), "SERVER_PROTOCOL": "HTTP/1.1"}
    if accept:
        env["HTTP_ACCEPT"] = accept
    if kind == "ok":
        pass
    elif kind in ("vh-blog", "vh-shop", "vh-none", "vh-direct"):
        # the same Host (the proxy's backend name) for every tenant, told apart by X-Forwarded-Host
        env.update({"PATH_INFO": "/w", "HTTP_HOST": "backend:8080"})
        if kind == "vh-direct":
            env["HTTP_HOST"] = "shop.example"
        elif kind != "vh-none":
            env["HTTP_X_FORWARDED_HOST"] = kind[3:] + ".example"
    elif kind in ("jp", "jp-broken", "u16", "u16-broken"):
        env["PATH_INFO"] = "/" + kind
    elif kind in ("logout", "admin-logout"):
        env["PATH_INFO"] = "/" + kind.replace("-", "/") if kind != "logout" else "/logout"
    elif kind == "dok":
        env["PATH_INFO"] = "/c09/ok"
    elif kind in FILE_KINDS:
        env["PATH_INFO"] = "/c09/file2" if kind.startswith("file2") else "/c09/file"
        if kind.endswith("-304"):
            env["HTTP_IF_MODIFIED_SINCE"] = "Sun, 13 Sep 2020 12:26:40 GMT"     # after the files' mtime
        elif kind == "file-range":
            env["HTTP_RANGE"] = "bytes=2-5"
        elif kind == "file-head":
            env["REQUEST_METHOD"] = "HEAD"
    elif kind in CK_KINDS:
        env["PATH_INFO"] = "/who"
        if CK_KINDS[kind] is not None:
            env["HTTP_COOKIE"] = CK_KINDS[kind]
    elif kind == "404":
        env["PATH_INFO"] = "/nope"
    elif kind == "405":
        env["PATH_INFO"] = "/only-put"
    elif kind == "badpath":
        env["PATH_INFO"] = "/\xff"
    elif kind == "crash":
        env["PATH_INFO"] = "/crash"
    elif kind == "raise":
        env["PATH_INFO"] = "/raise"
    elif kind == "badchunk":
        env.update({"REQUEST_METHOD": "POST", "PATH_INFO": "/body", "HTTP_TRANSFER_ENCODING": "chunked",
                    "wsgi.input": stubs.SymStream(4, [], data=b"zz\r\n")})
    elif kind in ("streamfail", "streamreset"):    # the server's stream fails after 2 of the 6 announced bytes (client gone / timeout)
        env.update({"REQUEST_METHOD": "POST", "PATH_INFO": "/body", "CONTENT_LENGTH": "6",
                    "wsgi.input": stubs.FaultStream(6, [2], b"uvwxyz", 2, OSError if kind == "streamfail" else ConnectionResetError)})
    elif kind == "oversize":
        env.update({"REQUEST_METHOD": "POST", "PATH_INFO": "/body", "CONTENT_LENGTH": "9",
                    "wsgi.input": stubs.SymStream(9, [], data=b"123456789")})
    elif kind == "body":
        env.update({"REQUEST_METHOD": "POST", "PATH_INFO": "/body", "CONTENT_LENGTH": "3",
                    "wsgi.input": stubs.SymStream(3, [], data=b"abc")})
    elif kind == "body2":       # stays in memory
        env.update({"REQUEST_METHOD": "POST", "PATH_INFO": "/body", "CONTENT_LENGTH": "2",
                    "wsgi.input": stubs.SymStream(2, [], data=b"de")})
    elif kind == "body6":       # spilled, longer than 'body'
        env.update({"REQUEST_METHOD": "POST", "PATH_INFO": "/body", "CONTENT_LENGTH": "6",
                    "wsgi.input": stubs.SymStream(6, [], data=b"uvwxyz")})
    elif kind == "chunkbody":   # spilled, chunked framing
        env.update({"REQUEST_METHOD": "POST", "PATH_INFO": "/body", "HTTP_TRANSFER_ENCODING": "chunked",
                    "wsgi.input": stubs.SymStream(19, [], data=b"5\r\n12345\r\n0\r\n\r\n")})
    else:
        raise ValueError(kind)
    return env


# requests whose handler reads the cookies (triple/ family, since seed C09-k); 'ck-bad' carries a cookie name http.cookies refuses
CK_KINDS = {"ck-alice": "session=alice", "ck-bob": "session=bob; theme=dark", "ck-bad": "session=mallory; a/b=1", "ck-none": None,
            "ck-quoted": 'session="a\\073b"; theme=x'}
KINDS = ["ok", "404", "405", "badpath", "crash", "raise", "badchunk", "oversize", "streamfail", "streamreset", "body", "body2", "body6", "chunkbody",
         "vh-blog", "vh-shop", "vh-none", "vh-direct", "logout", "admin-logout", "jp", "jp-broken", "u16", "u16-broken"]


def serve(app, env):
    got = []
    it = app(env, lambda s, h, e=None: got.append((s, sorted(h))))
    chunks = []
    try:
        for c in it:
            chunks.append(c)
    except IOError as e:          # the handler's stream broke off while the server iterated it: the server's business
        chunks.append(b"<stream broke off: %s>" % str(e).encode())
    body = b"".join(chunks)
    close = getattr(it, "close", None)
    if close:
        close()
    return got, body


def make_pair(k1, k2, json2):
    def q(qs: str, hv: str, si: int, ci: int, json1: bool):
        assume(len(qs) <= 1 and len(hv) <= 1)
        for ch in qs + hv:
            o = ord(ch)
            assume(32 < o < 127 and o != 37)
        assume(0 <= si < len(STATUS) and 0 <= ci < len(COOKIES))
        accept2 = "application/json" if json2 else None
        # reference: the later request on a fresh application
        fresh_state = {}
        ref = serve(build_app(fresh_state), env_of(k2, "z=9", accept2))
        state = {}
        app = build_app(state)
        state["write"] = (STATUS[si], hv, COOKIES[ci])
        first = serve(app, env_of(k1, qs, "application/json" if json1 else None))
        state.pop("write")
        second = serve(app, env_of(k2, "z=9", accept2))
        if second != ref:
            return "history [%s(q=%r, wrote %r), %s]: response %r, on a fresh application %r" % (
                k1, qs, (STATUS[si], hv, COOKIES[ci]), k2, second, ref)
        cover(first[0][0][0][:3])
        return None
    return q


def make_triple(k1, k2, k3):
    """histories of three requests: the first with symbolic data, the second and third concrete (often the same request
    twice): the third response equals the one of a fresh application"""
    def q(qs: str, hv: str, si: int, ci: int, json1: bool):
        assume(len(qs) <= 1 and len(hv) <= 1)
        for ch in qs + hv:
            o = ord(ch)
            assume(32 < o < 127 and o != 37)
        assume(0 <= si < len(STATUS) and 0 <= ci < len(COOKIES))
        ref = serve(build_app({}), env_of(k3, "z=9"))
        state = {}
        app = build_app(state)
        state["write"] = (STATUS[si], hv, COOKIES[ci])
        first = serve(app, env_of(k1, qs, "application/json" if json1 else None))
        state.pop("write")
        serve(app, env_of(k2, "y=8"))
        third = serve(app, env_of(k3, "z=9"))
        if third != ref:
            return "history [%s(q=%r, wrote %r), %s, %s]: third response %r, on a fresh application %r" % (
                k1, qs, (STATUS[si], hv, COOKIES[ci]), k2, k3, third, ref)
        cover(first[0][0][0][:3])
        return None
    return q


TRIPLES = [("ck-alice", "ck-bad", "ck-bad"), ("ck-alice", "ck-bob", "ck-alice"), ("ck-bad", "ck-alice", "ck-bad"),
           ("ck-bob", "ck-none", "ck-none"), ("ck-quoted", "ck-bad", "ck-quoted"), ("ok", "crash", "crash"), ("404", "404", "ok"),
           ("badpath", "ok", "badpath"), ("body", "streamfail", "body"), ("logout", "ck-alice", "logout"),
           ("ck-alice", "badpath", "ck-none"), ("raise", "raise", "ck-bob")]


# ---------------------------------------------------------------- retention (inductive form)
def tb_depth(e):
    n = 0
    tb = e.__traceback__
    while tb is not None:
        n += 1
        tb = tb.tb_next
    return n


def exc_sig(e, depth=0):
    if e is None or depth > 6:
        return None
    return (type(e).__name__, tb_depth(e), exc_sig(e.__context__, depth + 1), exc_sig(e.__cause__, depth + 1))


def graph_sig(app):
    """sizes of every persistent container reachable from the application, its configuration and module caches"""
    cfg = app.config
    errs = []
    for k in sorted(cfg.errors_map, key=lambda c: c.__name__):
        e = cfg.errors_map[k]
        errs.append((k.__name__, exc_sig(e), len(e._headers), e._cookies is not None, type(e.body).__name__,
                     e.exception is not None, e.traceback is not None))
    hooks = tuple(sorted((k, len(v)) for k, v in app._hooks.items()))
    return (
        tuple(errs), hooks, len(app.error_handlers), len(app.error_handlers["404-hooks"]), len(app._route_hooks),
        len(app.router.routes), len(app.router.hooks), len(app.router.named_routes),
        tuple(sorted((p, tuple(sorted(r.methods))) for p, r in app.router.routes.items())),
        len(error_render._html_lns), len(FilterFactory._filter_cache),
        tuple(sorted((k, len(v)) for k, v in app.request.__listeners__.items())),
        len(vars(app)), len(vars(cfg)),
    )


def make_retention(kind):
    def q(qs: str, hv: str, si: int, json1: bool):
        assume(len(qs) <= 1 and len(hv) <= 1)
        for ch in qs + hv:
            o = ord(ch)
            assume(32 < o < 127 and o != 37)
        assume(0 <= si < len(STATUS))
        state = {"write": (STATUS[si], hv, "v1")}
        app = build_app(state)
        acc = "application/json" if json1 else None
        serve(app, env_of(kind, qs, acc))        # warm-up: first use may populate caches
        serve(app, env_of(kind, qs, acc))
        before = graph_sig(app)
        serve(app, env_of(kind, qs, acc))
        after = graph_sig(app)
        if before != after:
            return "serving one more %r request changed the persistent object graph: %r -> %r" % (kind, before, after)
        cover("ok")
        return None
    return q


def queries(tier):
    T = tier == "thorough"
    out = []
    for k in KINDS:
        out.append(Q("retain/%s" % k, make_retention(k),
                     "request kind %r served 3 times on one application; query text and written header value: every printable "
                     "ASCII string of <= 1 character, status written from %r, Accept json or not" % (k, STATUS),
                     timeout=150 if not T else 400, per_path_timeout=40, expect_cover=["ok"], family="retention"))
    for k1, k2, k3 in (TRIPLES if T else TRIPLES[:8]):
        out.append(Q("triple/%s/%s/%s" % (k1, k2, k3), make_triple(k1, k2, k3),
                     "history [%s, %s, %s] on one application: first request with symbolic query text and written header value (<= 1 "
                     "printable ASCII character each), status written from %r, cookie from %r, Accept json or not; second and third "
                     "request concrete; the third response equals the one of a fresh application" % (k1, k2, k3, STATUS, COOKIES),
                     timeout=150 if not T else 400, per_path_timeout=40, family="triple"))
    firsts = KINDS
    seconds = ["ok", "404", "badpath", "crash", "body", "body2", "badchunk", "oversize", "streamfail", "vh-blog", "vh-none", "logout", "jp", "u16"] if not T else KINDS
    for k1 in firsts:
        for k2 in seconds:
            for j2 in ((False,) if not T else (False, True)):
                out.append(Q("pair/%s/%s%s" % (k1, k2, "/json" if j2 else ""), make_pair(k1, k2, j2),
                             "history [%s, %s%s] on one application: earlier request with symbolic query text and written header "
                             "value (<= 1 printable ASCII character each), status written from %r, cookie from %r, Accept json or "
                             "not; later request concrete" % (k1, k2, " (Accept: application/json)" if j2 else "", STATUS, COOKIES),
                             timeout=150 if not T else 400, per_path_timeout=40, family="pair"))
    # static files (since seed C09-i): every ordered pair of the file kinds (plain, conditional -> 304, ranged, HEAD, another
    # file as a download), and a file request before / after ordinary ones
    fpairs = [(a, b) for a in FILE_KINDS for b in FILE_KINDS] + [(a, "dok") for a in FILE_KINDS] + [("dok", a) for a in FILE_KINDS]
    for k1, k2 in fpairs:
        out.append(Q("filepair/%s/%s" % (k1, k2), make_file_pair(k1, k2),
                     "history [%s, %s] on the default application (static_file on real files with a fixed mtime, fixed clock; "
                     "reference = the later request before the history): earlier request with symbolic query text and written "
                     "header value (<= 1 printable ASCII character each), status written from %r, cookie from %r; later request "
                     "concrete" % (k1, k2, STATUS, COOKIES),
                     timeout=150 if not T else 400, per_path_timeout=40, family="filepair"))
    # the configuration dimension: the same effective settings reached through app.setup / two setup calls
    from vf import appconfigs
    out += appconfigs.variants(list(out), ["setup", "setup-twice"], lambda q: q.qid in ("pair/oversize/body", "pair/body6/body", "retain/body6", "pair/badchunk/ok", "pair/crash/ok", "pair/404/ok"))
    return out


def selftest(tier):
    # sanity witness (native, real objects): per-request input streams do not stay alive
    import gc
    import io
    import weakref
    app = build_app({})
    refs = []

    class In(io.BytesIO):
        pass
    for i in range(40):
        inp = In(b"zz\r\n")
        refs.append(weakref.ref(inp))
        env = env_of("badchunk")
        env["wsgi.input"] = inp
        serve(app, env)
        del inp, env
    gc.collect()
    alive = sum(1 for r in refs if r() is not None)
    assert alive <= 2, "%d of 40 request input streams are still alive after 40 malformed requests" % alive
    return [("pair/ok/ok", dict(qs="a", hv="b", si=1, ci=1, json1=False), "ok"),
            ("retain/ok", dict(qs="a", hv="b", si=1, json1=False), "ok")]
