"""C20 - framework error pages never reflect request data unescaped; JSON errors are valid JSON."""
from vf.engine import assume, cover
from vf.query import Q
from vf import stubs_c20

import ombott

PROPERTY = "C20"
TECHNIQUE = ("bounded symbolic execution of Ombott.__call__ -> _handle/_cast/default_error_handler/error_render.render/"
             "html_escape (CrossHair+z3) with symbolic path / query string / Host text per error kind; reference HTML "
             "reader (markup and character-reference counts against the same page for a neutral URL) and a reference "
             "RFC 8259 recogniser for JSON bodies")
LEVEL_TEXT = ("For every enumerated error kind (404, 405, 400 undecodable path, 500 from a failing handler / failing "
              "generator / a failure whose message is request text, last-resort critical-error page), position of the "
              "attacker text (path segment, query string, Host) and text template (plain, '&..;', '{..}') the real WSGI "
              "entry point is executed with the text as a solver variable (every printable-ASCII string up to the stated "
              "length). z3 decides every branch, so inside the bound: the response keeps the status of its kind, the page "
              "has exactly the raw < > \" ' and bare & of the same page for a neutral URL, shows no more escaped < > \" ' "
              "than the request contained (no request text is decoded as a character reference), str.format never fails "
              "or expands request text, bodies labelled JSON parse, and when Accept starts with application/json the body "
              "is JSON (HTML or JSON as a solver variable).")
LEVEL_NOTE = ("Trusted: z3, CrossHair models of str/bytes/list, vf/chmodels repr() model (exact on ASCII, validated at "
              "start-up), py_quote stub for urllib.parse.quote and PyJson.dumps stub for json.dumps (only where request "
              "text reaches the JSON body), both compared with the real functions at start-up; the reference HTML reader "
              "and JSON recogniser in this file (JSON recogniser compared with json.loads in the self-test). Kinds, "
              "positions and templates are enumerated, not symbolic. Text is printable ASCII.")
FUNCTIONS = [
    "ombott.error_render:render",
    "ombott.common_helpers:html_escape",
    "ombott.ombott:Ombott.default_error_handler",
    "ombott.ombott:Ombott.wsgi",
    "ombott.ombott:Ombott._handle",
    "ombott.ombott:Ombott._cast",
    "ombott.ombott:Ombott.handler",
    "ombott.request_pkg.props_mixin:PropsMixin.urlparts",
    "ombott.request_pkg.props_mixin:PropsMixin.fullpath",
    "ombott.request_pkg.props_mixin:PropsMixin.is_json_requested",
    "ombott.response:BaseResponse.headerlist",
]
STUBS = ["py_quote for urllib.parse.quote inside ombott.request_pkg.props_mixin (all queries)",
         "PyJson.dumps for json.dumps inside ombott.ombott (json-text/* queries only)",
         "vf.chmodels.repr_model for repr(str) (exact for code points < 128)"]
ASSUMPTIONS = ["request text is printable ASCII (32..126), non-empty, at most the stated length",
               "config.debug is off, no user error handlers, no 404 hooks, no domain_map, no SCRIPT_NAME",
               "JSON is 'requested' when the Accept header starts with application/json (alone or followed by ; or ,)",
               "a fresh Ombott() per request sequence; one text position is symbolic at a time, the others are fixed"]
OUTSIDE = ["text longer than the stated length, non-ASCII text (repr model is exact below 128 only)",
           "several positions symbolic at once", "debug mode", "user-registered error handlers and 404 hooks",
           "errors raised while reading the request body (C12/C13)", "UTF-8 validity inside JSON strings",
           "X-Forwarded-Host / X-Forwarded-Proto / SCRIPT_NAME as carriers of attacker text"]
BUDGET_S = {"quick": 270, "thorough": 1150}

stubs_c20.install_quote()
stubs_c20.validate()          # both stubs against urllib.parse.quote / json.dumps on concrete inputs

LT, GT, DQ, SQ, AMP = 60, 62, 34, 39, 38
STATUS = {"404": "404", "405": "405", "400": "400", "400after": "400", "500": "500", "500gen": "500", "500prepared": "500",
          "500text": "500", "critical": "500"}


# ---------------------------------------------------------------- applications and requests (configurations)
class Boom(Exception):
    """a handler failure whose message is request text (str/repr in Python so that the engine can follow the text)"""

    def __init__(self, text):
        super().__init__()
        self.text = text

    def __str__(self):
        return self.text

    def __repr__(self):
        return "Boom(" + repr(self.text) + ")"


class ErrLog:
    def __init__(self):
        self.parts = []

    def write(self, text):
        self.parts.append(text)


def build_app(kind):
    app = ombott.Ombott()

    def fine(x=None):
        return "fine"

    def crash(x=None):
        raise RuntimeError("handler failed")

    def crash_text(x=None):
        env = app.request.environ
        raise Boom(app.request.path + "?" + env["QUERY_STRING"] + " " + env["HTTP_HOST"])

    def crash_late(x=None):
        def gen():
            raise RuntimeError("generator failed")
            yield
        return gen()

    def crash_prepared(x=None):
        # the handler announces the payload it means to send (length, type) and fails before delivering it
        app.response.headers["Content-Length"] = "12"
        app.response.content_type = "application/x-payload"
        app.response.headers["X-Export"] = "1"
        raise RuntimeError("export failed")

    def corrupt(x=None):
        app.response._headers = None     # headerlist fails -> Ombott.wsgi falls back to the last-resort page
        return "x"

    if kind in ("404", "400", "400after"):
        app.route("/ok")(fine)
        return app
    handler, method = {"405": (fine, "PUT"), "500": (crash, "GET"), "500text": (crash_text, "GET"),
                       "500gen": (crash_late, "GET"), "critical": (corrupt, "GET"), "500prepared": (crash_prepared, "GET")}[kind]
    for rule in ("/", "/p/<x>"):
        app.route(rule, method=method)(handler)
    return app


# request paths that URL handling (urljoin / urlsplit behind request.url) treats in a way of its own: something that looks
# like a scheme and a bracketed authority (urlsplit raises ValueError), a network-path reference, a colon in the first
# segment, parameters, backslashes, a literal '?' or '#'
ODD_PATHS = [("ipv6", "/x://["), ("ipv6-closed", "/x://[y]/"), ("netloc", "//other/p"), ("colon", "/a:b"), ("semi", "/p;v=1"),
             ("backslash", "/\\h\\p"), ("scheme", "/http://h/p"), ("qmark", "/p?x"), ("hash", "/p#x")]


def environ_for(kind, pos, text, accept):
    lead = "/\xff" if kind == "400" else "/"          # '\xff' is no UTF-8: the path cannot be decoded
    odd = None
    if "@" in pos:                                    # 'qs@ipv6': the text in the query string, the path an odd one
        pos, tag = pos.split("@")
        odd = dict(ODD_PATHS)[tag]
    env = {
        "REQUEST_METHOD": "GET",
        "PATH_INFO": odd if odd is not None else (lead + "p/" + text) if pos == "path" else lead,
        "QUERY_STRING": text if pos == "qs" else "",
        "HTTP_HOST": text if pos == "host" else "h",
        "SERVER_NAME": "srv", "SERVER_PORT": "80", "wsgi.url_scheme": "http", "wsgi.errors": ErrLog(),
    }
    if accept is not None:
        env["HTTP_ACCEPT"] = accept
    return env


def serve(app, env):
    calls = []

    def start_response(status, headers, exc_info=None):
        calls.append((status, headers))
    body = b"".join(app(env, start_response))
    return calls, body


def respond(kind, pos, text, accept):
    """the error response of `kind` for a request carrying `text` at `pos` -> (start_response calls, body)"""
    app = build_app(kind)
    if kind == "400after":
        # the text arrives with an earlier (404) request, the undecodable path with the next one on the same app
        serve(app, environ_for("404", pos, text, None))
        return serve(app, environ_for("400", "none", "", accept))
    return serve(app, environ_for(kind, pos, text, accept))


def content_type(headers):
    for name, value in headers:
        if name.lower() == "content-type":
            return value.lower()
    return ""


# ---------------------------------------------------------------- reference reading of an HTML text
NAMED = ((b"amp;", AMP), (b"lt;", LT), (b"gt;", GT), (b"quot;", DQ), (b"apos;", SQ))


def char_reference(data, i, hi):
    """data[i] is '&': (code point, index after the reference) or (None, i + 1) when no character reference starts here"""
    for name, cp in NAMED:
        end = i + 1 + len(name)
        if end <= hi and data[i + 1:end] == name:
            return cp, end
    if i + 1 < hi and data[i + 1] == 35:          # '#': decimal or hexadecimal reference
        j = i + 2
        base = 10
        if j < hi and (data[j] == 120 or data[j] == 88):
            base = 16
            j += 1
        start = j
        v = 0
        while j < hi and j - start < 7:
            c = data[j]
            if 48 <= c <= 57:
                d = c - 48
            elif base == 16 and 97 <= c <= 102:
                d = c - 87
            elif base == 16 and 65 <= c <= 70:
                d = c - 55
            else:
                break
            v = v * base + d
            j += 1
        if j > start and j < hi and data[j] == 59:
            return v, j + 1
    return None, i + 1


def markup_profile(data, lo, hi):
    """[raw <, raw >, raw ", raw ', & starting no character reference], [references to <, >, ", '] in data[lo:hi]"""
    raw = [0, 0, 0, 0, 0]
    refs = [0, 0, 0, 0]
    i = lo
    while i < hi:
        c = data[i]
        i += 1
        if c < DQ or c > GT:
            continue
        if c == LT:
            raw[0] += 1
        elif c == GT:
            raw[1] += 1
        elif c == DQ:
            raw[2] += 1
        elif c == SQ:
            raw[3] += 1
        elif c == AMP:
            cp, i = char_reference(data, i - 1, hi)
            if cp is None:
                raw[4] += 1
            elif cp == LT:
                refs[0] += 1
            elif cp == GT:
                refs[1] += 1
            elif cp == DQ:
                refs[2] += 1
            elif cp == SQ:
                refs[3] += 1
    return raw, refs


def specials_in(text):
    """[<, >, ", '] counts of a request text"""
    n = [0, 0, 0, 0]
    for ch in text:
        c = ord(ch)
        if c == LT:
            n[0] += 1
        elif c == GT:
            n[1] += 1
        elif c == DQ:
            n[2] += 1
        elif c == SQ:
            n[3] += 1
    return n


class NeutralPage:
    """the same response for two neutral texts: common prefix / suffix and the markup it contains"""

    def __init__(self, kind, pos, accept=None):
        pages = []
        for neutral in ("zqzq", "wkwkwk"):
            calls, body = respond(kind, pos, neutral, accept)
            if "@" in pos:          # odd paths: whatever error the neutral request gets is the reference
                assert len(calls) == 1 and calls[0][0][:1] in "45", (kind, pos, calls)
                self.status = calls[0][0][:3]
            else:
                assert len(calls) == 1 and calls[0][0][:3] == STATUS[kind], (kind, pos, calls)
            pages.append(body)
        a, b = pages
        self.shown = max(1, a.count(b"zqzq"))      # how often the page shows the text
        k = 0
        while k < min(len(a), len(b)) and a[k] == b[k]:
            k += 1
        self.prefix = a[:k]
        ra, rb = a[k:], b[k:]
        k = 0
        while k < min(len(ra), len(rb)) and ra[len(ra) - 1 - k] == rb[len(rb) - 1 - k]:
            k += 1
        self.suffix = ra[len(ra) - k:]
        self.whole = markup_profile(a, 0, len(a))
        assert self.whole == markup_profile(b, 0, len(b)), (kind, pos, a, b)
        self.in_prefix = markup_profile(self.prefix, 0, len(self.prefix))
        self.in_suffix = markup_profile(self.suffix, 0, len(self.suffix))


def html_failure(neutral, body, text):
    """None if `body` has the markup of the neutral page and nothing else that a browser would read as markup"""
    lo, hi = 0, len(body)
    raw = [0, 0, 0, 0, 0]
    refs = [0, 0, 0, 0]
    if body.startswith(neutral.prefix):
        lo = len(neutral.prefix)
        raw, refs = list(neutral.in_prefix[0]), list(neutral.in_prefix[1])
    if hi - lo >= len(neutral.suffix) and body.endswith(neutral.suffix):
        hi -= len(neutral.suffix)
        raw = [x + y for x, y in zip(raw, neutral.in_suffix[0])]
        refs = [x + y for x, y in zip(refs, neutral.in_suffix[1])]
    r2, f2 = markup_profile(body, lo, hi)
    raw = [x + y for x, y in zip(raw, r2)]
    refs = [x + y for x, y in zip(refs, f2)]
    if raw != neutral.whole[0]:
        return "page has raw [<, >, \", ', bare &] = %r, the page for a neutral URL has %r: %r" % (raw, neutral.whole[0], body)
    given = specials_in(text)
    for k in range(4):
        if refs[k] > neutral.whole[1][k] + given[k] * neutral.shown:
            return ("page shows %r escaped %s, the request text contains %r and is shown %d times (request text decoded "
                    "as a character reference): %r" % (refs[k], "<>\"'"[k], given[k], neutral.shown, body))
    return None


# ---------------------------------------------------------------- reference JSON recogniser (RFC 8259, over bytes)
def _ws(d, i):
    while i < len(d) and (d[i] == 32 or d[i] == 10 or d[i] == 13 or d[i] == 9):
        i += 1
    return i


def _digits(d, i):
    j = i
    while j < len(d) and 48 <= d[j] <= 57:
        j += 1
    return j


def _string(d, i):
    """d[i] is '"': index after the closing quote or -1"""
    i += 1
    while i < len(d):
        c = d[i]
        if c == 34:
            return i + 1
        if c < 32:
            return -1
        if c == 92:
            if i + 1 >= len(d):
                return -1
            e = d[i + 1]
            if e == 117:                                   # \uXXXX
                if i + 6 > len(d):
                    return -1
                for h in d[i + 2:i + 6]:
                    if not (48 <= h <= 57 or 97 <= h <= 102 or 65 <= h <= 70):
                        return -1
                i += 6
                continue
            if not (e == 34 or e == 92 or e == 47 or e == 98 or e == 102 or e == 110 or e == 114 or e == 116):
                return -1
            i += 2
            continue
        i += 1
    return -1


def _value(d, i, depth):
    """index after the JSON value starting at d[i] or -1"""
    if i >= len(d) or depth > 16:
        return -1
    c = d[i]
    if c == 34:
        return _string(d, i)
    if c == 123 or c == 91:                                # object / array
        close = 125 if c == 123 else 93
        i = _ws(d, i + 1)
        if i < len(d) and d[i] == close:
            return i + 1
        while True:
            if c == 123:
                if i >= len(d) or d[i] != 34:
                    return -1
                i = _string(d, i)
                if i < 0:
                    return -1
                i = _ws(d, i)
                if i >= len(d) or d[i] != 58:
                    return -1
                i = _ws(d, i + 1)
            i = _value(d, i, depth + 1)
            if i < 0:
                return -1
            i = _ws(d, i)
            if i >= len(d):
                return -1
            if d[i] == close:
                return i + 1
            if d[i] != 44:
                return -1
            i = _ws(d, i + 1)
    for word in (b"true", b"false", b"null"):
        if d[i:i + len(word)] == word:
            return i + len(word)
    if c == 45:
        i += 1
    j = _digits(d, i)
    if j == i or (d[i] == 48 and j > i + 1):
        return -1
    i = j
    if i < len(d) and d[i] == 46:
        j = _digits(d, i + 1)
        if j == i + 1:
            return -1
        i = j
    if i < len(d) and (d[i] == 101 or d[i] == 69):
        i += 1
        if i < len(d) and (d[i] == 43 or d[i] == 45):
            i += 1
        j = _digits(d, i)
        if j == i:
            return -1
        i = j
    return i


def is_json(data):
    i = _value(data, _ws(data, 0), 0)
    return i >= 0 and _ws(data, i) == len(data)


# ---------------------------------------------------------------- the oracle
def response_failure(kind, neutral, calls, body, text, json_requested):
    if len(calls) != 1:
        return "start_response called %d times" % len(calls)
    status, headers = calls[0]
    if status[:3] != (getattr(neutral, "status", None) or STATUS[kind]):
        return "error kind %s answered with status %r: %r" % (kind, status, body)
    ctype = content_type(headers)
    declared = [v for k, v in headers if k.lower() == "content-length"]
    if len(declared) > 1 or (declared and declared[0] != str(len(body))):
        # a client reads the declared number of bytes: what it gets is not the page / document the framework rendered
        return "error response of %d bytes declared with Content-Length %r: the client receives %r" % (
            len(body), declared, body[:int(declared[0])] if declared[0].isdigit() else body)
    if json_requested or "json" in ctype:
        if not is_json(body):
            return "JSON %s (Content-Type %r) but the body is not valid JSON: %r" % (
                "requested" if json_requested else "announced", ctype, body)
        cover("json-body")
    if ctype.startswith("text/html") or ctype == "":
        why = html_failure(neutral, body, text)
        if why:
            return why
        cover("html-page")
    return None


def printable(s, lo, hi):
    assume(lo <= len(s) <= hi)
    for ch in s:
        assume(32 <= ord(ch) <= 126)


TEMPLATES = {"plain": ("", ""), "entity": ("&", ";"), "field": ("{", "}"),
             "pct": ("%3", "b%3E"),          # percent-escape of markup: "%3" + "C" + "b%3E" is <b> once percent-decoded
             "pct2": ("%", "Cimg%20src=x%3E"),
             # size: many markup characters / a long run of plain text before the symbolic text (a symbolic character
             # BEFORE a long concrete run shifts every later position: > 1400 paths, not exhausted in 300 s)
             "many": ("<&>\"'" * 13, ""),
             "long": ("x" * 300 + "<i>", "")}
JSON = "application/json"


def one_segment(pos, s):
    if pos == "path":
        for ch in s:
            assume(ch != "/")            # one path segment: the text must not change which route matches


def make_html(kind, pos, template, n, accept=None):
    """the response of `kind` for every text head + s + tail at `pos`; with accept=JSON only safety is demanded
    (whatever comes back is an escaped page or valid JSON), the JSON demand itself is the accept/* family"""
    neutral = NeutralPage(kind, pos, accept)
    head, tail = TEMPLATES[template]

    def q(s: str):
        printable(s, 0 if head else 1, n)
        one_segment(pos, s)
        text = head + s + tail
        calls, body = respond(kind, pos, text, accept)
        return response_failure(kind, neutral, calls, body, text, False)
    return q


def make_oddpath(kind, pos, n):
    """text in the query string / Host of a request whose path is one of ODD_PATHS (solver index)"""
    neutrals = [NeutralPage(kind, pos + "@" + tag) for tag, _ in ODD_PATHS]

    def q(oi: int, s: str):
        assume(0 <= oi < len(ODD_PATHS))
        printable(s, 1, n)
        calls, body = respond(kind, pos + "@" + ODD_PATHS[oi][0], s, None)
        return response_failure(kind, neutrals[oi], calls, body, s, False)
    return q


def make_accept(kind, accept_tail, n):
    """HTML or JSON as a solver variable: no Accept header / Accept: application/json<tail>; text in the query string"""
    neutral = {False: NeutralPage(kind, "qs"), True: NeutralPage(kind, "qs", JSON + accept_tail)}

    def q(s: str, want_json: bool):
        printable(s, 1, n)
        accept = JSON + accept_tail if want_json else None
        calls, body = respond(kind, "qs", s, accept)
        return response_failure(kind, neutral[bool(want_json)], calls, body, s, want_json)
    return q


def make_accept_after(kind, n):
    """the same application first answers the OTHER kind of client (JSON vs HTML) for the same failing URL, then the
    client that is judged: the representation must follow the Accept header of each request"""
    neutral = {False: NeutralPage(kind, "qs"), True: NeutralPage(kind, "qs", JSON)}

    def q(s: str, want_json: bool):
        printable(s, 1, n)
        app = build_app(kind)
        serve(app, environ_for(kind, "qs", s, None if want_json else JSON))
        calls, body = serve(app, environ_for(kind, "qs", s, JSON if want_json else None))
        return response_failure(kind, neutral[bool(want_json)], calls, body, s, want_json)
    return q


def make_json_text(pos, n):
    """a JSON error body that carries request text (message of the handler's exception, traceback)"""
    neutral = NeutralPage("500text", pos, JSON)

    def q(s: str):
        printable(s, 1, n)
        one_segment(pos, s)
        stubs_c20.install_json()
        try:
            calls, body = respond("500text", pos, s, JSON)
        finally:
            stubs_c20.uninstall_json()
        return response_failure("500text", neutral, calls, body, s, True)
    return q


def html_plan(tier):
    """(kind, position, template, n, timeout): which pages reflect which text decides where the length goes"""
    if tier == "quick":
        return [     # most expensive first
            ("404", "qs", "entity", 2, 250), ("404", "host", "plain", 2, 200), ("404", "qs", "field", 2, 200),
            ("404", "qs", "pct", 1, 150), ("404", "host", "pct", 1, 150), ("500", "qs", "pct", 1, 150), ("404", "qs", "pct2", 1, 150),
            ("404", "qs", "plain", 2, 150), ("405", "qs", "plain", 2, 150), ("500text", "path", "plain", 1, 100),
            ("404", "path", "plain", 1, 100), ("critical", "path", "entity", 2, 150), ("critical", "path", "plain", 2, 100),
            ("500", "qs", "plain", 1, 60), ("500", "host", "plain", 1, 60), ("405", "host", "plain", 1, 60),
            ("500gen", "qs", "plain", 1, 60), ("500text", "qs", "plain", 1, 60), ("500text", "host", "plain", 1, 60),
            ("500prepared", "qs", "plain", 1, 60),
            ("400", "qs", "plain", 1, 60), ("400", "path", "plain", 1, 60), ("400", "host", "plain", 1, 60),
            ("400after", "qs", "plain", 1, 60), ("400after", "host", "plain", 1, 60),
            ("critical", "qs", "plain", 1, 60), ("critical", "host", "plain", 1, 60),
            ("critical", "path", "many", 1, 200), ("404", "qs", "many", 1, 300), ("404", "host", "long", 1, 300),
            ("critical", "path", "long", 1, 200),
        ]
    plan = [("404", "qs", "plain", 3, 900)]
    for kind in ("404", "405", "500"):
        plan += [(kind, "qs", "entity", 2, 300), (kind, "host", "plain", 2, 250), (kind, "qs", "field", 2, 250),
                 (kind, "path", "plain", 1, 100)]
    plan += [
        ("405", "qs", "plain", 2, 150), ("500", "qs", "plain", 2, 150),
        ("404", "host", "entity", 2, 400), ("404", "host", "field", 2, 400),
        ("500text", "qs", "entity", 2, 500), ("500text", "qs", "plain", 2, 300), ("500text", "host", "plain", 2, 300),
        ("500text", "path", "plain", 1, 100),
        ("500gen", "qs", "plain", 2, 150), ("500gen", "host", "plain", 1, 60), ("500gen", "path", "plain", 1, 100),
        ("critical", "path", "plain", 3, 500), ("critical", "path", "entity", 2, 150), ("critical", "path", "field", 2, 150),
        ("critical", "qs", "plain", 2, 100), ("critical", "host", "plain", 2, 100),
        ("400after", "qs", "entity", 2, 400), ("400after", "host", "plain", 2, 300), ("400after", "qs", "plain", 2, 200),
        ("400after", "path", "plain", 1, 100),
        ("400", "qs", "plain", 2, 100), ("400", "path", "plain", 2, 400), ("400", "host", "plain", 2, 100),
    ]
    for kind, pos in (("critical", "path"), ("404", "qs"), ("404", "host"), ("405", "qs"), ("500", "qs"), ("500text", "qs"),
                      ("400", "qs"), ("400after", "qs"), ("500gen", "qs")):
        plan += [(kind, pos, "many", 1, 600), (kind, pos, "long", 1, 600)]
    return plan


def queries(tier):
    T = tier == "thorough"
    out = []

    def where(pos, template, n):
        head, tail = TEMPLATES[template]
        return "text at %s = %r + s + %r, s every printable-ASCII string of length %d..%d%s" % (
            pos, head, tail, 0 if head else 1, n, " without '/'" if pos == "path" else "")

    for kind, pos, template, n, timeout in html_plan(tier):
        out.append(Q("html/%s/%s/%s" % (kind, pos, template), make_html(kind, pos, template, n),
                     "%s response, no Accept header; %s" % (kind, where(pos, template, n)),
                     timeout=timeout, expect_cover=["html-page"], family="html",
                     config={"kind": kind, "pos": pos, "template": template, "n": n}))
    for pos in (["qs"] if not T else ["qs", "host"]):
        n = 1 if not T else 2
        out.append(Q("oddpath/404/%s" % pos, make_oddpath("404", pos, n),
                     "request whose path is one of %r (solver index) and that carries the text s at %s, s every printable-ASCII "
                     "string of length 1..%d; the reference is the answer to the same path with a neutral text"
                     % ([p_ for _, p_ in ODD_PATHS], pos, n),
                     timeout=200 if not T else 600, expect_cover=["html-page"], family="oddpath", config={"pos": pos, "n": n}))
    # HTML or JSON (solver variable) for every kind; the Accept spellings are enumerated
    tails = [("bare", "")] + ([("param", "; charset=utf-8"), ("list", ", text/html;q=0.9")] if T else [])
    for kind in ("404", "405", "500", "500gen", "500prepared", "400", "critical"):
        for tag, accept_tail in tails if kind == "404" else tails[:1]:
            n = 2 if T else 1
            out.append(Q("accept/%s/%s" % (kind, tag), make_accept(kind, accept_tail, n),
                         "%s response; want_json (bool): no Accept header / Accept: %s%s; %s"
                         % (kind, JSON, accept_tail, where("qs", "plain", n)),
                         timeout=150 if T else 60, expect_cover=["html-page"], family="accept",
                         config={"kind": kind, "accept_tail": accept_tail, "n": n}))
    # the same application answers the other kind of client for the same URL first
    for kind in (("404", "405") if not T else ("404", "405", "500", "400")):
        n = 1
        out.append(Q("accept-after/%s" % kind, make_accept_after(kind, n),
                     "%s response to the judged client after the same application answered the other kind of client (JSON vs "
                     "HTML) for the same URL; want_json (bool); %s" % (kind, where("qs", "plain", n)),
                     timeout=150, expect_cover=["html-page"], family="accept-after", config={"kind": kind, "n": n}))
    # Accept: application/json on the kinds whose page does not depend on it: whatever comes back must be safe
    for kind, pos in (("400", "qs"), ("400after", "qs"), ("critical", "path")):
        n = 2 if T or kind == "critical" else 1
        out.append(Q("safe/%s/%s" % (kind, pos), make_html(kind, pos, "plain", n, JSON),
                     "%s response, Accept: %s (only demand: an escaped page or valid JSON); %s"
                     % (kind, JSON, where(pos, "plain", n)),
                     timeout=150, family="safe", config={"kind": kind, "pos": pos, "n": n}))
    for pos, n, timeout in ([("qs", 1, 100), ("path", 1, 60)] if not T else
                            [("qs", 2, 600), ("path", 2, 300), ("host", 1, 100)]):
        out.append(Q("json-text/500text/%s" % pos, make_json_text(pos, n),
                     "500 from a handler whose exception message is the request text, Accept: %s, json.dumps replaced by "
                     "PyJson.dumps; %s" % (JSON, where(pos, "plain", n)),
                     timeout=timeout, expect_cover=["json-body"], family="json-text", config={"pos": pos, "n": n}))
    # the configuration dimension: the same settings (debug off) reached through app.setup / a second setup call
    from vf import appconfigs
    cheap = {"html/500text/qs/plain", "html/500/qs/plain", "html/404/path/plain", "html/critical/qs/plain", "html/400/qs/plain"}
    out += appconfigs.variants(list(out), ["setup-twice", "setup"] if not T else sorted(appconfigs.ROUTES_TO_CONFIG),
                               lambda q: q.qid in cheap)
    return out


def selftest(tier):
    import json
    # the JSON recogniser against json.loads (RFC 8259 documents only: no NaN / Infinity)
    good = ['{}', '[]', ' {"a": "b"} ', '{"body": "Not Found", "exception": "None", "traceback": null}', '"x"', '0', '-1.5e+3',
            '[1, [2, {"k": [true, false, null]}]]', '{"a": "\\u00e9\\n\\"\\\\\\/"}', '"<b>\'{0}"', '1E9', '{"a":{"b":{}}}']
    bad = ['', '{', '{"a"}', '{"a": }', "{'a': 1}", '{"a": "x\ny"}', '{"a": "\\x"}', '{"a": "\\u12"}', '[1,]', '{"a": 1,}',
           '01', '1.', '.5', '-', '+1', 'nul', '{"a": "b"} x', '"abc', '{"a": "b" "c": 1}', '[1 2]', '<h1>x</h1>', '{"a": \'b\'}']
    for text, want in [(t, True) for t in good] + [(t, False) for t in bad]:
        try:
            json.loads(text)
            ref = True
        except Exception:
            ref = False
        assert ref == want == is_json(text.encode()), ("is_json", text, ref, is_json(text.encode()))
    for obj in ({"body": "<b>'\"\\\n\x00\x7f{0}&amp;", "exception": repr(Boom("\"'")), "traceback": None}, {"a": "é€"}):
        assert is_json(json.dumps(obj).encode()) and is_json(stubs_c20.PyJson.dumps(obj).encode()), obj
    # the HTML reader
    sample = b"<a href=\"x\">'&amp;&lt;&#60;&#x3C;&gt;&quot;&#039;&#x27;&apos; & &nbsp; &#; &lt"
    assert markup_profile(sample, 0, len(sample)) == ([1, 1, 2, 1, 4], [3, 1, 1, 3])
    assert char_reference(b"&#x27;", 0, 6) == (39, 6) and char_reference(b"&#x27;", 0, 5) == (None, 1)
    cases = []
    qids = {q.qid for q in queries(tier)}
    for s in ("<", "&", "{", "'\"", "lt"):
        short = "ok" if len(s) == 1 or tier == "thorough" else "rejected"
        cases += [("html/404/qs/plain", {"s": s}, "ok"), ("html/404/qs/entity", {"s": s}, "ok"),
                  ("html/critical/path/plain", {"s": s}, "ok"), ("accept/404/bare", {"s": s, "want_json": True}, short),
                  ("json-text/500text/qs", {"s": s}, short)]
    cases += [("html/404/qs/plain", {"s": "<script>"}, "rejected"), ("html/404/qs/plain", {"s": "\xe9"}, "rejected"),
              ("html/404/path/plain", {"s": "/"}, "rejected"), ("html/404/qs/plain", {"s": ""}, "rejected")]
    return [c for c in cases if c[0] in qids]
