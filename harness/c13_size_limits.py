"""C13 - body size limits and disk spooling bound what a request can consume.

Reference semantics decided here (nothing else is demanded):
  n = size of the body = min(bytes available, Content-Length) resp. sum of the chunk sizes;
  m = max_body_size (None = unlimited); t = max_memfile_size (also the read buffer).
  R1  n > m  => the request is answered 413 (HTTPError 413 out of Request.body),
               and no read asks for a payload byte beyond offset m + t of the body
               (chunk framing bytes - size lines, CRLFs - are not payload and not counted);
  R2  n <= m (or m is None) => Request.body is delivered, it holds exactly the n bytes in order;
  R3  delivered and n > t => the buffer was made by the temporary-file constructor (nothing is demanded for n <= t);
  R4  urlencoded/JSON text: n > t => refused (413) and never more than t + 1 bytes are read back into memory;
      n <= t => the text is returned.  Under Content-Length framing the declared length counts (complete bodies only);
  R5  multipart: text values totalling more than t => BodySizeError no later than the field that crosses t, text
      loaded by then <= t; part headers + text values totalling <= t => every field delivered; in between either
      (the budget also counts part headers).  File parts: any size, never read during parsing.
      End to end "refused" = status >= 400 and the handler never sees the value (ombott answers 500 there: the
      BodySizeError of FieldStorage is not routed through errors_map - reported, not demanded by C13).
History: before /repo commits 99072fd and af58876 a read boundary inside the last three bytes of the closing multipart
delimiter made a well-formed body within every limit fail with 500 (found here as max_memfile_size=60 on a 61 byte body).
"""
from vf.engine import assume, cover
from vf.query import Q
from vf import stubs, stubs_c13
from vf import instrument, stmtsched

instrument.install("ombott")     # scheduling points in front of every ombott statement (used by the stmt/ family only)

import ombott
from ombott.ombott import DefaultConfig
from ombott.response import HTTPError
from ombott.request_pkg.request import Request
from ombott.request_pkg.errors import BodySizeError
from ombott.request_pkg.multipart import FieldStorage, MultipartMarkup

PROPERTY = "C13"
TECHNIQUE = ("bounded symbolic execution of _body_read/_iter_body/_iter_chunked/_get_body_string/FieldStorage.iter_items "
             "and Ombott.__call__ (CrossHair+z3): sizes, limits, buffer, chunk-size digits and short-read lengths are solver "
             "variables; independent reference rules R1-R5 for 413, read budget, spool switch, form-text refusal")
LEVEL_TEXT = ("Every execution path of the real body reader is explored for all body sizes, Content-Length values, "
              "max_body_size and max_memfile_size up to 2^20 and all lengths of the first 1-3 short reads, under "
              "Content-Length and chunked framing (1-3 chunks whose size-line digits are solver variables); z3 shows every "
              "branch not taken infeasible. Within the bound: a body above max_body_size gives 413 before any read reaches "
              "past limit+buffer, a body within it is delivered intact, above max_memfile_size it sits in the temporary-file "
              "object, urlencoded/JSON text above the threshold is refused with at most threshold+1 bytes loaded, and the "
              "multipart field budget refuses text beyond the threshold while file parts of any size pass unread. End-to-end "
              "queries through Ombott.__call__ on real bytes confirm status codes and delivered values around small limits. "
              "Bounded, not a proof: loop trips, number of chunks/short reads and part layouts are capped/enumerated.")
LEVEL_NOTE = ("Trusted: z3, CrossHair's int/bytes/list models, vf/chmodels int(text,16), the stubs SymStream, "
              "ChunkedSymStream, SizedPart, SizeIO (for BytesIO/TemporaryFile), SegSource (each compared with the real "
              "object on concrete inputs at every run), the reference rules in the harness docstring. CONTENT_LENGTH is "
              "passed as an int in the integer queries (decimal parsing is exercised end-to-end with concrete strings). "
              "Tolerances: chunk framing bytes are not counted against the limit; spooling at or below the threshold is not "
              "judged; a declared Content-Length above the threshold may refuse form text whatever arrived; multipart "
              "refusal end-to-end may be any status >= 400 (ombott gives 500).")
FUNCTIONS = [
    "ombott.request_pkg.body_mixin:_body_read",
    "ombott.request_pkg.body_mixin:_iter_body",
    "ombott.request_pkg.body_mixin:_iter_chunked",
    "ombott.request_pkg.body_mixin:BodyMixin._body",
    "ombott.request_pkg.body_mixin:BodyMixin._get_body_string",
    "ombott.request_pkg.body_mixin:BodyMixin.POST",
    "ombott.request_pkg.multipart:FieldStorage.read",
    "ombott.request_pkg.multipart:FieldStorage.iter_items",
    "ombott.request_pkg.request:BaseRequest._raise",
    "ombott.ombott:Ombott._handle",
    "ombott.ombott:Ombott.wsgi",
]
STUBS = [
    "SymStream: wsgi.input.read(n) returns 1..n of the remaining bytes (first k reads capped by symbolic fragment lengths), "
    "b'' at EOF; records asked/given",
    "ChunkedSymStream: chunked wsgi.input, framing = real bytes built from symbolic hex digits, chunk data = opaque "
    "SizedPart; reads never cross a framing/data boundary; records payload offset, asked, given per read",
    "SizedPart: opaque slice (offset,len); only len()/truthiness observable",
    "SizeIO: pure-Python io.BytesIO / tempfile.TemporaryFile inside body_mixin with a `spooled` flag, readable back with "
    "opaque content, records bytes loaded by read()",
    "SegSource: seekable multipart body file with literal boundaries/headers and opaque data sections, records reads",
]
ASSUMPTIONS = [
    "payload bytes are opaque to the size/spool logic (integer queries run it on objects that only have a length)",
    "tempfile.TemporaryFile keeps its content on disk, io.BytesIO in memory (the check observes which constructor was used)",
    "the HTTP server hands the raw (still chunked) stream to wsgi.input when Transfer-Encoding: chunked is present",
    "limits are non-negative integers; max_memfile_size >= 1 (>= length of a chunk-size line under chunked framing)",
]
OUTSIDE = [
    "sizes/limits above 2**20; more loop trips than stated per query (limit <= trips*buffer)",
    "more short reads than the stated number of symbolic fragments",
    "chunk-size lines other than fixed-width lower-case hex without extensions (C05 covers the line grammar)",
    "multipart layouts other than the enumerated ones (<= 3 parts); header sections of other lengths",
    "real io.BytesIO / tempfile / OS behaviour (stubbed); memory used by the Python objects themselves",
]
BUDGET_S = {"quick": 230, "thorough": 1150}
# part of the check again with ombott compiled as `python -O` runs it (assert statements removed): a size limit must not
# be an assertion
ALSO_BUILDS = {"O": "cl/int/limited/*|chunked/int/limited/*"}

stubs_c13.install_size_io()
M = 2 ** 20
ERRORS_MAP = DefaultConfig.errors_map     # the application's own mapping, read from the source under test


# ---------------------------------------------------------------- shared judging
def fetch_body(rq):
    """('ok', buffer) | (status code of the HTTPError raised, None) | ('other', exception)"""
    try:
        return "ok", rq.body
    except Exception as e:
        if isinstance(e, HTTPError):
            return e.status_code, None
        return "other", e


def judge_size(res, body, n, m, t):
    """R1 (status part), R2, R3 on opaque parts."""
    if m is not None and n > m:
        cover("too-large")
        if res != 413:
            return "body of %r bytes over max_body_size %r: %r instead of 413" % (n, m, res)
        return None
    cover("within")
    if res != "ok":
        return "body of %r bytes within max_body_size %r refused: %r %r" % (n, m, res, body)
    parts = body.getvalue()
    if not isinstance(parts, list):
        parts = []
    off = 0
    for p in parts:
        if p.start != off:
            return "content differs: part at %r, expected offset %r" % (p.start, off)
        off = off + p.n
    if off != n:
        return "buffer holds %r bytes, body has %r" % (off, n)
    if n > t:
        cover("spooled")
        if not body.spooled:
            return "body of %r bytes above max_memfile_size %r kept in memory" % (n, t)
    else:
        cover("small")
    return None


def request_for(stream, m, t, **env):
    env.update({"wsgi.input": stream, "REQUEST_METHOD": "POST"})
    return Request(env, config={"errors_map": ERRORS_MAP, "max_body_size": m, "max_memfile_size": t})


def assume_frags(fs, used, fmax):
    """the first `used` short-read lengths are free in 1..fmax, the unused parameters are pinned"""
    for i, f in enumerate(fs):
        assume(1 <= f <= fmax if i < used else f == 1)


# ---------------------------------------------------------------- Content-Length framing, integers
def make_cl(nfrag, trips, limited):
    def q(a: int, c: int, m: int, t: int, f1: int, f2: int, f3: int):
        frags = [f1, f2, f3][:nfrag]
        assume(0 <= a <= M and 0 <= c <= M and 1 <= t <= M)
        assume_frags([f1, f2, f3], nfrag, M)
        if limited:
            assume(0 <= m <= M and m <= trips * t)
        else:
            assume(m == 0 and c <= trips * t)
        lim = m if limited else None
        s = stubs.SymStream(a, frags)
        res, body = fetch_body(request_for(s, lim, t, CONTENT_LENGTH=c))
        n = min(a, c)
        if lim is not None and n > lim:
            pos = 0
            for asked, given in zip(s.asked, s.given):
                if pos + asked > lim + t:
                    return "read(%r) at offset %r reaches past max_body_size %r + buffer %r" % (asked, pos, lim, t)
                pos += given
            if len(s.asked) > nfrag + 1:
                cover("beyond-fragments")
        return judge_size(res, body, n, lim, t)
    return q


# ---------------------------------------------------------------- chunked framing, integers
def chunked_segments(digits, nch, width):
    """segments for ChunkedSymStream + list of chunk sizes; size lines are `width` lower-case hex digits"""
    segs, sizes, lead = [], [], b""
    for ci in range(nch):
        k = 0
        line = b""
        for d in digits[ci * width:(ci + 1) * width]:
            line += bytes([48 + d if d < 10 else 87 + d])
            k = k * 16 + d
        segs += [lead + line + b"\r\n", k]
        sizes.append(k)
        lead = b"\r\n"
    segs.append(lead + b"0\r\n\r\n")
    return segs, sizes


def assume_digits(ds, used, dmax):
    for i, d in enumerate(ds):
        assume(0 <= d <= dmax if i < used else d == 0)


def make_chunked(nch, width, dmax, nfrag, trips, limited):
    def q(d0: int, d1: int, d2: int, d3: int, d4: int, d5: int, d6: int, d7: int, d8: int, d9: int,
          d10: int, d11: int, d12: int, d13: int, d14: int, m: int, t: int, f1: int, f2: int):
        ds = [d0, d1, d2, d3, d4, d5, d6, d7, d8, d9, d10, d11, d12, d13, d14]
        assume_digits(ds, nch * width, dmax)
        frags = [f1, f2][:nfrag]
        assume_frags([f1, f2], nfrag, M)
        assume(width + 2 <= t <= M)
        segs, sizes = chunked_segments(ds, nch, width)
        n = 0
        for k in sizes:
            assume(k >= 1)
            n = n + k
        if limited:
            assume(0 <= m <= M and m <= trips * t)
        else:
            assume(m == 0 and n <= trips * t)
        lim = m if limited else None
        s = stubs_c13.ChunkedSymStream(segs, frags)
        res, body = fetch_body(request_for(s, lim, t, HTTP_TRANSFER_ENCODING="chunked"))
        if lim is not None and n > lim:
            for kind, at, asked, given in s.log:
                if kind == "data" and at + asked > lim + t:
                    return "read(%r) at payload offset %r reaches past max_body_size %r + buffer %r" % (asked, at, lim, t)
            if s.i >= 2:
                cover("rejected-in-later-chunk")
        return judge_size(res, body, n, lim, t)
    return q


# ---------------------------------------------------------------- urlencoded / JSON text: _get_body_string, integers
def judge_text(rq, n, t):
    try:
        data = rq._get_body_string()
        res = "ok"
    except Exception as e:
        if not isinstance(e, HTTPError):
            return "unexpected %r" % (e,)
        data, res = None, e.status_code
    buf = rq.environ.get("ombott.request.body")
    loaded = sum(buf.loaded) if buf is not None else 0
    if loaded > t + 1:
        return "%r bytes of form text read into memory, threshold %r" % (loaded, t)
    if n > t:
        cover("refused")
        if res != 413:
            return "form text of %r bytes above max_memfile_size %r: %r instead of 413" % (n, t, res)
        return None
    cover("loaded")
    if res != "ok":
        return "form text of %r bytes within max_memfile_size %r refused: %r" % (n, t, res)
    if len(data) != n or (n and data.start != 0):
        return "form text has %r bytes, body has %r" % (len(data), n)
    return None


def make_text_cl(nfrag, trips):
    def q(a: int, c: int, t: int, f1: int, f2: int):
        frags = [f1, f2][:nfrag]
        assume(0 <= c <= a <= M and 1 <= t <= M and c <= trips * t)
        assume_frags([f1, f2], nfrag, M)
        s = stubs.SymStream(a, frags)
        return judge_text(request_for(s, None, t, CONTENT_LENGTH=c), c, t)
    return q


def make_text_chunked(nch, width, dmax, trips):
    def q(d0: int, d1: int, d2: int, d3: int, d4: int, d5: int, d6: int, d7: int, d8: int, d9: int, t: int, f1: int):
        ds = [d0, d1, d2, d3, d4, d5, d6, d7, d8, d9]
        assume_digits(ds, nch * width, dmax)
        assume(width + 2 <= t <= M and 1 <= f1 <= M)
        segs, sizes = chunked_segments(ds, nch, width)
        n = 0
        for k in sizes:
            assume(k >= 1)
            n = n + k
        assume(n <= trips * t)
        s = stubs_c13.ChunkedSymStream(segs, [f1])
        return judge_text(request_for(s, None, t, HTTP_TRANSFER_ENCODING="chunked"), n, t)
    return q


# ---------------------------------------------------------------- multipart field budget, integers
TEXT_HDR = b'Content-Disposition: form-data; name="%s"'
FILE_HDR = b'Content-Disposition: form-data; name="%s"; filename="x.bin"\r\nContent-Type: application/octet-stream'
EMPTY_NAME_HDR = b'Content-Disposition: form-data; name="%s"; filename=""\r\nContent-Type: application/octet-stream'
HDR_OF = {"T": TEXT_HDR, "F": FILE_HDR, "E": EMPTY_NAME_HDR}    # E: a file input whose filename is empty, with content


def multipart_layout(kinds, sizes):
    """kinds: 'T' (text field) / 'F' (file part) per part.  Returns (segments for SegSource, markup as MultipartMarkup
    produces it, header lengths).  Written from RFC 7578, compared with the real parser in selftest."""
    segs, markup, hlens = [], [["data", (0, 0)]], []
    pos = 0
    lead = b"--B\r\n"
    for i, (kind, d) in enumerate(zip(kinds, sizes)):
        hdr = HDR_OF[kind] % (b"p%d" % i)
        lit = lead + hdr + b"\r\n\r\n"
        markup.append(["headers", (pos + len(lead), pos + len(lead) + len(hdr))])
        pos = pos + len(lit)
        markup.append(["data", (pos, pos + d)])
        pos = pos + d
        segs += [lit, d]
        hlens.append(len(hdr))
        lead = b"\r\n--B\r\n"
    segs.append(b"\r\n--B--\r\n")
    return segs, markup, hlens


def part_kind_at(segs, kinds, pos):
    """'T'/'F' if pos lies in the data section of such a part, else 'H' (boundary/header bytes)"""
    off = 0
    for i, seg in enumerate(segs):
        ln = seg if isinstance(seg, int) else len(seg)
        if i % 2 == 1 and off <= pos < off + ln:
            return kinds[i // 2]
        off = off + ln
    return "H"


def make_fields(kinds):
    nparts = len(kinds)

    def q(x1: int, x2: int, x3: int, t: int):
        sizes = [x1, x2, x3][:nparts]
        for i, x in enumerate([x1, x2, x3]):
            assume(0 <= x <= M if i < nparts else x == 0)
        assume(1 <= t <= M)
        segs, markup, hlens = multipart_layout(kinds, sizes)
        src = stubs_c13.SegSource(segs)
        got, err, form_values = [], None, []
        try:
            for item in FieldStorage.iter_items(src, markup, t):
                got.append(item)
                if not item.filename:          # what BodyMixin.POST puts into request.forms
                    form_values.append(item.value)
        except Exception as e:
            err = e
        reads = list(src.reads)        # what parsing itself brought into memory
        if err is not None and not isinstance(err, BodySizeError):
            return "unexpected %r" % (err,)
        # reference budget
        text_total, all_total, must_stop = 0, 0, None
        for i in range(nparts):
            all_total += hlens[i]
            if kinds[i] == "T":
                text_total += sizes[i]
                all_total += sizes[i]
                if must_stop is None and text_total > t:
                    must_stop = i
        if must_stop is not None:
            cover("text-over-threshold")
            if err is None or len(got) > must_stop:
                return "text values of %r bytes in total delivered with max_memfile_size %r (%d fields out)" % (
                    text_total, t, len(got))
        elif all_total <= t:
            cover("within-budget")
            if err is not None or len(got) != nparts:
                return "headers+text of %r bytes within max_memfile_size %r refused: %r after %d fields" % (
                    all_total, t, err, len(got))
        else:
            cover("between")
        for i, item in enumerate(got):
            if item.name != "p%d" % i:
                return "field %d delivered as %r" % (i, item.name)
            if kinds[i] == "T":
                if item.filename is not None or len(item.value) != sizes[i]:
                    return "text field %d: value of %r bytes, sent %r" % (i, len(item.value), sizes[i])
            elif kinds[i] == "E" and item.file is None:
                cover("empty-name-part")      # delivered as form text: the text budget applies to it
                if item.value is None or len(item.value) != sizes[i] or sizes[i] > t:
                    return "part %d (empty filename, %r bytes) delivered as text %r with max_memfile_size %r" % (
                        i, sizes[i], item.value if item.value is None else len(item.value), t)
            else:
                cover("empty-name-part" if kinds[i] == "E" else "file-part")
                if item.file is None or len(item.file.read()) != sizes[i]:
                    return "file part %d not delivered as a %r byte file" % (i, sizes[i])
        for v in form_values:
            if v is not None and len(v) > t:
                return "form value of %r characters in memory, max_memfile_size %r" % (len(v), t)
        text_loaded = 0
        for pos, sz in reads:
            kind = part_kind_at(segs, kinds, pos)
            if kind == "E" and sz > t:
                return "%r bytes of a part with an empty filename read into memory in one piece, max_memfile_size %r" % (sz, t)
            if kind == "F":
                return "file part content (%r bytes at %r) read into memory while parsing" % (sz, pos)
            if kind == "T":
                text_loaded += sz
        if text_loaded > t:
            return "%r bytes of field text loaded, max_memfile_size %r" % (text_loaded, t)
        return None
    return q


# ---------------------------------------------------------------- end to end through Ombott.__call__ (real bytes)
def serve(handler_of, m, t, stream, **env):
    """Build a fresh application, POST /u with the given stream; returns (status int, body bytes, seen list)."""
    app = ombott.Ombott({"max_body_size": m, "max_memfile_size": t})
    seen = []
    app.route("/u", method="POST", callback=handler_of(app, seen))
    env.update({"REQUEST_METHOD": "POST", "PATH_INFO": "/u", "wsgi.input": stream, "SERVER_NAME": "h", "SERVER_PORT": "80",
                "wsgi.url_scheme": "http", "wsgi.errors": type("E", (), {"write": staticmethod(lambda text: None)})})
    got = []
    out = b"".join(app(env, lambda st, hd, ei=None: got.append(st)))
    assert len(got) == 1
    return int(got[0][:3]), out, seen


def raw_handler(app, seen):
    def h():
        body = app.request.body
        seen.append(body.spooled)
        return body.read()
    return h


def forms_handler(app, seen):
    def h():
        seen.append(app.request.forms.get("a"))
        return "done"
    return h


def json_handler(app, seen):
    def h():
        seen.append(app.request.json)
        return "done"
    return h


def files_handler(app, seen):
    def h():
        up = app.request.files.get("f")
        seen.append(up.file.read())
        seen.append(app.request.body.spooled)
        return "done"
    return h


def judge_raw(status, out, seen, data, n, m, t):
    if m is not None and n > m:
        cover("413")
        if status != 413 or seen:
            return "body of %r bytes over max_body_size %r answered %r %r" % (n, m, status, out)
        return None
    cover("200")
    if status != 200 or out != data[:n]:
        return "body of %r bytes within max_body_size %r answered %r %r" % (n, m, status, out)
    if n > t:
        cover("spooled")
        if seen != [True]:
            return "body of %r bytes above max_memfile_size %r kept in memory" % (n, t)
    return None


DATA = b"ABCDEFGH"


def make_wsgi_raw_cl(c, limited):
    def q(a: int, m: int, t: int, f1: int):
        assume(0 <= a <= len(DATA) and 1 <= t <= 9 and 1 <= f1 <= 4)
        assume(0 <= m <= 9 if limited else m == 0)
        lim = m if limited else None
        s = stubs.SymStream(a, [f1], data=DATA)
        status, out, seen = serve(raw_handler, lim, t, s, CONTENT_LENGTH=str(c))
        n = min(a, c)
        if lim is not None and n > lim:
            pos = 0
            for asked, given in zip(s.asked, s.given):
                if pos + asked > lim + t:
                    return "read(%r) at offset %r reaches past max_body_size %r + buffer %r" % (asked, pos, lim, t)
                pos += given
        return judge_raw(status, out, seen, DATA, n, lim, t)
    return q


def chunked_encode(data, sizes):
    out, off = b"", 0
    for k in sizes:
        out += b"%x\r\n" % k + data[off:off + k] + b"\r\n"
        off += k
    assert off == len(data)
    return out + b"0\r\n\r\n"


def make_wsgi_raw_chunked(sizes, limited):
    data = DATA[:sum(sizes)]
    enc = chunked_encode(data, sizes)

    def q(m: int, t: int, f1: int, f2: int):
        assume(3 <= t <= 9 and 1 <= f1 <= 3 and 1 <= f2 <= 3)
        assume(0 <= m <= 9 if limited else m == 0)
        lim = m if limited else None
        s = stubs.SymStream(len(enc), [], data=enc)
        frags = [f1, f2]

        def read(k):      # short reads only where more than one byte is asked for (chunk data / CRLF)
            if k > 1 and frags:
                return s.read(min(k, frags.pop(0)))
            return s.read(k)
        status, out, seen = serve(raw_handler, lim, t, type("S", (), {"read": staticmethod(read)}),
                                  HTTP_TRANSFER_ENCODING="chunked")
        return judge_raw(status, out, seen, data, len(data), lim, t)
    return q


# ---------------------------------------------------------------- two requests at once (another thread), any statement
STMT_CASES = {
    # name: (chunk sizes, max_body_size, max_memfile_size) of T0's chunked request; T1's request is the other column
    "over": ((1, 0x10, 3), 9, 4),          # 20 bytes > limit 9: 413
    "spool": ((2, 0x11), 40, 5),           # 19 bytes <= 40, > 5: served from a spooled body
    "small": ((3,), 9, 8),                 # 3 bytes: served from memory
}
STMT_DATA = bytes(range(65, 65 + 26))


def stmt_request(case, cl=False):
    """-> prepare(): builds the application (registration is not part of the schedule: the rule parser is not re-entrant
    and the statement is about requests) and returns the callable that serves the request"""
    sizes, m, t = STMT_CASES[case]
    data = STMT_DATA[:sum(sizes)]
    enc = data if cl else chunked_encode(data, sizes)
    extra = {"CONTENT_LENGTH": str(len(data))} if cl else {"HTTP_TRANSFER_ENCODING": "chunked"}

    def prepare():
        app = ombott.Ombott({"max_body_size": m, "max_memfile_size": t})
        seen = []
        app.route("/u", method="POST", callback=raw_handler(app, seen))
        env = dict(extra)
        env.update({"REQUEST_METHOD": "POST", "PATH_INFO": "/u", "wsgi.input": stubs.SymStream(len(enc), [], data=enc),
                    "SERVER_NAME": "h", "SERVER_PORT": "80", "wsgi.url_scheme": "http",
                    "wsgi.errors": type("E", (), {"write": staticmethod(lambda text: None)})})

        def call():
            got = []
            out = b"".join(app(env, lambda st, hd, ei=None: got.append(st)))
            assert len(got) == 1
            return int(got[0][:3]), out, seen
        return call
    return prepare


def make_stmt(case0, case1, cl1):
    """T0's chunked request is served while, in front of statement k of the ombott code it executes, T1's complete request
    (chunked or Content-Length framed, limits of its own) is served: both are answered by R1-R3 as when served alone"""
    prep0, prep1 = stmt_request(case0), stmt_request(case1, cl1)
    stubs.install_sim_threads()
    n0 = stmtsched.count(prep0())

    def judge_case(case, res):
        sizes, m, t = STMT_CASES[case]
        n = sum(sizes)
        return judge_raw(res[0], res[1], res[2], STMT_DATA[:n], n, m, t)

    def judge(k):
        stubs.install_sim_threads()
        r0, st = stmtsched.run(k, prep0(), prep1())
        if not st.ran:
            return "statement %d of %d not reached" % (k, n0)
        cover("preempted")
        r = judge_case(case0, r0)
        if r:
            return "another request (%s) served in front of statement %d of %d of this one (%s): %s" % (case1, k, n0, case0, r)
        r = judge_case(case1, st.result)
        if r:
            return "the other thread's request (%s, served in front of statement %d of the %s request): %s" % (case1, k, case0, r)
        return None
    return stmtsched.bits_query(n0, judge), n0


def judge_form(status, seen, want, n, m, t):
    """urlencoded / JSON body of n bytes read through request.forms / request.json (R1, R4)"""
    if m is not None and n > m:
        cover("413")
        if status != 413 or seen:
            return "body of %r bytes over max_body_size %r answered %r, handler saw %r" % (n, m, status, seen)
    elif n > t:
        cover("refused")
        if status != 413 or seen:
            return "form text of %r bytes above max_memfile_size %r answered %r, handler saw %r" % (n, t, status, seen)
    else:
        cover("loaded")
        if status != 200 or seen != [want]:
            return "form text of %r bytes within the limits (%r, %r) answered %r, handler saw %r" % (n, m, t, status, seen)
    return None


def make_wsgi_text(body, ctype, handler_of, want, chunk_sizes, limited):
    n = len(body)
    enc = chunked_encode(body, chunk_sizes) if chunk_sizes else body

    def q(m: int, t: int, f1: int):
        assume((3 if chunk_sizes else 1) <= t <= n + 2 and 1 <= f1 <= 3)
        assume(0 <= m <= n + 1 if limited else m == 0)
        lim = m if limited else None
        s = stubs.SymStream(len(enc), [] if chunk_sizes else [f1], data=enc)
        env = {"CONTENT_TYPE": ctype}
        if chunk_sizes:
            env["HTTP_TRANSFER_ENCODING"] = "chunked"
        else:
            env["CONTENT_LENGTH"] = str(n)
        status, out, seen = serve(handler_of, lim, t, s, **env)
        return judge_form(status, seen, want, n, lim, t)
    return q


E2E_FILE_HDR = b'Content-Disposition: form-data; name="f"; filename="x"'


def multipart_body(kind, size):
    hdr = (TEXT_HDR % b"a") if kind == "T" else E2E_FILE_HDR
    value = bytes(97 + i % 26 for i in range(size))
    return b"--B\r\n" + hdr + b"\r\n\r\n" + value + b"\r\n--B--\r\n", value, len(hdr)


def make_wsgi_multipart(kind, size, tmin, limited):
    body, value, hlen = multipart_body(kind, size)
    n = len(body)

    def q(m: int, t: int):
        assume(tmin <= t <= n + 1)
        assume(n - 2 <= m <= n + 1 if limited else m == 0)
        lim = m if limited else None
        s = stubs.SymStream(n, [], data=body)
        status, out, seen = serve(forms_handler if kind == "T" else files_handler, lim, t, s,
                                  CONTENT_TYPE="multipart/form-data; boundary=B", CONTENT_LENGTH=str(n))
        if lim is not None and n > lim:
            cover("413")
            if status != 413 or seen:
                return "body of %r bytes over max_body_size %r answered %r, handler saw %r" % (n, lim, status, seen)
        elif kind == "T" and size > t:
            cover("text-over-threshold")
            if status < 400 or seen:
                return "text field of %r bytes above max_memfile_size %r answered %r, handler saw %r" % (size, t, status, seen)
            cover("refused-%d" % status)     # evidence only: which status the tolerated refusal had
        elif hlen + (size if kind == "T" else 0) > t:
            cover("between")        # the in-memory budget also counts the part headers: either outcome
        else:
            cover("delivered")
            want = value.decode() if kind == "T" else value
            if status != 200 or seen[:1] != [want]:
                return "%s part of %r bytes (body %r, max_body_size %r, max_memfile_size %r) answered %r, handler saw %r, " \
                       "expected %r" % (kind, size, n, lim, t, status, seen, want)
            if kind == "F" and n > t:
                cover("spooled")
                if seen[1:] != [True]:
                    return "multipart body of %r bytes above max_memfile_size %r kept in memory" % (n, t)
        return None
    return q


def make_wsgi_multipart_empty_name(size):
    """a small text field and a file input sent with filename="" that nevertheless carries `size` bytes: whatever the
    handler finds in request.forms / request.POST / request.files, no text longer than max_memfile_size is in memory"""
    value = bytes(97 + i % 26 for i in range(size))
    body = (b'--B\r\n' + TEXT_HDR % b"a" + b'\r\n\r\nhi\r\n--B\r\n' + b'Content-Disposition: form-data; name="f"; filename=""'
            + b'\r\n\r\n' + value + b'\r\n--B--\r\n')
    n = len(body)

    def handler_of(app, seen):
        def h():
            rq = app.request
            for dct in (rq.forms, rq.POST, rq.files):
                for k in dct.keys():
                    for v in (dct[k] if isinstance(dct[k], list) else [dct[k]]):
                        seen.append((k, v if v is None or isinstance(v, str) else type(v).__name__))
            return "done"
        return h

    def q(t: int):
        assume(100 <= t <= n + 1)           # (the two header blocks, 96 bytes with the text value, fit the in-memory budget)
        s = stubs.SymStream(n, [], data=body)
        status, out, seen = serve(handler_of, None, t, s, CONTENT_TYPE="multipart/form-data; boundary=B", CONTENT_LENGTH=str(n))
        if status >= 400:
            cover("refused")
            return None if not seen else "refused with %r after the handler saw %r" % (status, seen)
        for k, v in seen:
            if isinstance(v, str) and len(v) > t:
                return "request form holds %r characters of text for field %r, max_memfile_size %r" % (len(v), k, t)
        if ("a", "hi") not in seen:
            return "text field lost: %r" % (seen,)
        cover("over" if size > t else "within")
        return None
    return q


def make_wsgi_interleaved(nops):
    """two uploads and the raw body are views of one buffered body: the handler reads them in pieces in a solver-chosen
    order (which view, how many bytes), every piece is what that view holds at its own position, above and below the
    spool threshold"""
    da, db = b"AAAaaaa", b"BBbbb"
    body = (b'--B\r\nContent-Disposition: form-data; name="a"; filename="a"\r\n\r\n' + da +
            b'\r\n--B\r\nContent-Disposition: form-data; name="b"; filename="b"\r\n\r\n' + db + b'\r\n--B--\r\n')
    n = len(body)

    def q(o1: int, o2: int, o3: int, o4: int, n1: int, n2: int, n3: int, n4: int, spool: bool):
        ops = [(o1, n1), (o2, n2), (o3, n3), (o4, n4)][:nops]
        for i, (o, k) in enumerate([(o1, n1), (o2, n2), (o3, n3), (o4, n4)]):
            assume((0 <= o <= 3 and 1 <= k <= 3) if i < nops else (o == 0 and k == 1))
        t = 110 if spool else n + 1            # (the part headers, 53 bytes each, fit the in-memory budget either way)

        def handler_of(app, seen):
            def h():
                rq = app.request
                fa, fb, raw = rq.files["a"].file, rq.files["b"].file, rq.body
                rawpos = 0         # (the raw body is the file object the uploads are windows of: its position is moved by
                for o, k in ops:   #  their reads, so it is positioned before each use; the uploads keep positions of their own)
                    if o == 0:
                        seen.append(("a", fa.read(k)))
                    elif o == 1:
                        seen.append(("b", fb.read(k)))
                    elif o == 2:
                        raw.seek(rawpos)
                        seen.append(("raw", raw.read(k)))
                        rawpos += k
                    else:
                        seen.append(("a-all", fa.read()))
                seen.append(("spooled", raw.spooled))
                return "done"
            return h
        s = stubs.SymStream(n, [], data=body)
        status, out, seen = serve(handler_of, None, t, s, CONTENT_TYPE="multipart/form-data; boundary=B", CONTENT_LENGTH=str(n))
        if status != 200:
            return "two small uploads answered %r %r" % (status, out)
        pos = {"a": 0, "b": 0, "raw": 0}
        data = {"a": da, "b": db, "raw": body}
        for (o, k), (who, got) in zip(ops, seen):
            view = who.split("-")[0]
            want = data[view][pos[view]:] if who == "a-all" else data[view][pos[view]:pos[view] + k]
            pos[view] += len(want)
            if got != want:
                return "reads %r: view %r gave %r, it holds %r at its position (all pieces: %r)" % (ops, view, got, want, seen[:-1])
        if seen[-1] != ("spooled", spool):
            return "body of %d bytes with max_memfile_size %d: spooled = %r" % (n, t, seen[-1])
        cover("spooled" if spool else "in-memory")
        return None
    return q


# ---------------------------------------------------------------- query list
def queries(tier):
    T = tier == "thorough"
    out = []

    def add(qid, fn, bound, timeout, labels, family, config=None):
        out.append(Q(qid, fn, bound, timeout=timeout, expect_cover=labels, family=family, config=config))

    for c0, c1, cl1 in ([("over", "small", False), ("spool", "over", False)] if not T else
                        [("over", "small", False), ("spool", "over", False), ("small", "over", False), ("over", "spool", True),
                         ("spool", "small", True), ("over", "over", False)]):
        fn, n0 = make_stmt(c0, c1, cl1)
        add("stmt/%s-%s%s" % (c0, c1, "-cl" if cl1 else ""), fn,
            "T0 serves a chunked request (chunk sizes, max_body_size, max_memfile_size = %r) on an application of its own; in "
            "front of statement k of the ombott code it executes (every k in 1..%d, scheduling points inserted from the current "
            "source) simulated thread T1 serves a complete %s request %r on another application; LIFO, one preemption"
            % (STMT_CASES[c0], n0, "Content-Length framed" if cl1 else "chunked", STMT_CASES[c1]),
            400, ["preempted"] + (["413"] if "over" in (c0, c1) else []) + (["200"] if (c0, c1) != ("over", "over") else []),
            "stmt", {"t0": c0, "t1": c1, "statements": n0})
    ints = "all sizes/limits in [0,2^20], buffer=max_memfile_size t in [1,2^20]"
    for nfrag, trips in ([(1, 2), (2, 2), (3, 2)] if not T else [(1, 3), (2, 3), (3, 3)]):
        add("cl/int/limited/f%d" % nfrag, make_cl(nfrag, trips, True),
            "Content-Length framing via Request.body: avail a, Content-Length c, max_body_size m, %s, %d symbolic short-read "
            "lengths, m <= %d*t" % (ints, nfrag, trips), 120 if not T else 600,
            ["too-large", "within", "spooled", "small", "beyond-fragments"], "cl/int")
    add("cl/int/unlimited", make_cl(2, 3 if not T else 4, False),
        "as cl/int/limited with max_body_size None, 2 short reads, c <= %d*t" % (3 if not T else 4), 120 if not T else 600,
        ["within", "spooled", "small"], "cl/int")

    shapes = [(1, 5, 9), (2, 5, 9), (1, 3, 15)] + ([(3, 5, 9), (2, 2, 15), (1, 5, 15), (3, 1, 15)] if T else [])
    for nch, width, dmax in shapes:
        tag = "c%dw%d%s" % (nch, width, "hex" if dmax == 15 else "dec")
        dtxt = "%d chunk(s), size line = %d symbolic hex digits each in 0..%x" % (nch, width, dmax)
        nfrag = 2 if T and dmax == 9 else 1
        add("chunked/int/limited/" + tag, make_chunked(nch, width, dmax, nfrag, 2, True),
            "chunked framing via Request.body: %s, max_body_size m, %s, %d symbolic short reads inside chunk data, m <= 2*t"
            % (dtxt, ints, nfrag), 150 if not T else 900,
            ["too-large", "within", "spooled", "small"] + (["rejected-in-later-chunk"] if nch > 1 else []), "chunked/int",
            {"chunks": nch, "width": width, "dmax": dmax})
    add("chunked/int/unlimited/c2w5dec", make_chunked(2, 5, 9, 1, 3, False),
        "chunked framing, 2 chunks (5 decimal-valued hex digits), max_body_size None, total <= 3*t, 1 short read",
        150 if not T else 600, ["within", "spooled", "small"], "chunked/int")

    add("text/int/cl", make_text_cl(1 if not T else 2, 3),
        "_get_body_string after Content-Length framing: complete body of c bytes (a >= c), %s, %d short reads, c <= 3*t"
        % (ints, 1 if not T else 2), 120 if not T else 500, ["refused", "loaded"], "text/int")
    for nch, width, dmax in ([(1, 5, 9)] if not T else [(1, 5, 9), (2, 5, 9), (1, 3, 15)]):
        add("text/int/chunked/c%dw%d%s" % (nch, width, "hex" if dmax == 15 else "dec"), make_text_chunked(nch, width, dmax, 3),
            "_get_body_string after chunked framing (no Content-Length): %d chunk(s) of %d symbolic hex digits 0..%x, t in "
            "[%d,2^20], total <= 3*t, 1 short read" % (nch, width, dmax, width + 2), 120 if not T else 500,
            ["refused", "loaded"], "text/int")

    for kinds in (["T", "F", "TT", "FT", "TF", "TTT"] if not T else ["T", "F", "TT", "FT", "TF", "FF", "TTT", "TFT", "FTT", "TTF"]):
        labels = ["within-budget"] + (["text-over-threshold", "between"] if "T" in kinds else []) + \
                 (["file-part"] if "F" in kinds else [])
        add("fields/int/" + kinds, make_fields(kinds),
            "FieldStorage.iter_items on a multipart body with parts %s (T=text field, F=file part), every data size in "
            "[0,2^20] and max_memfile_size in [1,2^20] symbolic, opaque data" % kinds, 100 if not T else 400, labels,
            "fields/int", {"parts": kinds})

    # end to end
    for kinds in (["E", "TE"] if not T else ["E", "TE", "ET", "EE", "TEF"]):
        add("fields/int/" + kinds, make_fields(kinds),
            "FieldStorage.iter_items on a multipart body with parts %s (E = part with filename=\"\" and content), values read "
            "as BodyMixin.POST reads them for request.forms; every data size in [0,2^20] and max_memfile_size in [1,2^20] "
            "symbolic, opaque data" % kinds, 100 if not T else 400,
            ["within-budget", "empty-name-part"] + (["text-over-threshold"] if "T" in kinds else []), "fields/int", {"parts": kinds})
    for size in ([150] if not T else [0, 150, 300]):
        add("wsgi/multipart/empty-filename/%d" % size, make_wsgi_multipart_empty_name(size),
            "Ombott.__call__, multipart body with a text field and a part with filename=\"\" carrying %d bytes; handler reads "
            "every value of request.forms, request.POST and request.files; max_memfile_size 100..body length+1 symbolic" % size,
            200 if not T else 600, ["over", "within"] if size > 100 else ["within"], "wsgi/multipart", {"size": size})
    nops = 3 if not T else 4
    add("wsgi/multipart/interleaved/%d" % nops, make_wsgi_interleaved(nops),
        "Ombott.__call__, multipart body with two uploads (7 and 5 bytes): the handler makes %d reads, each a solver choice of "
        "upload a / upload b / the raw body / the rest of upload a and of 1..3 bytes; max_memfile_size below or above the body "
        "(solver bool)" % nops, 200 if not T else 600, ["spooled", "in-memory"], "wsgi/multipart", {"reads": nops})
    for c in ([0, 4, 8] if not T else [0, 1, 2, 4, 7, 8, 9]):
        add("wsgi/raw/cl%d" % c, make_wsgi_raw_cl(c, True),
            "Ombott.__call__, POST handler returning Request.body: Content-Length=%d, 0..8 real bytes available (symbolic), "
            "max_body_size 0..9, max_memfile_size 1..9, first short read 1..4 symbolic" % c, 150 if not T else 500,
            ["200"] + (["413"] if c else []) + (["spooled"] if c > 1 else []), "wsgi/raw", {"content_length": c})
    add("wsgi/raw/cl8/unlimited", make_wsgi_raw_cl(8, False),
        "as wsgi/raw/cl8 with max_body_size None", 150 if not T else 500, ["200", "spooled"], "wsgi/raw")
    for sizes in ([[3, 2], [2, 1, 1]] if not T else [[3, 2], [2, 1, 1], [8], [1, 4, 2]]):
        add("wsgi/raw/chunked%s" % "-".join(map(str, sizes)), make_wsgi_raw_chunked(sizes, True),
            "Ombott.__call__, complete chunked body with chunk sizes %s, max_body_size 0..9, max_memfile_size 3..9, two short "
            "reads 1..3 symbolic" % sizes, 150 if not T else 500, ["200", "413", "spooled"], "wsgi/raw", {"chunks": sizes})
    form = b"a=xyz&b=1"
    add("wsgi/urlencoded/cl", make_wsgi_text(form, "application/x-www-form-urlencoded", forms_handler, "xyz", None, True),
        "Ombott.__call__, handler reading request.forms: urlencoded body of 9 bytes with Content-Length, max_body_size 0..10, "
        "max_memfile_size 1..11, first short read 1..3 symbolic", 150 if not T else 500,
        ["413", "refused", "loaded"], "wsgi/text")
    add("wsgi/urlencoded/chunked", make_wsgi_text(form, "application/x-www-form-urlencoded", forms_handler, "xyz", [4, 5], True),
        "same body sent chunked (4+5), max_memfile_size 3..11", 150 if not T else 500,
        ["413", "refused", "loaded"], "wsgi/text")
    if T:
        add("wsgi/urlencoded/cl/unlimited", make_wsgi_text(form, "application/x-www-form-urlencoded", forms_handler, "xyz",
                                                           None, False),
            "urlencoded body of 9 bytes, max_body_size None, max_memfile_size 1..11", 500, ["refused", "loaded"],
            "wsgi/text")
        add("wsgi/json/cl", make_wsgi_text(b'{"a":[1]}', "application/json", json_handler, {"a": [1]}, None, True),
            "handler reading request.json: JSON body of 9 bytes, max_body_size 0..10, max_memfile_size 1..11", 500,
            ["413", "refused", "loaded"], "wsgi/text")
    for kind, size, limited in ([("T", 48, False), ("F", 4, False), ("F", 4, True)] if not T else
                                [("T", 0, False), ("T", 3, False), ("T", 12, False), ("T", 3, True), ("T", 48, False), ("F", 0, False),
                                 ("F", 4, False), ("F", 4, True), ("F", 40, False)]):
        body, _, hlen = multipart_body(kind, size)
        n = len(body)
        tmin = 1 if kind == "T" else hlen - 1
        labels = ["delivered", "between"] + (["413"] if limited else []) + \
                 (["text-over-threshold"] if kind == "T" and size >= 12 and not limited else []) + (["spooled"] if kind == "F" else [])
        add("wsgi/multipart/%s%d/%s" % (kind, size, "limited" if limited else "unlimited"),
            make_wsgi_multipart(kind, size, tmin, limited),
            "Ombott.__call__, multipart body (%d bytes) with one %s of %d bytes, max_memfile_size %d..%d symbolic (every "
            "position of the read boundaries), max_body_size %s"
            % (n, "text field" if kind == "T" else "file part", size, tmin, n + 1,
               "%d..%d symbolic" % (n - 2, n + 1) if limited else "None"),
            200 if not T else 600, labels, "wsgi/multipart", {"kind": kind, "size": size})
    # the configuration dimension: the same effective settings reached through app.setup / two setup calls
    from vf import appconfigs
    out += appconfigs.variants(list(out), ["setup", "setup-twice"], lambda q: q.qid in ("wsgi/raw/cl4", "wsgi/urlencoded/chunked", "wsgi/multipart/F4/limited", "wsgi/raw/chunked3-2"))
    return out


def selftest(tier):
    assert stubs_c13.validate() > 0
    # the layout builder against the real multipart scanner
    for kinds, sizes in (("T", [5]), ("TF", [0, 7]), ("FTT", [3, 1, 0])):
        segs, markup, hlens = multipart_layout(kinds, sizes)
        body = b"".join(b"x" * s if isinstance(s, int) else s for s in segs)
        mk = MultipartMarkup("B")
        mk.parse(body)
        assert mk.error is None and [[k, tuple(v)] for k, v in mk.markups] == [[k, tuple(v)] for k, v in markup], (kinds, mk.markups)
    qs = {q.qid: q for q in queries(tier)}
    cl = next(k for k in qs if k.startswith("cl/int/limited"))
    return [
        # the repo's own case: 27 bytes against a limit of 5
        (cl, dict(a=27, c=27, m=5, t=10, f1=27, f2=1, f3=1), "ok"),
        (cl, dict(a=27, c=27, m=27, t=14, f1=3, f2=1, f3=1), "ok"),
        ("wsgi/raw/cl8", dict(a=8, m=8, t=3, f1=2), "ok"),
        ("wsgi/raw/cl8", dict(a=8, m=7, t=3, f1=2), "ok"),
        ("fields/int/TF", dict(x1=10, x2=10 ** 6, x3=0, t=200), "ok"),
        ("fields/int/TF", dict(x1=201, x2=0, x3=0, t=200), "ok"),
    ]
