"""C12 - malformed request bodies yield client errors, never server faults.

What is demanded of every request (nothing else):
  O1  Ombott.__call__ returns normally, start_response was called exactly once, the status is 2xx or 4xx and nothing was
      written to wsgi.errors (ombott writes a traceback there whenever it answers 500);
  O2  every text value / file content the handler obtained from request.forms / request.files is the complete data of a
      part that a delimiter terminated: with B = the body text as sent (under chunked framing the payload, under
      Content-Length framing the first min(available, declared) bytes) the reference scanner of this file finds the
      delimiters (CRLF "--" boundary) and blank lines (CRLF CRLF) in B by itself; part i starts after delimiter i, its
      data runs from the first blank line after that to the next delimiter; a part without a following delimiter is
      not terminated.  Each delivered value must equal the data of a terminated part not used by another value;
  O3  request.body delivered to the handler equals B;
  O1h (the `hang/*` families) no regular expression that ombott applies to body text or to the Content-Type needs more
      than 50*L*L+1000 steps of a backtracking interpreter of its parse tree on a text of L characters (one step = one
      node of the pattern tried at one position; CPython's engine does the same work, uninterruptibly).  That is the
      deterministic stand-in for "a hang": linear and quadratic matching pass whatever the input, cubic and exponential
      matching is over the budget from ~40 characters on, and the lines of these families are 60-330 characters long.
Tolerances decided up front: which 4xx is chosen, whether a malformed text is refused or (partly) accepted, names and
order of the fields are not judged; a field delivered as None (ombott does that for a part with filename="") counts as
not delivered; the JSON value itself is not judged; time that grows with the square of a header line's length is not a
hang.  A path that exceeds the per-path time limit makes the query inconclusive (possible hang), never confirmed.
"""
import functools
import json

from crosshair.core import deep_realize
from crosshair.statespace import context_statespace
from crosshair.tracers import NoTracing, is_tracing

from vf.engine import assume, cover
from vf.query import Q
from vf import stubs, stubs_c12
from harness import mpgrammar as G

import ombott
from ombott.request_pkg import body_mixin

PROPERTY = "C12"
TECHNIQUE = ("bounded symbolic execution of Ombott.__call__ with handlers reading request.forms/files/json/body (CrossHair+"
             "z3): grammar-mutated multipart skeletons with 1-3 fully symbolic bytes at the mutated site, symbolic "
             "truncation point / buffer size / short reads, JSON skeletons with symbolic holes, fully symbolic urlencoded "
             "text; long header lines / header blocks / content types = pump (unit x run length picked by the solver) with "
             "symbolic bytes at the joints, the regular expressions run by a step-counting backtracking interpreter of "
             "their current parse tree; oracle = status class + silent wsgi.errors + an independent delimiter scanner of "
             "the sent text + step budget 50*L*L+1000 per regular expression call")
LEVEL_TEXT = ("The real request path (body reader under Content-Length and chunked framing, streaming multipart markup, "
              "FieldStorage header/value parsing, JSON and urlencoded decoding, Request._raise and the error map, "
              "Ombott._handle/_cast/wsgi) is executed for every value (all 256) of the symbolic bytes placed at each "
              "enumerated mutation site of the multipart skeletons (start, after a delimiter, header name, colon, header "
              "value, name/filename option, blank line, data, each byte group of the closing delimiter, duplicated and "
              "missing delimiter), for part data built from pieces of the delimiter aligned to the parser's scan stride by a "
              "symbolic pad (two free bytes at the positions that decide whether a partial delimiter goes on), for every "
              "truncation offset (also of the chunk-encoded stream, with and without chunk extensions, where a reader that does not "
              "terminate is a failure) and buffer size of the skeletons, for JSON skeletons with "
              "1-3 symbolic bytes and for every urlencoded text up to the stated length. z3 decides every branch, so "
              "inside the bound each request is answered 2xx or 4xx with exactly one start_response, no traceback and no "
              "escaping exception, and every delivered field equals the data of a delimiter-terminated part of the sent "
              "text as found by the harness's own scanner. No hang: for part header lines (name, filename, unknown "
              "parameter, Content-Type line) that carry a parameter made of a pump - a unit of 1-2 characters from the "
              "characters the parsers distinguish, repeated to 64..150 (thorough 40..200) characters - quoted, unquoted, "
              "unterminated or as key, with 1-2 fully symbolic bytes after the opening quote / before the end / after the "
              "closing quote, for header blocks with long runs of CR / LF / filler before two symbolic bytes, and for "
              "Content-Type values with pumps around `boundary=`, every regular expression of the body path "
              "(FieldStorage._patt, end_headers_patt, MULTIPART_BOUNDARY_PATT - as compiled in the tree under test) "
              "finishes within 50*L*L+1000 interpreter steps. Bounded: skeletons, sites, pump units, run lengths and "
              "handler kinds are enumerated.")
LEVEL_NOTE = ("Trusted: z3, CrossHair's bytes/str/regex/codec models (+vf/chmodels, + two corrections of its regex model "
              "in vf/stubs_c12, compared with CPython's re under the tracer at every run), CPython "
              "for concrete steps, the reference scanner, the stubs PyBytesIO, SymStream, PieceStream, ListForms, "
              "py_unquote, PyJson (each compared with the real object on concrete inputs at import). Every symbolic path "
              "that held is re-run on the plain interpreter with the inputs of its solver model and must show the same "
              "status, response body and delivered values (a difference is reported as a machinery error). The symbolic "
              "bytes reach the streaming parser in a short read of their own (window of the stated context); other read "
              "divisions are enumerated, not symbolic. JSON model queries cover bytes 0x01-0x7f, the real json.loads is "
              "used with one free byte and on concrete texts. hang/* queries: BudgetPattern (stubs_c07.PyPattern + step "
              "counter; compared with re on all short texts at import; the detector is exercised on (a+)+$ natively and "
              "under the tracer by the self-test); the step count of the interpreter stands for the work of CPython's "
              "engine (same backtracking order, no memoisation in either). After a linear allowance of traced steps the "
              "subject is realised and the match is redone untraced: the values not picked stay in the search tree.")
FUNCTIONS = [
    "ombott.ombott:Ombott.wsgi",
    "ombott.ombott:Ombott._handle",
    "ombott.ombott:Ombott._cast",
    "ombott.request_pkg.request:BaseRequest._raise",
    "ombott.request_pkg.body_mixin:BodyMixin.POST",
    "ombott.request_pkg.body_mixin:BodyMixin.json",
    "ombott.request_pkg.body_mixin:BodyMixin._body",
    "ombott.request_pkg.body_mixin:BodyMixin._get_body_string",
    "ombott.request_pkg.body_mixin:_body_read",
    "ombott.request_pkg.body_mixin:_iter_body",
    "ombott.request_pkg.body_mixin:_iter_chunked",
    "ombott.request_pkg.multipart:MultipartMarkup.parse",
    "ombott.request_pkg.multipart:BodyMarkuper.iter_markup",
    "ombott.request_pkg.multipart:BodyMarkuper._eat_start_boundary",
    "ombott.request_pkg.multipart:BodyMarkuper._eat_data",
    "ombott.request_pkg.multipart:HeadersEaeter.eat",
    "ombott.request_pkg.multipart:HeadersEaeter._eat_headers",
    "ombott.request_pkg.multipart:FieldStorage.read",
    "ombott.request_pkg.multipart:FieldStorage.parse_header",
    "ombott.request_pkg.multipart:FieldStorage.iter_items",
    "ombott.request_pkg.multipart:BytesIOProxy.read",
    "ombott.request_pkg.helpers:parse_qsl",
]
STUBS = [
    "PyBytesIO: pure-Python io.BytesIO / tempfile.TemporaryFile inside body_mixin",
    "SymStream: wsgi.input over concrete bytes with symbolic available length and short-read lengths",
    "PieceStream: wsgi.input handing the body out piece by piece (short reads at piece ends), so the symbolic bytes "
    "arrive in a window of their own",
    "ListForms: FormsDict as an association list compared with == (hashing would realise symbolic names)",
    "py_unquote: urllib.parse.unquote inside request_pkg.helpers written out in Python (percent + UTF-8/replace decoder)",
    "PyJson: json.loads inside body_mixin as a recursive-descent reader for ASCII texts (json/model queries only; "
    "json/real and json/text queries run the real C scanner)",
    "fix_relib: corrections of CrossHair's regex model (an optional group was matched without its continuation, which "
    "lost the `name` option of every header line containing a symbolic character; `$` did not match before a final "
    "newline)",
    "BudgetPattern (hang/* queries only): FieldStorage._patt, multipart.end_headers_patt and body_mixin."
    "MULTIPART_BOUNDARY_PATT replaced by a backtracking interpreter (stubs_c07.PyPattern + IGNORECASE, bytes subjects, "
    "character categories) of the parse tree of the pattern the tree under test has, counting steps; over 50*L*L+1000 "
    "steps = DidNotFinish + an entry in stubs_c12.HANGS, which the oracle reads whatever is answered",
]
ASSUMPTIONS = [
    "a WSGI server may return fewer bytes than asked from wsgi.input.read (PEP 3333): the windowing of the symbolic "
    "bytes is such a sequence of short reads",
    "under chunked framing the server hands the raw chunked stream to wsgi.input; the harness encodes the mutated "
    "payload legally (the chunk grammar itself is C05's subject), plus raw truncation of the encoded stream with and "
    "without chunk extensions",
    "a reader that calls wsgi.input.read more than 200 times at EOF does not terminate: the stream stubs raise there, "
    "so a hang is a failure (500 + traceback, or an escaping exception), not an inconclusive path",
    "a traceback on wsgi.errors is the witness of the catch-all 500 branch of Ombott._handle / Ombott.wsgi",
    "a regular expression call that needs more than 50*L*L+1000 backtracking steps on L characters is a hang (with the "
    "default 100 KiB in-memory limit a header line may be ~100 000 characters: cubic work is ~1e15 steps)",
]
OUTSIDE = [
    "multipart skeletons, boundaries and mutation sites other than the enumerated ones; more than 3 symbolic bytes",
    "divisions of the symbolic window into reads other than the enumerated contexts",
    "delimiter-like data other than the enumerated templates (one partial delimiter per value, boundaries b and sep)",
    "JSON texts other than skeleton + holes; bytes >= 0x80 and NUL in more than one free position of a JSON text",
    "urlencoded texts longer than the stated length",
    "malformed Content-Length / Transfer-Encoding header values (not body bytes)",
    "long header lines other than start + one pump parameter of the enumerated shapes, units and run lengths; more than "
    "two free bytes per line; pumps of more than one unit; regular expressions outside request_pkg's body path",
]
BUDGET_S = {"quick": 290, "thorough": 1180}
STATS = {}

stubs.install_body_io()
stubs_c12.install()
stubs_c12.fix_relib()
STATS["stub_comparisons_with_the_real_objects"] = stubs_c12.validate()
stubs_c12.warm_symbolic_tables()
# the regular expressions ombott applies to body text / Content-Type, as compiled in the tree under test, each with its
# step-counting interpreter (used by the `hang/*` families only; every other query runs CrossHair's regex model)
REGEX_SITES = stubs_c12.budget_patterns()
STATS["counting_regex_interpreter_comparisons_with_re"] = stubs_c12.validate_budget_patterns(REGEX_SITES)

CRLF = b"\r\n"
MP_CTYPE = "multipart/form-data; boundary=%s"
JSON_CTYPE = "application/json"
FORM_CTYPE = "application/x-www-form-urlencoded"


# ================================================================ the sent text and the reference scanner
class Sent:
    """Body text = concrete stretches with a few stretches of symbolic bytes in between.  Offsets are plain ints; only
    comparisons that touch symbolic bytes involve the solver."""

    def __init__(self, pre, hole, post):
        self.pre, self.hole, self.post = pre, hole, post
        self._lay_out([(pre, False), (hole, True), (post, False)])

    @classmethod
    def of(cls, segments):
        """from [(bytes, is_symbolic)]"""
        self = cls.__new__(cls)
        self._lay_out(segments)
        return self

    def _lay_out(self, segments):
        self.segs = []                  # (start, data, is_symbolic): no empty ones, no two concrete neighbours
        self.n = 0
        for data, symbolic in segments:
            if len(data) == 0:
                continue
            if self.segs and not symbolic and not self.segs[-1][2]:
                start, before, _ = self.segs[-1]
                self.segs[-1] = (start, before + data, False)
            else:
                self.segs.append((self.n, data, symbolic))
            self.n += len(data)

    def pieces(self, before, after):
        """division into reads: the symbolic bytes with `before`/`after` bytes of context form one piece"""
        lo = max(len(self.pre) - before, 0)
        return [self.pre[:lo], self.pre[lo:] + self.hole + self.post[:after], self.post[after:]]

    def slice(self, i, j):
        i, j = max(i, 0), min(j, self.n)
        out = b""
        for start, data, _ in self.segs:
            if start < j and i < start + len(data):
                out = out + data[max(i - start, 0):j - start]
        return out

    def whole(self):
        return self.slice(0, self.n)

    def occurrences(self, needle):
        """sorted offsets at which `needle` occurs"""
        m = len(needle)
        found = []
        near_symbolic = []
        for start, data, symbolic in self.segs:
            if symbolic:
                for i in range(max(start - m + 1, 0), min(start + len(data) - 1, self.n - m) + 1):
                    if i not in near_symbolic:
                        near_symbolic.append(i)
            else:
                i = data.find(needle)
                while i >= 0:
                    found.append(start + i)
                    i = data.find(needle, i + 1)
        for i in near_symbolic:
            if self.slice(i, i + m) == needle:
                found.append(i)
        return sorted(found)


def first_at_or_after(offsets, pos):
    for o in offsets:
        if o >= pos:
            return o
    return None


def scan_parts(sent, boundary):
    """Reference scanner: the data of every part of `sent` that is terminated by a delimiter (see O2)."""
    dash = b"--" + boundary
    delim = CRLF + dash
    delims = sent.occurrences(delim)
    blanks = sent.occurrences(CRLF + CRLF)
    if sent.slice(0, len(dash)) == dash:
        pos = len(dash)
    elif delims:
        pos = delims[0] + len(delim)
    else:
        return []
    parts = []
    while True:
        blank = first_at_or_after(blanks, pos)
        if blank is None:
            return parts
        nxt = first_at_or_after(delims, blank + 4)
        if nxt is None:
            return parts
        parts.append(sent.slice(blank + 4, nxt))
        pos = nxt + len(delim)


# ================================================================ serving one request
class Outcome:
    def __init__(self):
        self.calls, self.errors, self.seen, self.out, self.escaped = [], [], [], None, None


def serve(kind, stream, t, env, json_model=False, counted=False):
    """One POST through a fresh application whose handler reads request.<kind>.  `counted`: the regular expressions
    of the body path are run by their step-counting interpreters (see REGEX_SITES)."""
    body_mixin.json_mod = stubs_c12.PyJson if json_model else json
    stubs_c12.use_budget_patterns(REGEX_SITES, counted)
    del stubs_c12.HANGS[:]
    app = ombott.Ombott({"max_memfile_size": t})
    res = Outcome()

    def handler():
        rq = app.request
        if kind == "forms":
            res.seen.append(rq.forms.items())
        elif kind == "files":
            got = []
            for name, up in rq.files.items():
                got.append((name, [u.file.read() for u in up] if isinstance(up, list) else up.file.read()))
            res.seen.append(got)
        elif kind == "json":
            res.seen.append(rq.json)
        else:
            res.seen.append(rq.body.read())
        return "done"
    app.route("/u", method="POST", callback=handler)
    env = dict(env)
    env.update({"REQUEST_METHOD": "POST", "PATH_INFO": "/u", "SERVER_NAME": "h", "SERVER_PORT": "80",
                "wsgi.url_scheme": "http", "wsgi.input": stream,
                "wsgi.errors": type("Errors", (), {"write": staticmethod(res.errors.append)})})
    try:
        res.out = b"".join(app(env, lambda status, headers, exc_info=None: res.calls.append(status)))
    except Exception as e:
        res.escaped = e
    return res


def judge_status(res):
    """O1; returns (failure text | None, status class '2'/'4')"""
    if stubs_c12.HANGS:          # whatever was answered afterwards: a regular expression did not finish
        return "hang: " + stubs_c12.HANGS[0], None
    if res.escaped is not None:
        return "exception escaped Ombott.__call__: %r" % (res.escaped,), None
    if len(res.calls) != 1:
        return "start_response called %d times" % len(res.calls), None
    status = res.calls[0]
    if res.errors:
        return "answered %s and wrote to wsgi.errors: ... %s" % (status, res.errors[0].strip().splitlines()[-1][:300]), None
    cls = status[:1]
    if cls != "2" and cls != "4":
        return "answered %s %r" % (status, res.out), None
    return None, cls


def delivered_values(seen):
    out = []
    for _, v in seen:
        for x in (v if isinstance(v, list) else [v]):
            if x is not None:
                out.append(x)
    return out


def judge(kind, res, sent, boundary):
    fail, cls = judge_status(res)
    if fail:
        return fail
    cover("answered")
    cover("status-%sxx" % cls)
    if cls != "2":
        return None
    if len(res.seen) != 1:
        return "2xx but the handler did not finish: %r" % (res.seen,)
    if kind == "body":
        if res.seen[0] != sent.whole():
            return "request.body delivered %r, sent %r" % (res.seen[0], sent.whole())
        return None
    if kind == "json":
        return None
    values = delivered_values(res.seen[0])
    if not values:
        return None
    parts = scan_parts(sent, boundary)
    used = [False] * len(parts)
    for v in values:
        data = v.encode("utf-8") if isinstance(v, str) else v
        hit = False
        for j in range(len(parts)):
            if not used[j] and parts[j] == data:
                used[j] = hit = True
                break
        if not hit:
            return "delivered %r is not the complete data of a delimiter-terminated part; the sent text %r has the " \
                   "terminated parts %r" % (v, sent.whole(), parts)
    cover("delivered")
    return None


def observed(res):
    """what the client and the handler saw of one request"""
    return (res.calls, res.seen, res.out, type(res.escaped).__name__)


def checked(scenario):
    """Query function from `scenario(**args) -> (failure text | None, observation)`.  Under the tracer every path that
    held is finished with a fidelity check: the path is detached, the arguments and the observation are realised
    from the solver model, the scenario is run again on the real interpreter with those arguments and must observe
    the same.  A difference is an error of the engine's models, reported as a counterexample that cannot reproduce
    natively (the runner turns that into exit code 3, never into a verdict)."""
    @functools.wraps(scenario)
    def q(*args, **kwargs):
        fail, obs = scenario(*args, **kwargs)
        if fail or not is_tracing():
            return fail
        context_statespace().detach_path()
        args, kwargs, obs = deep_realize((args, kwargs, obs))
        with NoTracing():
            native_fail, native_obs = scenario(*args, **kwargs)
        if native_fail is not None or repr(native_obs) != repr(obs):
            return "ENGINE-MODEL DIVERGENCE on %r %r: symbolic run observed %r, the interpreter %r (%s)" % (
                args, kwargs, obs, native_obs, native_fail)
        return None
    return q


def framed(pieces, sent, framing, ctype):
    """(stream, environ entries) for the framing"""
    env = {"CONTENT_TYPE": ctype}
    if framing == "chunked":
        env["HTTP_TRANSFER_ENCODING"] = "chunked"
        return stubs_c12.PieceStream(stubs_c12.chunked_pieces(pieces)), env
    env["CONTENT_LENGTH"] = str(sent.n)
    return stubs_c12.PieceStream(pieces), env


# ================================================================ multipart skeletons and mutation sites
SKELETONS = {
    # tag: (boundary, body, buffer = max_memfile_size that lets every field through)
    "text": (b"b", G.encode(b"b", [(G.H(b"f"), b"xy")]), 64),
    "file": (b"b", G.encode(b"b", [(G.H(b"u", b"a"), b"zw")]), 64),
    "dup": (b"b", G.encode(b"b", [(G.H(b"f"), b"xy")]).replace(b"xy\r\n--b", b"xy\r\n--b\r\n--b"), 64),
    "two": (b"b", G.encode(b"b", [(G.H(b"f"), b"xy"), (G.H(b"u", b"a"), b"zw")]), 128),
    "ctype": (b"b", G.encode(b"b", [(G.H(b"u", b"a", b"t/p"), b"zw")]), 128),
}
CD = b"Content-Disposition"
# (site, marker, shift, bytes removed, symbolic bytes put there, what it is); the site exists in a skeleton that has the marker
SITES = [
    ("start", b"--b", 0, 1, 1, "the first byte of the body"),
    ("preamble", b"--b", 0, 0, 1, "one byte in front of the first delimiter"),
    ("after-delim", b"--b", 3, 2, 2, "the two bytes after the first delimiter"),
    ("hname", CD, 0, 1, 1, "the first byte of the header name"),
    ("colon", CD + b":", 19, 1, 1, "the colon of the header line"),
    ("colon+1", CD + b":", 19, 2, 2, "the colon and the byte after it"),
    ("hvalue-none", CD + b": form-data; name", 20, 20, 0, "the header value of the text part removed (empty header value)"),
    ("hvalue-1", CD + b": form-data; name", 20, 20, 1, "the header value of the text part replaced by one byte"),
    ("hvalue-2", CD + b": form-data; name", 20, 20, 2, "the header value of the text part replaced by two bytes"),
    ("name-none", b'; name="', 0, 10, 0, "the name option removed (missing name)"),
    ("name-1", b'; name="', 0, 10, 1, "the name option replaced by one byte"),
    ("name-key", b"name=", 0, 1, 1, "the first byte of the option key `name`"),
    ("name-eq", b"name=", 4, 1, 1, "the `=` after `name`"),
    ("name-val", b'name="', 6, 1, 1, "the field name"),
    ("filename-key", b"filename=", 0, 1, 1, "the first byte of the option key `filename`"),
    ("filename-val", b'filename="', 10, 1, 1, "the file name"),
    ("filename-quoted", b'filename="', 9, 3, 1, "the quoted file name replaced by one byte"),
    ("ctype-colon", b"Content-Type:", 12, 1, 1, "the colon of the second header line"),
    ("ctype-value", b"Content-Type: ", 13, 4, 1, "the value of the second header line replaced by one byte"),
    ("line-break", b"\r\nContent-Type", 1, 1, 1, "the LF of the CRLF between the two header lines"),
    ("blank", b"\r\n\r\n", 0, 4, 2, "the blank line replaced by two bytes"),
    ("blank-tail", b"\r\n\r\n", 2, 2, 2, "the second CRLF of the blank line"),
    ("data", b"\r\n\r\n", 4, 2, 2, "the two data bytes"),
    ("mid-delim-bound", b"\r\n--b\r\n", 4, 1, 1, "the boundary byte of the delimiter between two parts (missing delimiter)"),
    ("mid-delim-after", b"\r\n--b\r\n", 5, 2, 2, "the two bytes after the delimiter between two parts"),
    ("delim-cr", b"\r\n--b--", 0, 1, 1, "the CR of the closing delimiter"),
    ("delim-dash", b"\r\n--b--", 2, 2, 2, "the two hyphens that open the closing delimiter"),
    ("delim-bound", b"\r\n--b--", 4, 1, 1, "the boundary byte of the closing delimiter (missing delimiter)"),
    ("closing", b"\r\n--b--", 5, 2, 2, "the two hyphens that end the closing delimiter"),
    ("end", b"--b--\r\n", 7, 0, 2, "two bytes appended after the epilogue"),
]


def mp_site(tag, name):
    """(pos, ndel, k, what) of the site in the skeleton"""
    body = SKELETONS[tag][1]
    for site, marker, shift, ndel, k, what in SITES:
        if site == name:
            return body.index(marker) + shift, ndel, k, what
    raise KeyError(name)


def make_mp_hole(tag, name, kind, framing, t, before, after):
    boundary, body, _ = SKELETONS[tag]
    pos, ndel, k, _ = mp_site(tag, name)
    pre, post = body[:pos], body[pos + ndel:]

    def q(h: bytes):
        assume(len(h) == k)
        sent = Sent(pre, h, post)
        stream, env = framed(sent.pieces(before, after), sent, framing, MP_CTYPE % boundary.decode())
        res = serve(kind, stream, t, env)
        return judge(kind, res, sent, boundary), observed(res)
    return checked(q)


# Data that looks like the delimiter.  The parser strides through the data of a part in windows of len(CRLF "--" boundary)
# bytes counted from the start of the data inside one read; a window ending in the first p bytes of the delimiter arms
# "the next window must start with the rest".  '?' = symbolic byte: the byte after the partial delimiter and the first
# byte of a later window that goes on with the rest of the delimiter.
def data_template(boundary, rest):
    token = CRLF + b"--" + boundary
    n = len(token)
    p = n - rest
    return b"x" * rest + token[:p] + b"?" + b"y" * (n - 1) + b"?" + (token[p + 1:] + b"z" * n)[:n - 1] + b"w"


def make_mp_data(boundary, rest, kind, framing):
    """value = pad bytes + template, delivered in one read so that the windows are those of the parser's stride (a
    following read that began with CRLF or a hyphen would make the parser, left waiting by a wrongly seen delimiter,
    go on and fail later with a 4xx)"""
    stride = len(CRLF + b"--" + boundary)
    t0, t1, t2 = data_template(boundary, rest).split(b"?")
    head = b"--" + boundary + CRLF + b"\r\n".join(G.H(b"f", b"a" if kind == "files" else None)) + CRLF + CRLF
    tail = CRLF + b"--" + boundary + CRLF + G.H(b"g")[0] + CRLF + CRLF + b"2" + CRLF + b"--" + boundary + b"--" + CRLF

    def q(h: bytes, pad: int):
        assume(len(h) == 2 and 0 <= pad < stride)
        value = [(b"p" * int(pad) + t0, False), (h[0:1], True), (t1, False), (h[1:2], True), (t2, False)]
        sent = Sent.of([(head, False)] + value + [(tail, False)])
        cut = sent.n - len(tail) + stride + 2     # the value arrives together with its delimiter line, the next read
        pieces = [head, sent.slice(len(head), cut), sent.slice(cut, sent.n)]    # starts with the following part's header
        stream, env = framed(pieces, sent, framing, MP_CTYPE % boundary.decode())
        res = serve(kind, stream, 128, env)
        return judge(kind, res, sent, boundary), observed(res)
    return checked(q)


# A part may announce a charset of its own (RFC 7578 4.5).  The names are what a client can write there: text codecs,
# names python knows as non-text codecs (bytes-to-bytes, str-to-str), names nobody knows, odd spellings.
PART_CHARSETS = [b"utf-8", b"UTF-8", b"latin-1", b"iso-8859-1", b"ascii", b"utf-16", b"hex", b"base64", b"rot13", b"zlib", b"bz2",
                 b"undefined", b"idna", b"punycode", b"unicode_escape", b"raw_unicode_escape", b"mbcs", b"no-such-codec", b"", b'"utf-8"',
                 b"utf-8; charset=hex", b"x" * 40, b"utf_8_sig", b"uu", b"quopri"]


def make_mp_charset(kind, framing, where):
    """a text part (or an upload) whose own Content-Type line carries `; charset=<name>`, name from PART_CHARSETS (solver
    index), two fully symbolic data bytes.  O1 as everywhere; a delivered text value is the part's data under utf-8
    (what ombott does: the parameter is ignored) or under the announced charset."""
    opts = b'; name="f"' + (b'; filename="a"' if kind == "files" else b"")
    head = b'--b\r\n' + CD + b": form-data" + opts + CRLF + b"Content-Type: text/plain; "
    tail = CRLF + b"--b--" + CRLF

    def q(ci: int, h: bytes):
        assume(0 <= ci < len(PART_CHARSETS) and len(h) == 2)
        cs = PART_CHARSETS[ci]
        param = {"charset": b"charset=" + cs, "upper": b"CHARSET=" + cs, "second": b"format=flowed; charset=" + cs}[where]
        sent = Sent(head + param + CRLF + CRLF, h, tail)
        stream, env = framed(sent.pieces(3, 3), sent, framing, MP_CTYPE % "b")
        res = serve(kind, stream, 256, env)
        fail, cls = judge_status(res)
        if fail:
            return fail, observed(res)
        cover("status-%sxx" % cls)
        if cls == "2":
            if len(res.seen) != 1:
                return "2xx but the handler did not finish: %r" % (res.seen,), observed(res)
            for v in delivered_values(res.seen[0]):
                if isinstance(v, bytes):
                    ok = v == h
                else:
                    ok = v.encode("utf-8") == h
                    if not ok:
                        try:
                            ok = v.encode(cs.decode("ascii").strip('"')) == h
                        except Exception:  # noqa
                            ok = False
                if not ok:
                    return "part announcing charset %r with data %r delivered as %r" % (cs, h, v), observed(res)
                cover("delivered")
        return None, observed(res)
    return checked(q)


# RFC 5987 / 6266 extended parameters (filename*=charset'lang'pct-encoded), which some clients send next to the plain one
EXT_CHARSETS = [b"UTF-8", b"utf-8", b"ISO-8859-1", b"windows-874", b"ISO-8859-8-I", b"windows-31j", b"iso-2022-cn", b"hex", b"rot13",
                b"undefined", b"no-such-codec", b"", b"utf-16", b"x" * 40]
EXT_VALUES = [b"%e2%82%ac.txt", b"%ff%fe", b"plain.txt", b"%", b"%zz", b"a%00b", b""]


def make_mp_extparam(kind, framing, which):
    """a part whose Content-Disposition carries an extended-notation parameter `which`*=<charset>'<lang>'<value>, charset and
    value from EXT_CHARSETS x EXT_VALUES (solver indices), with or without the plain twin and a language tag (solver bool).  O1 as everywhere; the data of a delivered part is the data sent."""
    tail = CRLF + b"--b--" + CRLF

    def q(ci: int, vi: int, twin: bool):
        assume(0 <= ci < len(EXT_CHARSETS) and 0 <= vi < len(EXT_VALUES))
        h = b"z"
        ext = which + b"*=" + EXT_CHARSETS[ci] + (b"'en'" if twin else b"''") + EXT_VALUES[vi]
        opts = b'; name="f"'
        if kind == "files" or which == b"filename":
            opts += b'; filename="a"' if (twin or which != b"filename") else b""
        if which == b"name" and not twin:
            opts = opts.replace(b'; name="f"', b"")
        head = b"--b\r\n" + CD + b": form-data" + opts + b"; " + ext + CRLF + CRLF
        sent = Sent(head, h, tail)
        stream, env = framed(sent.pieces(3, 3), sent, framing, MP_CTYPE % "b")
        res = serve(kind, stream, 512, env)
        fail, cls = judge_status(res)
        if fail:
            return fail, observed(res)
        cover("status-%sxx" % cls)
        if cls == "2":
            if len(res.seen) != 1:
                return "2xx but the handler did not finish: %r" % (res.seen,), observed(res)
            for v in delivered_values(res.seen[0]):
                data = v if isinstance(v, bytes) else v.encode("utf-8")
                if data != h:
                    return "part with %r and data %r delivered as %r" % (ext, h, v), observed(res)
                cover("delivered")
        return None, observed(res)
    return checked(q)


def make_mp_any(n, kind, framing):
    """every byte string up to n bytes as a multipart body"""
    def q(b: bytes):
        assume(len(b) <= n)
        sent = Sent(b"", b, b"")
        stream, env = framed([b], sent, framing, MP_CTYPE % "b")
        res = serve(kind, stream, 64, env)
        return judge(kind, res, sent, b"b"), observed(res)
    return checked(q)


CHUNK_EXT = b";sig=abc"       # a chunk extension (RFC 7230 4.1.1) put on every size line by the `-ext` framings


def make_mp_truncate(tag, kind, framing):
    """concrete skeleton cut at every offset; buffer at the spool threshold of the whole skeleton; first read short"""
    boundary, body, _ = SKELETONS[tag]
    n = len(body)
    ext = CHUNK_EXT if "-ext" in framing else b""
    raw_whole = b"".join(stubs_c12.chunked_pieces([body[:n // 2], body[n // 2:]], ext))

    def q(cut: int, t: int, f1: int):
        assume(n <= t <= n + 1 and 1 <= f1 <= 2)
        assume(0 <= cut <= (len(raw_whole) if framing.endswith("-raw") else n))
        cut = int(cut)
        env = {"CONTENT_TYPE": MP_CTYPE % boundary.decode()}
        if framing.endswith("-raw"):     # the encoded stream itself is cut (also inside size lines and extensions)
            sent = Sent(body, b"", b"")
            env["HTTP_TRANSFER_ENCODING"] = "chunked"
            stream = stubs.SymStream(cut, [f1], data=raw_whole)
        elif framing.startswith("chunked"):   # the payload is cut, then legally encoded in two chunks
            sent = Sent(body[:cut], b"", b"")
            raw = b"".join(stubs_c12.chunked_pieces([body[:cut // 2], body[cut // 2:cut]], ext))
            env["HTTP_TRANSFER_ENCODING"] = "chunked"
            stream = stubs.SymStream(len(raw), [f1], data=raw)
        else:                            # the declared length is that of the whole skeleton, the stream ends early
            sent = Sent(body[:cut], b"", b"")
            env["CONTENT_LENGTH"] = str(n)
            stream = stubs.SymStream(cut, [f1], data=body)
        res = serve(kind, stream, t, env)
        return judge(kind, res, sent, boundary), observed(res)
    return checked(q)


CUT_TEXTS = {
    # tag: (content type, body, handler)
    "json": (JSON_CTYPE, b'{"a":[1,"b"]}', "json"),
    "form": (FORM_CTYPE, b"a=1&b=%41+c", "forms"),
    "raw": ("application/octet-stream", b"\x00\r\n0\r\n\r\n;", "body"),
    "json-forms": (JSON_CTYPE, b'{"a":"1"}', "forms"),
}


def make_chunked_cut(tag, ext):
    """a JSON / urlencoded / opaque body in two chunks (with or without chunk extensions), the encoded stream cut at
    every offset: inside size lines, extensions, chunk data, the CRLFs and the last-chunk line"""
    ctype, text, kind = CUT_TEXTS[tag]
    n = len(text)
    raw = b"".join(stubs_c12.chunked_pieces([text[:n // 2], text[n // 2:]], ext))
    tmin = max(n, len(ext) + 4)

    def q(cut: int, t: int):
        assume(0 <= cut <= len(raw) and tmin <= t <= tmin + 1)
        stream = stubs.SymStream(cut, [], data=raw)
        res = serve(kind, stream, t, {"CONTENT_TYPE": ctype, "HTTP_TRANSFER_ENCODING": "chunked"})
        return judge(kind if kind == "body" else "json", res, Sent(text, b"", b""), b""), observed(res)
    return checked(q)


def make_mp_buffer(tag, kind, framing):
    """whole concrete skeleton, every buffer size = max_memfile_size (read division, 413 of the field budget, spool switch)"""
    boundary, body, _ = SKELETONS[tag]
    n = len(body)

    def q(t: int, f1: int):
        assume(3 <= t <= n + 1 and 1 <= f1 <= 3)
        sent = Sent(body, b"", b"")
        env = {"CONTENT_TYPE": MP_CTYPE % boundary.decode()}
        if framing == "chunked":
            raw = b"".join(stubs_c12.chunked_pieces([body[:n // 3], body[n // 3:]]))
            env["HTTP_TRANSFER_ENCODING"] = "chunked"
            stream = stubs.SymStream(len(raw), [], data=raw)
        else:
            env["CONTENT_LENGTH"] = str(n)
            stream = stubs.SymStream(n, [f1], data=body)
        res = serve(kind, stream, t, env)
        return judge(kind, res, sent, boundary), observed(res)
    return checked(q)


def make_mp_declared(tag, kind):
    """Content-Length smaller than what the client sends: the text is the declared prefix"""
    boundary, body, _ = SKELETONS[tag]
    n = len(body)

    def q(declared: int, t: int):
        assume(0 <= declared <= n and n - 1 <= t <= n)
        declared = int(declared)
        sent = Sent(body[:declared], b"", b"")
        stream = stubs.SymStream(n, [], data=body)
        env = {"CONTENT_TYPE": MP_CTYPE % boundary.decode(), "CONTENT_LENGTH": str(declared)}
        res = serve(kind, stream, t, env)
        return judge(kind, res, sent, boundary), observed(res)
    return checked(q)


# ================================================================ content-type spellings of multipart
MP_SPELLINGS = {
    "no-boundary": "multipart/form-data",
    "empty-boundary": "multipart/form-data; boundary=",
    "upper-type": "Multipart/Form-Data; boundary=b",
    "upper-param": "multipart/form-data; Boundary=b",
    "quoted": 'multipart/form-data; boundary="b"',
    "no-space": "multipart/form-data;boundary=b",
    "mixed": "multipart/mixed; boundary=b; charset=utf-8",
    "cr-in-boundary": "multipart/form-data; boundary=b\rc",
}


def make_mp_spelling(ctype, kind):
    boundary, body, _ = SKELETONS["text"]

    def q(cut: int, t: int):
        assume(0 <= cut <= len(body) and 60 <= t <= 62)
        cut = int(cut)
        sent = Sent(body[:cut], b"", b"")
        stream = stubs.SymStream(cut, [], data=body)
        res = serve(kind, stream, t, {"CONTENT_TYPE": ctype, "CONTENT_LENGTH": str(cut)})
        return judge(kind, res, sent, boundary), observed(res)
    return checked(q)


# ================================================================ JSON
JSON_HOLES = {
    # tag: (prefix, symbolic bytes, suffix)
    "obj-open": (b"{", 2, b""),
    "arr": (b"[1]", 2, b""),
    "num": (b"1", 2, b""),
    "str": (b'"x"', 2, b""),
    "nul": (b"nul", 2, b""),
    "member-value": (b'{"a":', 2, b"}"),
    "member-key": (b'{"', 1, b'":1}'),
    "any2": (b"", 2, b""),
    "escape": (b'{"a":"\\', 2, b'"}'),
    "nested": (b'{"a":[1,{"b":', 2, b"}]}"),
    "two-values": (b"{}", 2, b"[]"),
    "any3": (b"", 3, b""),
    "member-value3": (b'{"a":', 3, b"}"),
    "tail1": (b'{"a":1}', 1, b""),
    "any1": (b"", 1, b""),
    "value1": (b'{"a":', 1, b"}"),
    "in-string1": (b'{"a":"', 1, b'"}'),
}
JSON_TEXTS = {"deep-array": b"[" * 2000, "deep-object": b'{"a":' * 2000, "deep-closed": b"[" * 1500 + b"]" * 1500,
              "digits": b"9" * 5000, "utf16": "{}".encode("utf-16"), "utf8-bom": b"\xef\xbb\xbf[]",
              "high-byte": b'{"a":"\xff"}', "object": b'{"a":"1","b":[2]}'}


def make_json_hole(tag, kind, framing, model):
    prefix, k, suffix = JSON_HOLES[tag]

    def q(h: bytes):
        assume(len(h) == k)
        if model:
            for c in h:
                assume(1 <= c <= 127)
        sent = Sent(prefix, h, suffix)
        stream, env = framed([sent.whole()], sent, framing, JSON_CTYPE)
        res = serve(kind, stream, 64, env, json_model=model)
        fail = judge("json", res, sent, b"")
        if fail is None and res.seen:
            cover("decoded")
            if kind == "forms" and len(res.seen[0]):
                cover("object-delivered")
        return fail, observed(res)
    return checked(q)


def make_json_text(text, kind):
    """concrete text through the real json.loads; buffer size, short read and framing are the symbolic part"""
    n = len(text)

    def q(t: int, f1: int, chunked: bool):
        assume(n <= t <= n + 2 and 1 <= f1 <= 4)
        sent = Sent(text, b"", b"")
        if chunked:
            raw = b"".join(stubs_c12.chunked_pieces([text]))
            stream = stubs.SymStream(len(raw), [], data=raw)
            env = {"CONTENT_TYPE": JSON_CTYPE, "HTTP_TRANSFER_ENCODING": "chunked"}
        else:
            stream = stubs.SymStream(n, [f1], data=text)
            env = {"CONTENT_TYPE": JSON_CTYPE, "CONTENT_LENGTH": str(n)}
        res = serve(kind, stream, t, env)
        return judge("json", res, sent, b""), observed(res)
    return checked(q)


# ================================================================ urlencoded / unlabelled text
def make_form_any(n, ctype, framing, t):
    def q(b: bytes):
        assume(len(b) <= n)
        sent = Sent(b"", b, b"")
        stream, env = framed([b], sent, framing, ctype)
        res = serve("forms", stream, t, env)
        fail = judge("json", res, sent, b"")           # status only: the values of urlencoded forms are C18's subject
        if fail is None and res.seen and len(res.seen[0]):
            cover("pair-delivered")
        return fail, observed(res)
    return checked(q)


LIMIT_FORM = b"a=1&bb=22&c=3"
LIMIT_PAIRS = [("a", "1"), ("bb", "22"), ("c", "3")]


def make_form_limit():
    """a well-formed urlencoded form around the in-memory limit: answered 2xx with every pair complete, or refused with
    a 4xx - never 2xx with part of the form"""
    def q(t: int, chunked: bool, two: bool):
        assume(1 <= t <= len(LIMIT_FORM) + 2)
        pieces = [LIMIT_FORM[:5], LIMIT_FORM[5:]] if two else [LIMIT_FORM]
        sent = Sent(LIMIT_FORM, b"", b"")
        stream, env = framed(pieces, sent, "chunked" if chunked else "cl", FORM_CTYPE)
        res = serve("forms", stream, t, env)
        fail, cls = judge_status(res)
        if fail:
            return fail, observed(res)
        if cls == "2":
            got = sorted((k, v) for k, v in (res.seen[0] if res.seen else []))
            if got != sorted(LIMIT_PAIRS):
                return "form of %d bytes, max_memfile_size %d, %s: answered %s with the fields %r, sent %r" % (
                    len(LIMIT_FORM), t, "chunked" if chunked else "Content-Length", res.calls[0], got, LIMIT_PAIRS), observed(res)
            cover("complete")
        else:
            cover("refused")
        return None, observed(res)
    return checked(q)


# ================================================================ no hang: long header lines / content types
# "never a hang": every regular expression on the body path (REGEX_SITES) is run by a backtracking interpreter of its
# current parse tree that counts steps; more than 50*L*L+1000 steps on a text of L characters is the failure (O1h).
# Quadratic time is tolerated, anything steeper is over the budget from ~40 characters on.  What is long here is a
# `pump`: a unit of 1-2 characters repeated up to a run length picked by the solver from a list; the characters at the
# joints of the line are fully symbolic bytes.
HANG_KEYS = {
    # tag: (header lines in front, start of the line that carries the parameter, key, handler)
    "name": ([], b"Content-Disposition: form-data; ", b"name", "forms"),
    "filename": ([], b'Content-Disposition: form-data; name="f"; ', b"filename", "files"),
    "other": ([], b'Content-Disposition: form-data; name="f"; ', b"x", "forms"),
    "ctype": ([b'Content-Disposition: form-data; name="f"; filename="a"'], b"Content-Type: t/p; ", b"charset", "files"),
}
HANG_SHAPES = {
    # tag: (template of the parameter: S key, P pump, ? symbolic byte; what)
    "q-open": (b'S="?P', "opening quote, a free byte, the pump, no closing quote"),
    "q-last": (b'S="P?', "opening quote, the pump, a free byte, no closing quote"),
    "q-close": (b'S="P"?; z=1', "quoted pump, a free byte after the closing quote, another parameter"),
    "q-close-last": (b'S="P"?', "quoted pump, a free byte after the closing quote ends the line"),
    "q-both": (b'S="?P"?; z=1', "quoted: a free byte, the pump; a free byte after the closing quote, another parameter"),
    "q-inner": (b'S="?P?"; z=1', "quoted: a free byte, the pump, a free byte; another parameter"),
    "bare": (b"S=P?; z=1", "unquoted pump, a free byte, another parameter"),
    "bare-last": (b"S=?P?", "unquoted: a free byte, the pump, a free byte ends the line"),
    "key": (b"P=?; z=1", "the pump as parameter key, a free byte as its value, another parameter"),
}


def hang_segments(template, key, pump):
    """[(bytes, is_symbolic placeholder)] of a parameter template"""
    out = []
    for i in range(len(template)):
        c = template[i:i + 1]
        out.append((None, True) if c == b"?" else (key if c == b"S" else pump if c == b"P" else c, False))
    return out


def make_hang_field(keytag, shape, units, lengths, framing, whole):
    """a part whose header line `keytag` carries the parameter `shape`; pump unit and run length picked by the solver"""
    front, start, key, kind = HANG_KEYS[keytag]
    template = HANG_SHAPES[shape][0]
    k = template.count(b"?")
    head = b"--b\r\n" + b"".join(line + CRLF for line in front)
    tail = CRLF + CRLF + b"xy" + CRLF + b"--b--" + CRLF

    def q(h: bytes, u: int, n: int):
        assume(len(h) == k and 0 <= u < len(units) and 0 <= n < len(lengths))
        unit, length = units[u], lengths[n]
        pump = (unit * length)[:length]
        segs, j = [(head + start, False)], 0
        for data, symbolic in hang_segments(template, key, pump):
            if symbolic:
                segs.append((h[j:j + 1], True))
                j += 1
            else:
                segs.append((data, False))
        sent = Sent.of(segs + [(tail, False)])
        cut1, cut2 = len(head) + len(start) - 2, sent.n - len(tail) + 1
        pieces = [sent.whole()] if whole else [sent.slice(0, cut1), sent.slice(cut1, cut2), sent.slice(cut2, sent.n)]
        stream, env = framed(pieces, sent, framing, MP_CTYPE % "b")
        res = serve(kind, stream, 2048, env, counted=True)
        fail = judge(kind, res, sent, b"b")
        return fail, observed(res)
    return checked(q)


HANG_CTYPES = {
    # tag: template of the Content-Type: P pump, ? free character (U+0001..U+00FF), C one of CTYPE_MARKS picked by the solver
    # (a free character inside the boundary value would be hashed by the multipart scanner: one path per value)
    "before-key": "multipart/P?boundary=b",
    "no-key": "multipart/P?boundary",
    "value-end": "multipart/x; boundary=PC",
    "after-value": "multipart/x; boundary=bPC; q=1",
    "both": "multipart/P?boundary=PC",
    "quoted": 'multipart/x; boundary="PCP',
    "no-key-marks": "multipart/PCboundaryP",
    "empty-value": "multipart/PC; boundary=",
}
CTYPE_MARKS = [";", '"', "\n", " ", "=", "\\", "a", "\t", ","]     # (a CR in the boundary: see mp/ctype/cr-in-boundary)


def make_hang_ctype(tag, units, lengths, kind):
    """long Content-Type values: the boundary parser of BodyMixin._body (and what else reads the content type)"""
    body = b""        # nothing to scan with the boundary: that is the subject of mp/ctype and of C07
    template = HANG_CTYPES[tag]
    free, marks = "?" in template, "C" in template

    def q(o: int, m: int, u: int, n: int):
        assume(0 <= u < len(units) and 0 <= n < len(lengths))
        assume((1 <= o <= 255 if free else o == 0) and (0 <= m < len(CTYPE_MARKS) if marks else m == 0))
        unit, length = units[u], lengths[n]
        pump = (unit * length)[:length]
        ctype = ""
        for c in template:
            ctype = ctype + (chr(o) if c == "?" else CTYPE_MARKS[m] if c == "C" else pump if c == "P" else c)
        sent = Sent(body, b"", b"")
        stream = stubs_c12.PieceStream([body])
        res = serve(kind, stream, 256, {"CONTENT_TYPE": ctype, "CONTENT_LENGTH": str(len(body))}, counted=True)
        fail = judge("json", res, sent, b"")            # status and termination; which boundary comes out is C07's subject
        return fail, observed(res)
    return checked(q)


def make_hang_block(units, lengths, kind, framing, whole):
    """a header block of many lines: name line, `count` filler lines `X: pump`, then two free bytes where the blank
    line should start - the header-block scanner (end_headers_patt) and the line splitter on long blocks; `whole`: the
    body arrives in one read, so the scanner sees the pump and what follows it in one text"""
    def q(h: bytes, u: int, n: int):
        assume(len(h) == 2 and 0 <= u < len(units) and 0 <= n < len(lengths))
        unit, length = units[u], lengths[n]
        pump = (unit * length)[:length]
        pre = b"--b\r\n" + G.H(b"f", b"a" if kind == "files" else None)[0] + CRLF + b"X: " + pump
        post = CRLF + b"xy" + CRLF + b"--b--" + CRLF
        sent = Sent(pre, h, post)
        stream, env = framed([sent.whole()] if whole else sent.pieces(3, 3), sent, framing, MP_CTYPE % "b")
        res = serve(kind, stream, 2048, env, counted=True)
        return judge(kind, res, sent, b"b"), observed(res)
    return checked(q)


# ================================================================ query list
E4, OK2, BOTH = ["status-4xx"], ["status-2xx", "delivered"], ["status-4xx", "status-2xx", "delivered"]
# (skeleton, site, handler, labels that must be reachable, CPU seconds measured on the unchanged tree)
HOLES_QUICK = [
    ("text", "start", "forms", BOTH, 35), ("text", "colon", "forms", BOTH, 14), ("ctype", "ctype-colon", "files", BOTH, 16),
    ("file", "filename-val", "files", BOTH, 15), ("two", "mid-delim-after", "files", OK2, 15),
    ("ctype", "ctype-value", "files", BOTH, 14), ("two", "mid-delim-bound", "files", BOTH, 13),
    ("text", "after-delim", "forms", OK2, 9), ("text", "data", "forms", BOTH, 5),
    ("text", "name-1", "forms", E4, 4), ("text", "hvalue-1", "forms", E4, 3), ("text", "blank-tail", "forms", OK2, 3),
    ("file", "name-none", "files", E4, 3), ("file", "data", "files", OK2, 3), ("text", "blank", "forms", ["status-2xx"], 2),
    ("dup", "mid-delim-after", "forms", OK2, 2), ("dup", "mid-delim-bound", "forms", BOTH, 2),
    ("text", "closing", "forms", OK2, 2), ("text", "delim-cr", "forms", BOTH, 1), ("text", "delim-dash", "forms", BOTH, 1),
    ("text", "delim-bound", "forms", BOTH, 1), ("file", "delim-dash", "files", BOTH, 1),
    ("text", "hvalue-none", "forms", E4, 1), ("text", "name-none", "forms", E4, 1), ("text", "end", "forms", OK2, 1),
]
HOLES_QUICK_CHUNKED = [("text", "colon", "forms", BOTH, 14), ("text", "after-delim", "forms", OK2, 9),
                       ("text", "data", "forms", BOTH, 5), ("text", "delim-bound", "forms", BOTH, 1),
                       ("file", "data", "files", OK2, 3)]
HOLES_THOROUGH = [
    ("text", "hname", "forms", BOTH, 470), ("file", "filename-key", "files", ["status-4xx", "status-2xx"], 365),
    ("text", "colon+1", "forms", BOTH, 230), ("text", "name-key", "forms", BOTH, 190), ("text", "name-eq", "forms", BOTH, 180),
    ("ctype", "filename-quoted", "files", BOTH, 35), ("file", "filename-quoted", "files", BOTH, 20),
    ("ctype", "line-break", "files", BOTH, 70), ("text", "preamble", "forms", E4, 46), ("file", "name-val", "files", BOTH, 40),
    ("text", "name-val", "forms", BOTH, 25), ("text", "hvalue-2", "forms", E4, 16),
]
# pump units by group name
UNITS = {
    "plain": [b"a"], "marks": [b"=", b'"', b"\\", b" "], "plain+marks": [b"a", b"=", b'"', b"\\", b" "],
    "pairs": [b"a=", b'="', b'\\"', b'""', b'a"', b"a\\"], "pairs-a": [b"a=", b'="', b'\\"'],
    "pairs-b": [b'""', b'a"', b"a\\"], "semis": [b";", b"a;", b"; "], "semi": [b";"],
    "plain+space": [b"a", b" "],
    "ct": ["a", "=", ";", "boundary=", '"'], "ct-plain": ["a"], "ct-marks": ["a", "=", ";", '"'], "ct-two": ["a", ";"],
    "block": [b"a", b"\r", b"\n", b"\n\r", b"\r\nY:", b": "], "block-few": [b"a", b"\r", b"\n\r"],
}
# (line, shape, pump unit group, run lengths, framing, one read, CPU seconds measured on the unchanged tree)
# a free byte that ends up in a parameter KEY is hashed by parse_header (one path per value): the `;` pumps go with the
# shape whose free byte is inside a value in quick, with other shapes in thorough
HANG_QUICK = [
    ("name", "q-open", "plain", (64, 150), "cl", False, 16), ("filename", "q-close", "plain", (64, 150), "chunked", False, 20),
    ("other", "bare", "plain", (120,), "cl", True, 8), ("ctype", "q-last", "plain", (120,), "cl", False, 11),
    ("filename", "q-close", "marks", (96,), "cl", False, 36), ("name", "bare", "marks", (96,), "cl", False, 31),
    ("name", "q-close", "pairs-a", (96,), "cl", False, 25), ("filename", "q-open", "pairs-b", (96,), "cl", False, 23),
    ("other", "q-open", "semis", (96,), "cl", False, 24), ("name", "key", "plain+space", (96,), "cl", False, 12),
]
ONE_FREE = ["q-open", "q-last", "q-close", "q-close-last", "bare", "key"]
HANG_THOROUGH = [
    (["name", "filename", "other", "ctype"][(i + j) % 4], shape, group, (40, 200), ["cl", "chunked"][(i + j) % 2],
     (i + j) % 3 == 2, 120)
    for i, shape in enumerate(ONE_FREE) for j, group in enumerate(("plain+marks", "pairs"))
] + [("filename", "q-open", "semis", (40, 200), "cl", False, 50),
     ("other", "q-last", "semi", (96,), "cl", False, 160), ("name", "bare", "semi", (96,), "cl", False, 160),
     ("name", "q-both", "plain", (96,), "cl", False, 215), ("filename", "q-inner", "plain", (96,), "cl", False, 60),
     ("other", "bare-last", "plain", (96,), "chunked", False, 60)]
# (template, pump unit group, run lengths, handler, CPU seconds)
HANG_CTYPE_QUICK = [("quoted", "ct", (60, 150), "forms", 19), ("before-key", "ct-plain", (60,), "forms", 11),
                    ("no-key-marks", "ct", (60, 150), "forms", 12)]
HANG_CTYPE_THOROUGH = [("value-end", "ct", (60, 150), "forms", 13), ("after-value", "ct", (60, 150), "files", 10), ("before-key", "ct-marks", (40, 150), "forms", 70),
                       ("no-key", "ct-marks", (40, 150), "forms", 70), ("both", "ct-two", (96,), "forms", 175),
                       ("empty-value", "ct", (60, 150), "forms", 12)]
# (pump unit group, run lengths, handler, framing, one read, CPU seconds)
HANG_BLOCK_QUICK = [("block-few", (100,), "forms", "cl", True, 30)]
HANG_BLOCK_THOROUGH = [("block", (60, 150), "forms", "cl", False, 145), ("block", (60, 150), "files", "chunked", False, 65),
                       ("block", (60, 150), "files", "cl", True, 145), ("block-few", (100,), "forms", "cl", False, 10)]
JSON_QUICK = ["obj-open", "arr", "num", "str", "nul", "member-value", "member-key", "any2", "escape", "nested", "two-values"]


def queries(tier):
    T = tier == "thorough"
    out = []

    def add(qid, fn, bound, timeout, labels, family, config=None):
        out.append(Q(qid, fn, bound, timeout=timeout, expect_cover=list(labels), family=family, config=config))

    def hole(tag, name, kind, framing, labels, cpu, ctx=(2, 2)):
        pos, ndel, k, what = mp_site(tag, name)
        boundary, body, t = SKELETONS[tag]
        add("mp/hole/%s/%s/%s/%s/w%d-%d" % (tag, name, kind, framing, ctx[0], ctx[1]),
            make_mp_hole(tag, name, kind, framing, t, ctx[0], ctx[1]),
            "multipart skeleton %r = %r: %s, i.e. bytes [%d:%d] replaced by %d fully symbolic byte(s) (all 256 values "
            "each); handler reads request.%s; %s framing; max_memfile_size = buffer = %d; the symbolic bytes arrive in one "
            "read together with %d byte(s) before and %d after" % (tag, body, what, pos, pos + ndel, k, kind, framing, t,
                                                                     ctx[0], ctx[1]),
            max(60, 3 * cpu), labels, "mp/hole",
            {"skeleton": tag, "site": name, "pos": pos, "ndel": ndel, "k": k, "handler": kind, "framing": framing,
             "buffer": t, "context": list(ctx)})

    # ---- multipart: symbolic bytes at the mutated site
    if T:
        for tag, name, kind, labels, cpu in HOLES_THOROUGH:
            hole(tag, name, kind, "cl", labels, cpu)
    for tag, name, kind, labels, cpu in HOLES_QUICK:
        hole(tag, name, kind, "cl", labels, cpu)
    for tag, name, kind, labels, cpu in (HOLES_QUICK if T else HOLES_QUICK_CHUNKED):
        hole(tag, name, kind, "chunked", labels, cpu)
    if T:   # other divisions of the window into reads, for the sites that are cheap
        for ctx in ((0, 0), (6, 1), (1, 6)):
            for tag, name, kind, labels, cpu in HOLES_QUICK:
                if cpu <= 6 and name != "delim-dash":   # there the parser's error text realises both bytes: 65536 paths
                    hole(tag, name, kind, "cl", ["answered"], cpu * 2, ctx)

    # ---- multipart: data made of pieces of the delimiter, aligned to the parser's stride by a symbolic pad
    data = [(b"b", 1, "forms", "cl"), (b"b", 2, "files", "chunked")]
    if T:
        data = [(bd, rest, kind, framing) for bd in (b"b", b"sep") for rest in range(1, len(bd) + 4)
                for kind, framing in (("forms", "cl"), ("files", "chunked"))]
    for bd, rest, kind, framing in data:
        add("mp/data/%s/rest%d/%s/%s" % (bd.decode(), rest, kind, framing), make_mp_data(bd, rest, kind, framing),
            "boundary %r, %s part whose data is `pad` filler bytes (pad symbolic, 0..%d) + %r with both '?' fully symbolic: "
            "a window of the parser's stride (%d bytes, counted from the start of the data, which arrives in one read) "
            "ends in the first %d bytes of the delimiter, the next window starts with a free byte, a later one with a "
            "free byte + the rest of the delimiter; a second part follows; handler reads request.%s; %s framing"
            % (bd, "file" if kind == "files" else "text", len(bd) + 3, data_template(bd, rest), len(bd) + 4,
               len(bd) + 4 - rest, kind, framing), 240 if not T else 900, ["status-2xx", "delivered"], "mp/data",
            {"boundary": bd.decode(), "rest": rest, "handler": kind, "framing": framing})

    # ---- multipart: truncation, buffer sizes, declared length, arbitrary short bodies
    trunc = [("text", "forms", "cl"), ("text", "forms", "chunked"), ("file", "files", "chunked-raw"), ("two", "files", "cl"),
             ("text", "forms", "chunked-ext-raw")]
    if T:
        trunc += [("text", "forms", "chunked-raw"), ("file", "files", "cl"), ("file", "files", "chunked"),
                  ("two", "files", "chunked"), ("two", "forms", "cl"), ("ctype", "files", "cl"), ("dup", "forms", "cl"),
                  ("file", "files", "chunked-ext-raw"), ("two", "files", "chunked-ext-raw"), ("text", "forms", "chunked-ext"),
                  ("two", "files", "chunked-ext")]
    for tag, kind, framing in trunc:
        body = SKELETONS[tag][1]
        how = {"cl": "Content-Length = %d declared, the stream ends after `cut` bytes" % len(body),
               "chunked": "the first `cut` bytes legally chunk-encoded (two chunks)",
               "chunked-raw": "the chunk-encoded skeleton (two chunks), stream cut after `cut` bytes",
               "chunked-ext": "the first `cut` bytes legally chunk-encoded (two chunks, extension %r on every size line)"
               % CHUNK_EXT,
               "chunked-ext-raw": "the chunk-encoded skeleton (two chunks, extension %r on every size line incl. the last "
               "chunk), stream cut after `cut` bytes - also inside an extension" % CHUNK_EXT}[framing]
        add("mp/truncate/%s/%s/%s" % (tag, kind, framing), make_mp_truncate(tag, kind, framing),
            "multipart skeleton %r = %r truncated at every offset `cut` (symbolic): %s; buffer = max_memfile_size in "
            "[len, len+1], first read short by 1..2; handler reads request.%s" % (tag, body, how, kind),
            150 if not T else 400, ["status-4xx", "status-2xx", "delivered"], "mp/truncate",
            {"skeleton": tag, "handler": kind, "framing": framing})
    for tag, kind, framing in ([("two", "files", "cl"), ("text", "forms", "chunked")] if not T else
                               [("two", "files", "cl"), ("text", "forms", "chunked"), ("two", "forms", "chunked"),
                                ("ctype", "files", "cl"), ("text", "forms", "cl")]):
        add("mp/buffer/%s/%s/%s" % (tag, kind, framing), make_mp_buffer(tag, kind, framing),
            "whole multipart skeleton %r, every buffer size = max_memfile_size in [3, len+1] (symbolic), %s; handler "
            "reads request.%s" % (tag, "first read short by 1..3 bytes" if framing == "cl" else "two chunks", kind),
            150 if not T else 400, ["status-4xx", "status-2xx", "delivered"], "mp/buffer",
            {"skeleton": tag, "handler": kind, "framing": framing})
    for tag, kind in ([("two", "files")] if not T else [("two", "files"), ("text", "forms")]):
        add("mp/declared/%s/%s" % (tag, kind), make_mp_declared(tag, kind),
            "multipart skeleton %r sent whole with every smaller Content-Length (symbolic): the text is the declared "
            "prefix; buffer in [len-1, len]" % tag, 150 if not T else 400, ["status-4xx", "status-2xx"], "mp/declared",
            {"skeleton": tag, "handler": kind})
    for kind, framing, where in ([("forms", "cl", "charset")] if not T else
                                 [("forms", "cl", "charset"), ("forms", "chunked", "upper"), ("files", "cl", "charset"),
                                  ("forms", "cl", "second")]):
        add("mp/charset/%s/%s/%s" % (kind, framing, where), make_mp_charset(kind, framing, where),
            "one %s part whose own Content-Type line carries a charset parameter (spelling %r) naming one of %d charsets "
            "(solver index: text codecs, non-text codecs hex/base64/rot13/zlib, unknown names, odd spellings) and two fully "
            "symbolic data bytes; handler reads request.%s; %s framing" % (
                "upload" if kind == "files" else "text", where, len(PART_CHARSETS), kind, framing),
            200 if not T else 600, ["status-2xx", "delivered"], "mp/charset", {"handler": kind, "framing": framing, "where": where})
    for kind, framing, which in ([("files", "cl", b"filename")] if not T else
                                 [("files", "cl", b"filename"), ("forms", "cl", b"name"), ("files", "chunked", b"name"), ("forms", "cl", b"filename")]):
        add("mp/extparam/%s/%s/%s" % (kind, framing, which.decode()), make_mp_extparam(kind, framing, which),
            "one part whose Content-Disposition carries the extended-notation parameter %s*=<charset>'<lang>'<value> (RFC 5987): "
            "charset one of %d labels incl. registered ones python has no codec for, value one of %d (percent-escapes, broken "
            "escapes, none), with / without the plain twin and the language tag (solver bool); "
            "handler reads request.%s; %s framing" % (which.decode(), len(EXT_CHARSETS), len(EXT_VALUES), kind, framing),
            200 if not T else 600, ["status-2xx"], "mp/extparam", {"handler": kind, "framing": framing, "which": which.decode()})
    for n, kind, framing in ([(1, "forms", "cl")] if not T else [(3, "forms", "cl"), (2, "files", "chunked")]):
        add("mp/any/%s/%s/len%d" % (kind, framing, n), make_mp_any(n, kind, framing),
            "every byte string of length <= %d as the body of a multipart request (boundary b), handler reads request.%s, "
            "%s framing" % (n, kind, framing), 150 if not T else 600, ["status-4xx", "status-2xx"], "mp/any")

    # ---- no hang: long header lines, long header blocks, long content types (step-counted regular expressions)
    def show(units):
        return ", ".join(repr(x)[1:] if isinstance(x, bytes) else repr(x) for x in units)

    def lens(lengths):
        return ", ".join(str(x) for x in lengths)

    O1H = "every regular expression of the body path is interpreted with a step count and must finish within " \
          "50*L*L+1000 steps on a text of L characters"
    for keytag, shape, group, lengths, framing, whole, cpu in (HANG_THOROUGH + HANG_QUICK if T else HANG_QUICK):
        front, start, key, kind = HANG_KEYS[keytag]
        template, what = HANG_SHAPES[shape]
        units = UNITS[group]
        add("hang/field/%s/%s/%s/%s%s/n%s" % (keytag, shape, group, framing, "-whole" if whole else "",
                                             "-".join(str(x) for x in lengths)),
            make_hang_field(keytag, shape, units, lengths, framing, whole),
            "multipart body (boundary b) with one part whose header line %r carries the parameter %r (S = %r, each '?' a "
            "fully symbolic byte, all 256 values; P = the pump: one of the units {%s} repeated and cut to a run length "
            "from {%s}, unit and length picked by the solver) - %s; header lines up to %d characters; %s framing, %s; "
            "max_memfile_size 2048; handler reads request.%s; %s"
            % ((front + [start])[-1] + b"...", template, key, show(units), lens(lengths), what,
               len(start) + len(template) + len(key) + max(lengths), framing,
               "the body arrives in one read" if whole else "the parameter arrives in a read of its own", kind, O1H),
            max(90, 3 * cpu), ["answered", "status-4xx"], "hang/field",
            {"line": keytag, "shape": shape, "units": [x.decode("latin1") for x in units], "lengths": list(lengths),
             "framing": framing, "whole": whole, "handler": kind})
    for tag, group, lengths, kind, cpu in (HANG_CTYPE_THOROUGH + HANG_CTYPE_QUICK if T else HANG_CTYPE_QUICK):
        units = UNITS[group]
        add("hang/ctype/%s/%s/%s/n%s" % (tag, group, kind, "-".join(str(x) for x in lengths)),
            make_hang_ctype(tag, units, lengths, kind),
            "Content-Type %r with P = one of the units {%s} repeated and cut to a run length from {%s}, '?' = a free "
            "character U+0001..U+00FF, C = one of {%s} (unit, length and C picked by the solver): values up to %d "
            "characters; empty body; handler reads request.%s; %s"
            % (HANG_CTYPES[tag], show(units), lens(lengths), show(CTYPE_MARKS),
               len(HANG_CTYPES[tag]) + HANG_CTYPES[tag].count("P") * max(lengths), kind, O1H),
            max(90, 3 * cpu), ["answered"], "hang/ctype",
            {"template": HANG_CTYPES[tag], "units": list(units), "lengths": list(lengths), "handler": kind})
    for group, lengths, kind, framing, whole, cpu in (HANG_BLOCK_THOROUGH + HANG_BLOCK_QUICK if T else HANG_BLOCK_QUICK):
        units = UNITS[group]
        add("hang/block/%s/%s/%s%s/n%s" % (group, kind, framing, "-whole" if whole else "", "-".join(str(x) for x in lengths)),
            make_hang_block(units, lengths, kind, framing, whole),
            "multipart part whose header block is the name line + 'X: ' + P + two fully symbolic bytes + CRLF + data, P = "
            "one of the units {%s} repeated and cut to a run length from {%s} (picked by the solver); %s; %s framing; "
            "handler reads request.%s; %s"
            % (show(units), lens(lengths), "the body arrives in one read" if whole else
               "the free bytes arrive with 3 bytes of context in a read of their own", framing, kind, O1H),
            max(90, 3 * cpu), ["answered", "status-2xx"], "hang/block",
            {"units": [x.decode("latin1") for x in units], "lengths": list(lengths), "handler": kind, "framing": framing,
             "whole": whole})

    # ---- chunked stream of a JSON / urlencoded / opaque body cut at every offset, with and without chunk extensions
    for tag, ext in ([("json", CHUNK_EXT), ("form", CHUNK_EXT)] if not T else
                     [(tag, ext) for tag in CUT_TEXTS for ext in (CHUNK_EXT, b"", b";x")]):
        ctype, text, kind = CUT_TEXTS[tag]
        add("chunked/cut/%s/%s" % (tag, "ext-" + ext[1:].decode() if ext else "plain"), make_chunked_cut(tag, ext),
            "%s body %r in two chunks, extension %r on every size line, the encoded stream cut at every offset (symbolic; "
            "inside size lines, extensions, data, CRLFs, last-chunk line); buffer two values from max(len, size line); "
            "handler reads request.%s" % (ctype, text, ext, kind), 150 if not T else 400,
            ["status-4xx", "status-2xx"], "chunked/cut", {"body": tag, "extension": ext.decode(), "handler": kind})

    # ---- multipart content types that do not yield a boundary
    for tag, ctype in MP_SPELLINGS.items():
        for kind in (["forms"] if not T else ["forms", "files", "body"]):
            add("mp/ctype/%s/%s" % (tag, kind), make_mp_spelling(ctype, kind),
                "Content-Type %r, body = every prefix of skeleton 'text' (cut symbolic), buffer 60..62, handler reads "
                "request.%s" % (ctype, kind), 100, ["answered"], "mp/ctype", {"content_type": ctype, "handler": kind})

    # ---- JSON
    for tag in JSON_QUICK + (["any3", "member-value3"] if T else []):
        prefix, k, suffix = JSON_HOLES[tag]
        for kind in (["json"] + (["forms"] if T or tag in ("member-value", "any2", "obj-open", "arr", "num") else [])):
            for framing in (["cl"] if not T else ["cl", "chunked"]):
                if T and framing == "chunked" and k == 3:
                    continue
                add("json/model/%s/%s/%s" % (tag, kind, framing), make_json_hole(tag, kind, framing, True),
                    "application/json body %r + %d symbolic byte(s) in 0x01..0x7f + %r, decoded by the PyJson model; "
                    "handler reads request.%s; %s framing" % (prefix, k, suffix, kind, framing),
                    100 if k < 3 else 500, ["status-4xx"] + (["decoded"] if kind == "json" and tag != "two-values" else []),
                    "json/model",
                    {"prefix": prefix.decode(), "k": k, "suffix": suffix.decode(), "handler": kind, "framing": framing})
    for tag in ("any1", "tail1", "value1", "in-string1"):
        prefix, k, suffix = JSON_HOLES[tag]
        for kind in ("json", "forms"):
            add("json/real/%s/%s" % (tag, kind), make_json_hole(tag, kind, "cl", False),
                "application/json body %r + one symbolic byte (all 256 values) + %r through the real json.loads; handler "
                "reads request.%s" % (prefix, suffix, kind), 100, ["status-4xx"] + ([] if (tag, kind) == ("any1", "forms") else ["status-2xx"]), "json/real",
                {"prefix": prefix.decode(), "k": k, "suffix": suffix.decode(), "handler": kind})
    for tag, text in JSON_TEXTS.items():
        for kind in (["json"] if not T else ["json", "forms"]):
            shown = text if len(text) <= 24 else text[:10] + b"..." + text[-6:]
            add("json/text/%s/%s" % (tag, kind), make_json_text(text, kind),
                "application/json body %r (%d bytes) through the real json.loads; buffer in [len, len+2], first short "
                "read 1..4 and the framing are symbolic; handler reads request.%s" % (shown, len(text), kind),
                100, ["answered"], "json/text", {"text": tag, "length": len(text), "handler": kind})

    # ---- urlencoded and unlabelled text
    forms = [(3, FORM_CTYPE, "cl", 64), (2, FORM_CTYPE, "chunked", 64), (3, "text/plain", "cl", 2)]
    if T:
        forms += [(3, FORM_CTYPE, "chunked", 64), (3, "", "cl", 64), (4, FORM_CTYPE, "cl", 3)]
    add("form/limit", make_form_limit(), "the urlencoded form %r, max_memfile_size every value 1..%d, Content-Length or chunked "
        "framing (one or two pieces): 2xx with every pair complete or 4xx" % (LIMIT_FORM, len(LIMIT_FORM) + 2), 200,
        ["complete", "refused"], "form/limit")
    for n, ctype, framing, t in forms:
        add("form/any/%s/%s/len%d/t%d" % (ctype.split("/")[-1] or "none", framing, n, t), make_form_any(n, ctype, framing, t),
            "every byte string of length <= %d as body with Content-Type %r, %s framing, max_memfile_size %d, handler reads "
            "request.forms" % (n, ctype, framing, t), 200 if not T else 900,
            ["status-2xx", "pair-delivered"] + (["status-4xx"] if n > t else []), "form/any",
            {"n": n, "content_type": ctype, "framing": framing, "buffer": t})
    return out


def selftest(tier):
    """Native regression inputs (the triggers of the 500s repaired by /repo commit 5c49311 and their well-formed
    neighbours) and the symbolic-vs-CPython comparison of the regex model correction."""
    try:
        STATS["regex_model_paths_compared"] = stubs_c12.check_regex_models()
        regex_ok = "ok"
    except AssertionError as e:
        STATS["regex_model_error"] = repr(e)[:500]
        regex_ok = "regex-model-agrees-with-cpython"    # cannot be met: reported as a machinery error by the runner
    try:
        STATS["hang_detector_paths"] = stubs_c12.check_budget_detector()
        detector_ok = "ok"
    except AssertionError as e:
        STATS["hang_detector_error"] = repr(e)[:500]
        detector_ok = "hang-detector-detects"           # cannot be met: reported as a machinery error by the runner
    cases = [
        ("hang/field/filename/q-close/plain/chunked/n64-150", {"h": b";", "u": 0, "n": 1}, detector_ok),
        ("hang/field/name/bare/marks/cl/n96", {"h": b"z", "u": 0, "n": 0}, "ok"),
        ("hang/field/name/q-open/plain/cl/n64-150", {"h": b"x", "u": 1, "n": 0}, "rejected"),
        ("hang/ctype/quoted/ct/forms/n60-150", {"o": 0, "m": 1, "u": 3, "n": 1}, "ok"),
        ("hang/block/block-few/forms/cl-whole/n100", {"h": b"\r\n", "u": 1, "n": 0}, "ok"),
        ("mp/hole/text/colon/forms/cl/w2-2", {"h": b":"}, regex_ok),
        ("mp/hole/text/colon/forms/cl/w2-2", {"h": b"x"}, "ok"),
        ("mp/hole/text/colon/forms/cl/w2-2", {"h": b"\xff"}, "ok"),
        ("mp/hole/text/hvalue-none/forms/cl/w2-2", {"h": b""}, "ok"),
        ("mp/hole/text/name-none/forms/cl/w2-2", {"h": b""}, "ok"),
        ("mp/hole/text/data/forms/cl/w2-2", {"h": b"\xff\xfe"}, "ok"),
        ("mp/hole/text/data/forms/cl/w2-2", {"h": b"ok"}, "ok"),
        ("mp/hole/text/start/forms/cl/w2-2", {"h": b"x"}, "ok"),
        ("mp/hole/text/colon/forms/cl/w2-2", {"h": b"toolong"}, "rejected"),
        ("json/real/any1/json", {"h": b"["}, "ok"),
        ("json/real/any1/forms", {"h": b"1"}, "ok"),
        ("json/model/any2/json/cl", {"h": b"{}"}, "ok"),
        ("form/any/x-www-form-urlencoded/cl/len3/t64", {"b": b"a=%"}, "ok"),
    ]
    have = {q.qid for q in queries(tier)}
    return [c for c in cases if c[0] in have]
