"""C16 - static_file never serves a file outside its root."""
import sys

from crosshair.tracers import is_tracing

from vf.engine import assume, cover
from vf.query import Q
from vf import stubs_c16

import ombott
from ombott import static_stream

PROPERTY = "C16"
TECHNIQUE = ("bounded symbolic execution of static_file (CrossHair+z3) on a fully symbolic requested name, and on long names "
             "made of a concrete stretch (size chosen by the solver from lists crossing 8..4097) plus a fully symbolic tail, over "
             "an in-memory POSIX tree with decoys beside and above the root; every path given to open()/stat() recorded "
             "and resolved by the file system model, response status compared with a lexical reference resolution")
LEVEL_TEXT = ("For each enumerated spelling of the root (absolute/relative, with/without trailing separator, with dot and "
              "dot-dot segments, nested) the real static_file is executed on EVERY requested name up to the stated length "
              "(any code point: dots, slashes, backslashes, the names of the decoys) and, beyond that length, on names of "
              "enumerated shapes (3-4 symbolic segments of fixed lengths joined by '/' or '//'); for relative roots also as "
              "the second of two calls between which the working directory changed.  Size as the subject: names = a neutral stretch "
              "('./'*n, 'sub/../'*n/2, n/2 levels down a real directory chain and up again, a run of n separators, one segment "
              "of n characters, n leading separators; n from lists crossing 8, 16, 32, 64, 128, 256 and, where stated, 512..4096) "
              "followed by 0..2 times '../' and every tail of <= 1 character, or (sparser sizes) by every tail of <= 4 characters; "
              "the same stretches inside the spelling of the root; a root 65 real levels deep; one solver character inside a "
              "200-character file name or inside a stretch. z3 decides every branch, so inside the bound: "
              "each file handed to open() or described by a non-403/404 response is a regular file strictly below the "
              "root, and every name whose lexical location is outside the root is answered 403 or 404.")
LEVEL_NOTE = ("Trusted: z3, CrossHair's str model, FakeFS (validated against the real file system on ~10^4 paths) and "
              "py_normpath (CPython 3.10 algorithm, validated against the C normpath of 3.12 on all strings of length <= 7 "
              "over {a . / \\} and on the long stretches), sym_split (one-pass str.split for symbolic strings, used by py_normpath, FakeFS "
              "and the reference resolution; compared with the engine's own split under the tracer by the queries model/split/*), "
              "the reference resolution in this file. POSIX separators only; no symbolic links.")
FUNCTIONS = ["ombott.static_stream:static_file"]
STUBS = [
    "FakeFS for os.path.exists/isfile, os.access, os.stat, os.getcwd and open as seen from ombott.static_stream "
    "(POSIX resolution over a fixed tree, no symlinks; records open/stat)",
    "keep_caches: functools.lru_cache'd functions of ombott called with concrete arguments use their real cache under "
    "the tracer (CrossHair's default skips every lru_cache, which hides state kept between two calls)",
    "py_normpath (pure-Python normpath of CPython 3.10) inside os.path.abspath as seen from ombott.static_stream; "
    "posixpath.abspath/join themselves are the real code",
    "sym_split: str.split('/') of a symbolic string in one pass over its code points (CrossHair's own split recurses per "
    "separator: 0.8 ms per character, RecursionError beyond ~900 separators); used inside py_normpath, FakeFS and the oracle "
    "only - str.split / str.strip called by ombott itself stay CrossHair's, with the recursion limit lifted under the tracer",
]
ASSUMPTIONS = [
    "POSIX path semantics (os.sep == '/', backslash is an ordinary character); Windows is not covered",
    "the tree contains no symbolic links and does not change during the call; the working directory changes only "
    "between calls (family twice)",
    "Range / If-Modified-Since request headers absent (C17); mimetype guessing runs on served names only",
]
OUTSIDE = ["more than two calls / other working-directory changes than the enumerated pairs", "names longer than the stated bound other than the enumerated segment shapes and stretch + tail forms, sizes other than the listed ones", "roots other than the enumerated "
           "spellings", "symbolic links, Windows separators/drive letters, bytes file names", "trees other than the fixed one (+ chain of 130 directories and a 200-character file name in the long families)"]
BUDGET_S = {"quick": 300, "thorough": 1150}
# the same queries against ombott compiled as `python -O` / PYTHONOPTIMIZE=1 runs it (assert statements removed): a
# guarantee about which files may be opened must not rest on an assertion
ALSO_BUILDS = {"O": "any/*/len[04]*"}

# a dict is a directory, n >= 0 a readable regular file of n bytes, n < 0 a file without read permission
# ('/r' is a second directory that the relative root 'r' names, from the working directory '/': family `twice`)
TREE = {"d": {"r": {"f": 3, "u": -2, "sub": {"g": 4}}, "r2": {"s": 5}, "rx": 6, "s": 7}, "s": 8, "r": {"f": 9, "t": 1}}
CWD = "/d"

# (tag, root as given to static_file, canonical location of that root)
ROOTS = [
    ("abs", "/d/r", ("d", "r")),
    ("abs-slash", "/d/r/", ("d", "r")),
    ("rel", "r", ("d", "r")),
    ("rel-dot-slash", "./r/", ("d", "r")),
    ("abs-dotdot", "/d/r/../r", ("d", "r")),
    ("nested", "/d/r/sub", ("d", "r", "sub")),
    ("upper", "/d", ("d",)),
    ("two-slashes", "//d/r", ("d", "r")),
    ("rel-up", "../d/./r//", ("d", "r")),
]

stubs_c16.keep_caches("ombott.")            # lru_cache'd helpers of ombott keep their cache between calls (family twice)
FS = stubs_c16.Binding(static_stream)      # os / open of static_stream; FS.fs is set afresh by every run
# the same fake file system for every other module of the package that imports `os`: path handling that a refactoring
# moves out of static_stream into a helper module keeps running on the fake file system (and under the tracer)
import os as _real_os                       # noqa: E402
import sys as _sys                          # noqa: E402
for _name, _mod in sorted(_sys.modules.items()):
    if (_name == "ombott" or _name.startswith("ombott.")) and _mod is not static_stream and _name != "ombott.server_adapters" \
            and getattr(_mod, "os", None) is _real_os:
        _mod.os = FS.os
        _mod.open = static_stream.open

# warm ombott: the request object static_file reads (thread-local slots are created on first use)
ombott.request.__init__({"REQUEST_METHOD": "GET"})
static_stream.mimetypes.guess_type("/d/r/f")


# Module-level containers of static_stream (the pinned tree has none) as they are after import.  Every explored path
# and every native replay starts from this state = a process that has made no call yet; what a path's own earlier
# calls leave behind stays visible to its later calls.  Without this, symbolic values stored by one path would be
# found by the next one.
_INITIAL = [(v, v.copy()) for k, v in vars(static_stream).items() if type(v) in (set, dict, list) and not k.startswith("__")]


def new_process():
    for live, initial in _INITIAL:
        if isinstance(live, list):
            live[:] = initial
        else:
            live.clear()
            live.update(initial)


# ---------------------------------------------------------------- reference semantics
def lexical_location(base, name):
    """segments of the place `name` denotes when followed from directory `base` (tuple of segments from '/'),
    POSIX rules without symbolic links: '' and '.' stay, '..' goes up, '..' of '/' is '/'."""
    out = list(base)
    for seg in stubs_c16.sym_split(name, "/"):
        if seg == "" or seg == ".":
            continue
        if seg == "..":
            if out:
                out.pop()
        else:
            out.append(seg)
    return out


def strictly_below(loc, root):
    if len(loc) <= len(root):
        return False
    for i, seg in enumerate(root):
        if loc[i] != seg:
            return False
    return True


def check_calls(fs, root):
    """no file outside the root is ever opened"""
    for asked, node in fs.opened:
        if node is not None and not strictly_below(node.canon, root):
            return "open(%r) reaches %s, root is /%s" % (asked, node.path, "/".join(root))
    return None


def check_response(fs, root, name, res, tag=""):
    """the property, given what the call did (fs.opened, fs.statted) and answered (res); tag prefixes the cover labels"""
    bad = check_calls(fs, root)
    if bad:
        return bad
    status = res.status_code
    if status == 403 or status == 404:
        cover("%srefused-%d" % (tag, status))        # always an allowed answer: nothing else to decide
        return None
    # a file is being served (HEAD: headers only): what is described must be a regular file in the root ...
    for asked, node in fs.statted:
        if node.isdir or not strictly_below(node.canon, root):
            return "status %r describes %s (stat(%r)), root is /%s" % (status, node.path, asked, "/".join(root))
    if res.body != "" and not (len(fs.opened) == 1 and res.body.node is fs.opened[0][1]):
        return "status %r with a body that is not the opened file" % (status,)
    # ... and the location of the name must be in the root.  Tolerance: a name starting with '/' may be read as
    # relative to the root (what static_file does) or as absolute; a failure only if outside under both.
    inside = strictly_below(lexical_location(root, name), root)
    if not inside and name.startswith("/"):
        inside = strictly_below(lexical_location((), name), root)
    if not inside:
        return "name %s lies outside the root, answered %r" % (brief(name), status)
    cover(tag + ("served-head" if res.body == "" else "served-open"))
    return None


def brief(name):
    """a long name for a failure text (called on the failing branch only)"""
    if len(name) <= 90:
        return "%r" % (name,)
    return "%r...%r (%d characters, %d separators)" % (name[:24], name[-40:], len(name), len(stubs_c16.sym_split(name, "/")) - 1)


# CrossHair's str.strip / str.split recurse once per character / separator: under the tracer the interpreter's
# recursion limit is lifted for the call (a RecursionError there would be the engine's, not ombott's); native
# replays run with the interpreter's own limit.
DEEP_STACK = 40000


def serve(root_spelling, root, name, head, cwd=CWD, tag="", tree=None, cwd_gone=False):
    """one call of static_file with working directory `cwd`, on a fresh file system recorder; `root` is the place
    that root_spelling names from that working directory"""
    fs = FS.fs = stubs_c16.FakeFS(TREE if tree is None else tree, cwd)
    if cwd_gone:
        # the working directory of the process has been removed: a relative root cannot be resolved (getcwd fails).  Whatever
        # static_file does then (it raises: the application answers 500), it opens nothing outside the root
        fs.cwd_gone = True
        ombott.request.__init__({"REQUEST_METHOD": "GET"})
        try:
            static_stream.static_file(name, root_spelling)
        except OSError:
            cover("cwd-fault")
        return check_calls(fs, root)
    ombott.request.__init__({"REQUEST_METHOD": "HEAD" if head else "GET"})
    limit = sys.getrecursionlimit()
    if is_tracing():
        sys.setrecursionlimit(DEEP_STACK)
    try:
        res = static_stream.static_file(name, root_spelling)
    except Exception as e:
        return check_calls(fs, root) or "not answered: static_file raised %s (opened: %s)" % (
            type(e).__name__, [node and node.path for _, node in fs.opened])
    finally:
        sys.setrecursionlimit(limit)
    return check_response(fs, root, name, res, tag)


# ---------------------------------------------------------------- query makers
FIRST = {          # split of the search by the class of the first character (ordinals: '.' 46, '/' 47, '\\' 92)
    "slash": lambda c: c == 47,
    "backslash": lambda c: c == 92,
    "dot": lambda c: c == 46,
    "other": lambda c: c != 46 and c != 47 and c != 92,
}


def make_any(root_spelling, root, nmin, nmax, first=None):
    def q(name: str, head: bool):
        assume(nmin <= len(name) <= nmax)
        if first is not None:
            assume(FIRST[first](ord(name[0])))
        new_process()
        return serve(root_spelling, root, name, head)
    return q


def make_shape(root_spelling, root, seglens, sep):
    """name = seg1 sep seg2 sep ... : segments of the given lengths made of any characters but '/', concrete joints"""
    total = sum(seglens) + len(sep) * (len(seglens) - 1)
    joints = set()
    at = 0
    for n in seglens[:-1]:
        at += n
        joints.update(range(at, at + len(sep)))
        at += len(sep)

    def q(name: str, head: bool):
        assume(len(name) == total)
        for i in range(total):
            if i in joints:
                assume(name[i] == "/")
            else:
                assume(name[i] != "/")
        new_process()
        return serve(root_spelling, root, name, head)
    return q


# characters that Unicode compatibility normalisation / case folding / "fixing" of names turns into '.', '..', '...' or a
# separator (full-width and small forms, one/two-dot leaders, ellipsis, division and fraction slashes) next to the real ones
DOT_LIKE = [".", "\uff0e", "\u2024", "\ufe52", "\u2025", "\u2026"]
SEP_LIKE = ["/", "\\", "\uff0f", "\uff3c", "\ufe68", "\u2215"]
LOOK_TAILS = ["s", "r2/s", "rx", "r/f"]


def make_lookalike(root_spelling, root, levels):
    """name = (dot-like dot-like separator-like) x levels + a tail that names a file beside / above the root: every choice
    of the look-alike characters (solver indices into concrete lists, so code that normalises the name works on concrete
    text under the engine)"""
    def q(d1: int, d2: int, s1: int, d3: int, d4: int, s2: int, t: int, head: bool):
        for d in (d1, d2, d3, d4):
            assume(0 <= d < len(DOT_LIKE))
        for x in (s1, s2):
            assume(0 <= x < len(SEP_LIKE))
        assume(0 <= t < len(LOOK_TAILS))
        if levels == 1:
            assume(d3 == 0 and d4 == 0 and s2 == 0)
        name = DOT_LIKE[d1] + DOT_LIKE[d2] + SEP_LIKE[s1]
        if levels == 2:
            name = name + DOT_LIKE[d3] + DOT_LIKE[d4] + SEP_LIKE[s2]
        new_process()
        return serve(root_spelling, root, name + LOOK_TAILS[t], head)
    return q


def make_twice(root_spelling, first, second, nmin, nmax):
    """Two calls in one process with the same (relative) root string and a different working directory: a harmless
    concrete request from `first` = (cwd, what the root names there), then every name from `second`.  Each call is
    judged against what the root names at the time of that call.  Nothing is reset between the two calls; every
    path performs the same two calls in the same order (lru_caches live for the whole process, see keep_caches)."""
    def q(name: str, head: bool):
        assume(nmin <= len(name) <= nmax)
        new_process()
        bad = serve(root_spelling, first[1], "f", False, first[0], "first-")
        if bad:
            return "first call (cwd %s, name 'f'): %s" % (first[0], bad)
        bad = serve(root_spelling, second[1], name, head, second[0])
        if bad:
            return "second call (cwd %s after a call with cwd %s): %s" % (second[0], first[0], bad)
        return None
    return q


def make_faulted(before, spelling, root, nmin, nmax):
    """A fault at a particular point: one call with another root (before = (spelling, location), name 's'), then a call
    with the relative root `spelling` while the working directory is gone (os.getcwd raises), then every name with the
    same relative root and the working directory back.  Every path performs the same calls in the same order."""
    def q(name: str, head: bool):
        assume(nmin <= len(name) <= nmax)
        new_process()
        if before is not None:
            bad = serve(before[0], before[1], "s", False, CWD, "first-")
            if bad:
                return "first call (root %s, name 's'): %s" % (before[0], bad)
        bad = serve(spelling, root, "f", False, CWD, cwd_gone=True)
        if bad:
            return "call with the working directory gone: %s" % bad
        bad = serve(spelling, root, name, head)
        if bad:
            return "root %r asked again after a call that failed while the working directory was gone%s: %s" % (
                spelling, " (before that: root %s)" % before[0] if before else "", bad)
        return None
    return q


def make_tworoots(first, first_names, second, nmin, nmax):
    """Two calls in one process with different roots, first = (spelling, location) serving the concrete first_names,
    then second = (spelling, location) asked for every name.  Each call is judged against its own root.  As in
    `twice`, every path performs the same calls in the same order."""
    def q(name: str, head: bool):
        assume(nmin <= len(name) <= nmax)
        new_process()
        for known in first_names:
            bad = serve(first[0], first[1], known, False, CWD, "first-")
            if bad:
                return "first call (root %s, name %r): %s" % (first[0], known, bad)
        bad = serve(second[0], second[1], name, head)
        if bad:
            return "second call (root %s after root %s served %r): %s" % (second[0], first[0], first_names, bad)
        return None
    return q


# ---------------------------------------------------------------- long names, long roots (size as the subject)
# The tree of the long families: TREE plus, inside the root /d/r, a chain of CHAIN_DEPTH real directories 'c' with a
# file 'g' in each, and a regular file whose name has LONG_NAME characters.
CHAIN_DEPTH = 130
LONG_NAME = 200
LONG_FILE = "n" * LONG_NAME


def _chain(depth):
    node = {"g": 2}
    for _ in range(depth - 1):
        node = {"c": node, "g": 2}
    return node


def _big_tree():
    tree = {k: (dict(v) if isinstance(v, dict) else v) for k, v in TREE.items()}
    tree["d"] = dict(TREE["d"])
    tree["d"]["r"] = dict(TREE["d"]["r"])
    tree["d"]["r"]["c"] = _chain(CHAIN_DEPTH)
    tree["d"]["r"][LONG_FILE] = 4
    return tree


TREE_BIG = _big_tree()

# Neutral stretches: text that, followed from a directory, ends in that directory again (for `lead`: text that
# static_file strips).  n = the number of separators in the stretch (longseg: the number of characters of its one
# long segment).  `down` = the directory that is entered and left.
STRETCH = {
    "dot": lambda n, down: "./" * n,                                                  # n segments '.'
    "updown": lambda n, down: (down + "/../") * (n // 2) + "./" * (n % 2),            # enter and leave, n/2 times
    "nest": lambda n, down: (down + "/") * (n // 2) + "./" * (n % 2) + "../" * (n // 2),   # n/2 levels down, then up
    "run": lambda n, down: ("." + "/" * n) if n else "",                              # one run of n separators
    "longseg": lambda n, down: ("x" * n + "/../") if n else "",                       # one segment of n characters
    "lead": lambda n, down: "/" * n,                                                  # n leading separators
}
# sizes crossing the usual constants (each -1, +0, +1 where affordable)
SIZES_QUICK = [0, 1, 7, 8, 15, 16, 31, 32, 33, 63, 64, 65, 127, 128, 129, 255, 256, 257]
SIZES_BIG = [511, 512, 513, 1023, 1024, 1025, 2047, 2048, 2049, 4095, 4096, 4097]
SIZES_LEAD = [0, 1, 2, 15, 16, 17, 31, 32, 33, 63, 64, 65]       # str.strip of the engine: 2 ms per stripped character


def _pick(cases, i):
    """cases[i] by explicit comparison (one fork per element, no realisation of i)"""
    assume(0 <= i < len(cases))
    for j in range(len(cases)):
        if i == j:
            return cases[j]
    raise AssertionError("unreachable")


def make_long(cases, root, tmax):
    """cases = [(root spelling, concrete front of the name)], chosen by the solver integer i; the requested name is
    front + tail, tail = every string of <= tmax characters.  The front stays concrete (code points are Python ints),
    only the tail forks."""
    def q(i: int, tail: str, head: bool):
        spelling, front = _pick(cases, i)
        assume(len(tail) <= tmax)
        new_process()
        return serve(spelling, root, front + tail, head, tree=TREE_BIG)
    return q


def make_climb(cases, root, ups, first=None):
    """as make_long, the name is front + c times '../' + tail, c = 0..ups chosen by the solver, tail = every string
    of <= 1 character; GET only.  (c = 1, tail 's' is the decoy above the root, c = 2 the one two levels up.)
    With `first`: that concrete name is requested first, in the same process, nothing reset in between."""
    def q(i: int, c: int, tail: str):
        spelling, front = _pick(cases, i)
        assume(0 <= c <= ups)
        assume(len(tail) <= 1)
        climb = ""
        for j in range(ups + 1):
            if c == j:
                climb = "../" * j
                break
        new_process()
        if first is not None:
            bad = serve(spelling, root, first, False, CWD, "first-", tree=TREE_BIG)
            if bad:
                return "first call (name %s): %s" % (brief(first), bad)
        return serve(spelling, root, front + climb + tail, False, tree=TREE_BIG)
    return q


def make_hole(spelling, root, fronts, body, positions, backs):
    """name = front + body with the character at one of `positions` replaced by a solver character + back; front
    and back from concrete lists, chosen by the solver"""
    def q(a: int, p: int, o: int, b: int, head: bool):
        front = _pick(fronts, a)
        at = _pick(positions, p)
        back = _pick(backs, b)
        assume(0 <= o <= 0x10FFFF)
        assume(not 0xD800 <= o <= 0xDFFF)
        new_process()
        return serve(spelling, root, front + body[:at] + chr(o) + body[at + 1:] + back, head, tree=TREE_BIG)
    return q


def make_model(front, tmax):
    """the one-pass split and the normpath built on it agree with the engine's own str.split and the verbatim CPython
    algorithm on front + every tail (differential check of the stub under the tracer)"""
    def q(tail: str):
        assume(len(tail) <= tmax)
        text = front + tail
        mine = stubs_c16.sym_split(text, "/")
        theirs = text.split("/")
        if len(mine) != len(theirs):
            return "sym_split: %d pieces, str.split: %d" % (len(mine), len(theirs))
        for x, y in zip(mine, theirs):
            if x != y:
                return "sym_split differs from str.split"
        if stubs_c16.py_normpath(text) != stubs_c16.py_normpath_ref(text):
            return "py_normpath differs from the reference algorithm"
        cover("compared")
        return None
    return q


def _sizes_text(sizes):
    return ",".join(map(str, sizes))


def build_long(tier):
    T = tier == "thorough"
    out = []
    root = ("d", "r")
    tree_text = ("tree: the fixed one plus /d/r/c/c/.../c (%d real directories, a file g in each) and a file of %d "
                 "characters 'n'" % (CHAIN_DEPTH, LONG_NAME))

    def add(family, qid, fn, bound, timeout, covers, config):
        out.append(Q(qid, fn, bound + "; " + tree_text, timeout=timeout, per_path_timeout=60, expect_cover=covers,
                     family=family, config=config))

    spell = {"abs": ("/d/r", ("d", "r")), "rel": ("r", ("d", "r")), "abs-slash": ("/d/r/", ("d", "r"))}
    GET_COVER = ["refused-403", "refused-404", "served-open"]

    # --- climb: dense sizes, cheap tail.  One query per kind of stretch and block of sizes.
    def climb_blocks(tag, kind):
        if kind == "lead":           # str.strip of the engine costs 2 ms per stripped character
            return [SIZES_LEAD[:9]] + ([SIZES_LEAD[9:]] if T else [])
        blocks = [SIZES_QUICK[:9], SIZES_QUICK[9:]]
        if T or tag == "abs":
            blocks += [SIZES_BIG[:6]]
            if T or kind != "run":   # a run of n separators ends the name when c = 0 and the tail is empty: stripped
                blocks += [SIZES_BIG[6:]]
        return blocks
    for tag in ("abs", "rel"):
        spelling, loc = spell[tag]
        kinds = ["dot", "updown", "nest", "run", "longseg", "lead"] if T or tag == "abs" else ["dot", "nest"]
        for kind in kinds:
            for sizes in climb_blocks(tag, kind):
                dirname = "c" if kind == "nest" else "sub"
                cases = [(spelling, STRETCH[kind](n, dirname)) for n in sizes]
                qid = "climb/%s/%s/n%d-%d" % (tag, kind, sizes[0], sizes[-1])
                bound = ("root %r (cwd %s); name = stretch %r of size n in {%s} + c times '../' (c = 0..2) + every tail "
                         "of 0..1 characters (any code point); GET" % (spelling, CWD, kind, _sizes_text(sizes)))
                timeout = 240 if sizes[-1] <= 300 else 250          # measured <= 20 CPU s (quick set), 75 (run/n2047-4097)
                add("climb", qid, make_climb(cases, loc, 2), bound, timeout, GET_COVER,
                    {"root": spelling, "stretch": kind, "sizes": sizes, "ups": 2})
    # the same after a long name has been served in the same process (state kept between calls)
    for kind, first in [("dot", "./" * 40 + "f"), ("nest", "c/" * 40 + "g")][:2 if T else 1]:
        sizes = [0, 31, 32, 33, 65, 257]
        cases = [("/d/r", STRETCH[kind](n, "c")) for n in sizes]
        bound = ("root '/d/r'; a first call serves the name %s; then name = stretch %r of size n in {%s} + c times '../' "
                 "(c = 0..2) + every tail of 0..1 characters (any code point); GET" % (brief(first), kind, _sizes_text(sizes)))
        add("climb", "climb/abs/%s/after-long" % kind, make_climb(cases, root, 2, first), bound, 240,
            GET_COVER + ["first-served-open"], {"stretch": kind, "sizes": sizes, "ups": 2, "first": first})

    # --- long: sparse sizes just above the usual constants, every tail of <= 4 characters, GET and HEAD
    plan = [("abs", "dot", [33]), ("abs", "updown", [33]), ("abs", "nest", [65]), ("abs", "run", [257]),
            ("abs", "dot", [4097]), ("rel", "dot", [65])]
    if T:
        plan = [(tag, kind, [n]) for tag in ("abs", "rel") for kind in ("dot", "updown", "nest", "run", "longseg")
                for n in ((33, 65, 257, 1025, 4097) if tag == "abs" else (65, 4097))]       # measured <= 108 CPU s each
        plan += [("abs-slash", "dot", [n]) for n in (33, 257, 4097)] + [("abs", "lead", [17]), ("abs", "lead", [33])]
    for tag, kind, sizes in plan:
        spelling, loc = spell[tag]
        dirname = "c" if kind == "nest" else "sub"
        cases = [(spelling, STRETCH[kind](n, dirname)) for n in sizes]
        qid = "long/%s/%s/n%s/t4" % (tag, kind, "-".join(map(str, sizes)))
        bound = ("root %r (cwd %s); name = stretch %r of size n in {%s} + every tail of 0..4 characters (any code "
                 "points); GET and HEAD" % (spelling, CWD, kind, _sizes_text(sizes)))
        add("long", qid, make_long(cases, loc, 4), bound, 300 if sizes[-1] <= 300 else 600, ALL_COVER,   # measured <= 34 CPU s in quick
            {"root": spelling, "stretch": kind, "sizes": sizes, "tail": 4})

    # --- longroot: the stretch is in the spelling of the root ('/d/' + stretch + 'r'), the name is short
    for kind in (["dot", "updown", "nest", "run", "longseg"] if T else ["dot", "nest", "longseg"]):
        sizes = [33, 65, 257, 1025, 4097]
        cases = [("/d/" + STRETCH[kind](n, "r") + "r", "") for n in sizes]
        bound = ("root '/d/' + stretch %r of size n in {%s} + 'r' (= /d/r); name = c times '../' (c = 0..2) + every tail "
                 "of 0..1 characters; GET" % (kind, _sizes_text(sizes)))
        add("longroot", "longroot/%s/climb" % kind, make_climb(cases, root, 2), bound, 120, GET_COVER,
            {"stretch": kind, "sizes": sizes, "ups": 2})
        if T:
            sizes = [65, 4097]                      # measured <= 70 CPU s
            cases = [("/d/" + STRETCH[kind](n, "r") + "r", "") for n in sizes]
            bound = ("root '/d/' + stretch %r of size n in {%s} + 'r' (= /d/r); every name of 0..4 characters (any code "
                     "points); GET and HEAD" % (kind, _sizes_text(sizes)))
            add("longroot", "longroot/%s/t4" % kind, make_long(cases, root, 4), bound, 600, ALL_COVER,
                {"stretch": kind, "sizes": sizes, "tail": 4})

    # --- deep: the root is a directory deep in the real chain; names climb with c times '../'
    for depth in ([65, 33, 129] if T else [65]):
        loc = ("d", "r") + ("c",) * depth
        spelling = "/" + "/".join(loc)
        ups = depth + 2
        cases = [(spelling, "../" * n) for n in sorted({0, 1, depth - 1, depth, depth + 1, depth + 2})]
        bound = ("root %s (the real directory %d levels below /d/r); name = n times '../' (n in {0,1,%d..%d}) + every tail "
                 "of 0..%d characters (any code points); GET and HEAD" % ("'/d/r' + '/c' * %d" % depth, depth, depth - 1, depth + 2, 3))
        add("deep", "deep/c%d/t3" % depth, make_long(cases, loc, 3), bound, 300, ALL_COVER,
            {"root_depth": depth, "tail": 3})

    # --- hole: one solver character inside a long file name / inside a long stretch
    backs = ["", "/", "/../f", "/../../s"]
    positions = [0, 1, LONG_NAME // 2, LONG_NAME - 2, LONG_NAME - 1]
    front_sets = [("hole/longname", [("''", ""), ("'../r/'", "../r/"), ("'./' * 40", "./" * 40)])]
    if T:
        front_sets += [("hole/longname/fronts2", [("'sub/../'", "sub/../"), ("'c/' * 40 + '../' * 40", "c/" * 40 + "../" * 40)])]
    for qid, labelled in front_sets:
        fronts = [text for _, text in labelled]
        bound = ("root '/d/r'; name = front in {%s} + the %d-character file name with the character at one of the positions "
                 "%r replaced by any code point + back in %r; GET and HEAD" % (
                     ", ".join(label for label, _ in labelled), LONG_NAME, positions, backs))
        add("hole", qid, make_hole("/d/r", root, fronts, LONG_FILE, positions, backs), bound, 300, ALL_COVER,   # <= 42 CPU s
            {"fronts": fronts, "positions": positions, "backs": backs})
    for kind, n in ([("dot", 64), ("nest", 64), ("updown", 64), ("run", 64)] if T else [("nest", 64)]):
        body = STRETCH[kind](n, "c" if kind == "nest" else "sub")
        positions = sorted({0, 1, len(body) // 2 - 1, len(body) // 2, len(body) // 2 + 1, len(body) - 2, len(body) - 1})
        backs2 = ["f", "../s", "../../s", "sub/g"]
        bound = ("root '/d/r'; name = stretch %r of size %d with the character at one of the positions %r replaced by any "
                 "code point + back in %r; GET and HEAD" % (kind, n, positions, backs2))
        add("hole", "hole/%s%d" % (kind, n), make_hole("/d/r", root, [""], body, positions, backs2), bound, 300, ALL_COVER,
            {"stretch": kind, "size": n, "positions": positions, "backs": backs2})

    # --- model: the stubs that make long names affordable, against what they replace
    for kind, n in [("updown", 9), ("run", 5)] + ([("nest", 300), ("lead", 13)] if T else []):
        front = "/d/r/" + STRETCH[kind](n, "sub")
        tmax = 4 if T and n > 9 else 3
        add("model", "model/split/%s%d/t%d" % (kind, n, tmax), make_model(front, tmax),
            "sym_split == str.split (engine) and py_normpath == reference on '/d/r/' + stretch %r of size %d + every tail of "
            "0..%d characters" % (kind, n, tmax), 300, ["compared"], {"stretch": kind, "size": n, "tail": tmax})
    return out


ALL_COVER = ["refused-403", "refused-404", "served-open", "served-head"]
# (first length, last length, split by first character?, CPU timeout); measured CPU s of the slowest root on a loaded
# machine: 11 / 29 / 94 / 4 pieces <= 70 / 4 pieces <= 210
SLICES = [(0, 3, False, 60), (4, 4, False, 90), (5, 5, False, 300), (6, 6, True, 250), (7, 7, True, 700)]
MAIN = ("abs", "abs-slash", "rel", "rel-dot-slash", "abs-dotdot")
NMAX = {"quick": {"abs": 6, "rel": 5, "abs-slash": 4, "rel-dot-slash": 4, "abs-dotdot": 4},        # others: 3
        "thorough": {"abs": 7, "rel": 6, "abs-slash": 6, "rel-dot-slash": 6, "abs-dotdot": 6}}     # others: 5
# sibling escape '../r2/s' and deeper climbs as shapes: segment lengths, joint
SHAPES_DEEP = [((2, 2, 2, 1), "/"), ((3, 2, 2, 1), "/"), ((2, 1, 3, 1), "/"), ((2, 1, 2, 1), "/"), ((2, 2, 1, 1), "/"),
               ((2, 2, 1), "//")]


def build(tier):
    T = tier == "thorough"
    out = []
    for tag, spelling, root in ROOTS:
        nmax = NMAX[tier].get(tag, 5 if T else 3)
        where = "root %r (= /%s, cwd %s)" % (spelling, "/".join(root), CWD)
        for lo, hi, split, timeout in SLICES:
            if hi > nmax:
                continue
            span = "len%d" % hi if lo == hi else "len%d-%d" % (lo, hi)
            for first in (sorted(FIRST) if split else [None]):
                qid = "any/%s/%s" % (tag, span) + ("/%s" % first if first else "")
                bound = "%s; every name of %d..%d characters (any code points)%s; GET and HEAD" % (
                    where, lo, hi, ", first character: %s" % first if first else "")
                out.append(Q(qid, make_any(spelling, root, lo, hi, first), bound, timeout=timeout,
                             expect_cover=ALL_COVER, family="any", config={"root": spelling, "first": first}))
        shapes = [((2, 2, 1), "/")] if T or tag in MAIN else []
        if tag == "abs" and T:
            shapes += SHAPES_DEEP
        for seglens, sep in shapes:
            qid = "shape/%s/%s%s" % (tag, "-".join(map(str, seglens)), "" if sep == "/" else "/double")
            bound = "%s; names of %d segments of lengths %s (any characters but '/') joined by %r; GET and HEAD" % (
                where, len(seglens), list(seglens), sep)
            timeout = 120 if len(seglens) == 3 else 450          # measured <= 41 / <= 145 CPU s
            out.append(Q(qid, make_shape(spelling, root, seglens, sep), bound, timeout=timeout, expect_cover=ALL_COVER,
                         family="shape", config={"root": spelling, "segments": list(seglens), "sep": sep}))
    for tag, spelling, root in ROOTS:
        if tag not in (("abs", "rel") if not T else MAIN):
            continue
        for levels in ((1,) if not T else (1, 2)):
            if levels == 2 and tag != "abs":
                continue
            out.append(Q("lookalike/%s/up%d" % (tag, levels), make_lookalike(spelling, root, levels),
                         "root %r; names made of %d group(s) of two dot-like characters %r and one separator-like character %r "
                         "followed by one of %r (all choices; solver indices); GET and HEAD" % (spelling, levels, DOT_LIKE, SEP_LIKE, LOOK_TAILS),
                         timeout=300 if levels == 1 else 900, expect_cover=["refused-403", "refused-404"], family="lookalike",
                         config={"root": spelling, "levels": levels}))
    # the same relative root string under two working directories (tag, spelling, {cwd: what the root names})
    twice = [("rel", "r", ("/d", ("d", "r")), ("/", ("r",)))]
    if T:
        twice += [("rel-dot-slash", "./r/", ("/d", ("d", "r")), ("/", ("r",))),
                  ("dot", ".", ("/d/r", ("d", "r")), ("/r", ("r",)))]
    for tag, spelling, a, b in twice:
        for first, second in ((a, b), (b, a)):
            for lo, hi, split, timeout in SLICES[:3 if T else 1]:
                span = "len%d" % hi if lo == hi else "len%d-%d" % (lo, hi)
                names = [cwd.strip("/").replace("/", ".") or "top" for cwd in (first[0], second[0])]
                qid = "twice/%s/%s-then-%s/%s" % (tag, names[0], names[1], span)
                bound = ("root %r; one call (name 'f') with cwd %s, then cwd %s and every name of %d..%d characters (any "
                         "code points), GET and HEAD; root = /%s in the second call" % (
                             spelling, first[0], second[0], lo, hi, "/".join(second[1])))
                out.append(Q(qid, make_twice(spelling, first, second, lo, hi), bound, timeout=timeout,
                             expect_cover=ALL_COVER + ["first-served-open"], family="twice",
                             config={"root": spelling, "cwd": [first[0], second[0]]}))
    # a fault while a relative root is resolved (working directory removed), then the same root again (since seed C16-k)
    for tag, before in ([("after-upper", ("/d", ("d",))), ("first", None)] if not T else
                        [("after-upper", ("/d", ("d",))), ("first", None), ("after-other", ("/r", ("r",)))]):
        for lo, hi, split, timeout in SLICES[:3 if T else 1]:
            span = "len%d" % hi if lo == hi else "len%d-%d" % (lo, hi)
            out.append(Q("faulted/%s/%s" % (tag, span), make_faulted(before, "r", ("d", "r"), lo, hi),
                         "%sroot 'r' asked for 'f' while os.getcwd() raises (working directory removed), then root 'r' (= /d/r, "
                         "cwd %s) asked for every name of %d..%d characters (any code points), GET and HEAD"
                         % ("root %r serves 's', then " % before[0] if before else "", CWD, lo, hi), timeout=timeout,
                         expect_cover=ALL_COVER + ["cwd-fault"], family="faulted", config={"before": before and before[0]}))
    # an enclosing and a nested root in one process: (tag, outer, files of outer beside inner, inner, a file of inner)
    pairs = [("upper-abs", ("/d", ("d",)), ["s", "rx", "r2/s"], ("/d/r", ("d", "r")), ["f"])]
    if T:
        pairs += [("abs-nested", ("/d/r", ("d", "r")), ["f"], ("/d/r/sub", ("d", "r", "sub")), ["g"]),
                  ("upper-rel", ("/d/", ("d",)), ["s", "rx", "r2/s"], ("r", ("d", "r")), ["f"])]
    for tag, outer, outer_names, inner, inner_names in pairs:
        for order, first, names, second in (("outer-then-inner", outer, outer_names, inner),
                                            ("inner-then-outer", inner, inner_names, outer)):
            for lo, hi, split, timeout in SLICES[:3 if T else 2]:
                span = "len%d" % hi if lo == hi else "len%d-%d" % (lo, hi)
                bound = ("root %r serves %r, then root %r (= /%s) is asked for every name of %d..%d characters (any code "
                         "points), GET and HEAD; cwd %s" % (first[0], names, second[0], "/".join(second[1]), lo, hi, CWD))
                out.append(Q("tworoots/%s/%s/%s" % (tag, order, span), make_tworoots(first, names, second, lo, hi), bound,
                             timeout=timeout, expect_cover=ALL_COVER + ["first-served-open"], family="tworoots",
                             config={"roots": [first[0], second[0]], "first_names": names}))
    return out + build_long(tier)


def queries(tier):
    """Order: the quick set first, short queries first (every root and family gets its turn even if the machine is
    loaded and the budget cuts the run); then what thorough adds, long queries first (short tail)."""
    quick = {q.qid for q in build("quick")}
    return sorted(build(tier), key=lambda q: (0, q.timeout) if q.qid in quick else (1, -q.timeout))


class _Answer:
    def __init__(self, status_code, body=""):
        self.status_code = status_code
        self.body = body


def selftest(tier):
    stubs_c16.validate_normpath(7)
    stubs_c16.validate_fs(TREE, 5)
    # the long material: normpath on every stretch (as a name under the root and as a root spelling), the file system
    # model on the deep chain and the long file name
    longs = []
    for kind, make in STRETCH.items():
        for n in (0, 1, 2, 33, 64, 257, 1024, 4097):
            for down in ("sub", "c"):
                longs += ["/d/r/" + make(n, down) + t for t in ("", "f", "../s", "../../s", "..", "/")]
                longs += ["/d/" + make(n, "r") + "r"]
    stubs_c16.validate_long(longs)
    chain = "/d/r" + "/c" * CHAIN_DEPTH
    extra = [chain, chain + "/g", chain + "/c", chain + "/../g", chain + "/g/..", "/d/r/" + LONG_FILE, "/d/r/" + LONG_FILE + "/",
             "/d/r/" + LONG_FILE[:-1], "/d/r/" + LONG_FILE + "n", "/d/r/c/" + LONG_FILE, "/d/r/" + "c/../" * 70 + "c/g",
             "/d/r/" + "c/" * 60 + "../" * 60 + "f", "/d/r/" + "c/" * 131 + "../" * 131 + "f", "/d/r/" + "x" * 300 + "/../f",
             "/d/r/." + "/" * 300 + "f", "/d/r" + "/c" * 65 + "/.." * 66 + "/s"]
    stubs_c16.validate_fs(TREE_BIG, 3, extra)
    # the oracle on hand-made behaviour: what a broken static_file would do must be called a failure
    root = ("d", "r")
    fs = stubs_c16.FakeFS(TREE, CWD)
    assert check_response(fs, root, "../s", _Answer(404)) is None
    assert "outside" in check_response(fs, root, "../s", _Answer(200))               # wrong status, nothing opened
    assert check_response(fs, root, "/../d/r/f", _Answer(200)) is None                # absolute reading: tolerated
    fs.stat("/d/r2/s")
    assert "describes /d/r2/s" in check_response(fs, root, "../r2/s", _Answer(200))  # HEAD leak
    for path in ("/d/rx", "../s", "/d/r/../r2/s", "/d/r/sub/../..", "//d//r/./sub/../../r2/s"):
        fs = stubs_c16.FakeFS(TREE, CWD)
        try:
            fs.open(path, "rb")
        except Exception:
            pass
        assert "open(" in check_response(fs, root, "f", _Answer(404)), path          # opened, whatever the answer
    small = "any/abs/len0-3"
    names = ["f", "u", "sub", "sub/", "", ".", "..", "../", "../s", "/../s", "\\..\\", "..\\s", "../r", "../.", "./f",
             "f/.", "//f", "f\\", "\x00", "\udc80", "sub/g"]
    out = [(small, {"name": n, "head": h}, "ok") for n in names if len(n) <= 3 for h in (False, True)]
    out.append((small, {"name": "../s", "head": False}, "rejected"))
    # long names natively (harness and stubs on plain values; names that stay inside the root, whatever the size)
    ids = {q.qid for q in build_long(tier)}
    for qid in ("climb/abs/dot/n0-33", "climb/abs/nest/n63-257", "climb/abs/updown/n2047-4097", "climb/abs/lead/n0-33"):
        if qid in ids:
            for i in (0, 5, 8) if "2047" not in qid else (0, 5):
                for tail in ("", "f", "u", "/", "."):
                    out.append((qid, {"i": i, "c": 0, "tail": tail}, "ok"))
                out.append((qid, {"i": i, "c": 3, "tail": ""}, "rejected"))
    for qid in ("long/abs/dot/n33/t4", "long/abs/dot/n4097/t4", "long/abs/run/n257/t4"):
        if qid in ids:
            for tail in ("f", "sub/", "\\..\\", "c/g", "c/c/"):
                out.append((qid, {"i": 0, "tail": tail, "head": False}, "ok"))
    return out
