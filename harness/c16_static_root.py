"""C16 - static_file never serves a file outside its root."""
from vf.engine import assume, cover
from vf.query import Q
from vf import stubs_c16

import ombott
from ombott import static_stream

PROPERTY = "C16"
TECHNIQUE = ("bounded symbolic execution of static_file (CrossHair+z3) on a fully symbolic requested name over an "
             "in-memory POSIX tree with decoys beside and above the root; every path given to open()/stat() recorded "
             "and resolved by the file system model, response status compared with a lexical reference resolution")
LEVEL_TEXT = ("For each enumerated spelling of the root (absolute/relative, with/without trailing separator, with dot and "
              "dot-dot segments, nested) the real static_file is executed on EVERY requested name up to the stated length "
              "(any code point: dots, slashes, backslashes, the names of the decoys) and, beyond that length, on names of "
              "enumerated shapes (3-4 symbolic segments of fixed lengths joined by '/' or '//'); for relative roots also as "
              "the second of two calls between which the working directory changed. z3 decides every branch, so inside the bound: "
              "each file handed to open() or described by a non-403/404 response is a regular file strictly below the "
              "root, and every name whose lexical location is outside the root is answered 403 or 404.")
LEVEL_NOTE = ("Trusted: z3, CrossHair's str model, FakeFS (validated against the real file system on ~10^4 paths) and "
              "py_normpath (CPython 3.10 algorithm, validated against the C normpath of 3.12 on all strings of length <= 7 "
              "over {a . / \\}), the reference resolution in this file. POSIX separators only; no symbolic links.")
FUNCTIONS = ["ombott.static_stream:static_file"]
STUBS = [
    "FakeFS for os.path.exists/isfile, os.access, os.stat, os.getcwd and open as seen from ombott.static_stream "
    "(POSIX resolution over a fixed tree, no symlinks; records open/stat)",
    "keep_caches: functools.lru_cache'd functions of ombott called with concrete arguments use their real cache under "
    "the tracer (CrossHair's default skips every lru_cache, which hides state kept between two calls)",
    "py_normpath (pure-Python normpath of CPython 3.10) inside os.path.abspath as seen from ombott.static_stream; "
    "posixpath.abspath/join themselves are the real code",
]
ASSUMPTIONS = [
    "POSIX path semantics (os.sep == '/', backslash is an ordinary character); Windows is not covered",
    "the tree contains no symbolic links and does not change during the call; the working directory changes only "
    "between calls (family twice)",
    "Range / If-Modified-Since request headers absent (C17); mimetype guessing runs on served names only",
]
OUTSIDE = ["more than two calls / other working-directory changes than the enumerated pairs", "names longer than the stated bound other than the enumerated segment shapes", "roots other than the enumerated "
           "spellings", "symbolic links, Windows separators/drive letters, bytes file names", "trees other than the fixed one"]
BUDGET_S = {"quick": 300, "thorough": 1150}

# a dict is a directory, n >= 0 a readable regular file of n bytes, n < 0 a file without read permission
# ('/r' is a second directory that the relative root 'r' names, from the working directory '/': family `twice`)
TREE = {"d": {"r": {"f": 3, "u": -2, "sub": {"g": 4}}, "r2": {"s": 5}, "rx": 6, "s": 7}, "s": 8, "r": {"f": 9, "t": 1}}
CWD = "/d"

# (tag, root as given to static_file, canonical location of that root)
ROOTS = [
    ("abs", "/d/r", ("d", "r")),
    ("abs-slash", "/d/r/", ("d", "r")),
    ("rel", "r", ("d", "r")),
    ("rel-dot-slash", "./r/", ("d", "r")),
    ("abs-dotdot", "/d/r/../r", ("d", "r")),
    ("nested", "/d/r/sub", ("d", "r", "sub")),
    ("upper", "/d", ("d",)),
    ("two-slashes", "//d/r", ("d", "r")),
    ("rel-up", "../d/./r//", ("d", "r")),
]

stubs_c16.keep_caches("ombott.")            # lru_cache'd helpers of ombott keep their cache between calls (family twice)
FS = stubs_c16.Binding(static_stream)      # os / open of static_stream; FS.fs is set afresh by every run

# warm ombott: the request object static_file reads (thread-local slots are created on first use)
ombott.request.__init__({"REQUEST_METHOD": "GET"})
static_stream.mimetypes.guess_type("/d/r/f")


# Module-level containers of static_stream (the pinned tree has none) as they are after import.  Every explored path
# and every native replay starts from this state = a process that has made no call yet; what a path's own earlier
# calls leave behind stays visible to its later calls.  Without this, symbolic values stored by one path would be
# found by the next one.
_INITIAL = [(v, v.copy()) for k, v in vars(static_stream).items() if type(v) in (set, dict, list) and not k.startswith("__")]


def new_process():
    for live, initial in _INITIAL:
        if isinstance(live, list):
            live[:] = initial
        else:
            live.clear()
            live.update(initial)


# ---------------------------------------------------------------- reference semantics
def lexical_location(base, name):
    """segments of the place `name` denotes when followed from directory `base` (tuple of segments from '/'),
    POSIX rules without symbolic links: '' and '.' stay, '..' goes up, '..' of '/' is '/'."""
    out = list(base)
    for seg in name.split("/"):
        if seg == "" or seg == ".":
            continue
        if seg == "..":
            if out:
                out.pop()
        else:
            out.append(seg)
    return out


def strictly_below(loc, root):
    if len(loc) <= len(root):
        return False
    for i, seg in enumerate(root):
        if loc[i] != seg:
            return False
    return True


def check_calls(fs, root):
    """no file outside the root is ever opened"""
    for asked, node in fs.opened:
        if node is not None and not strictly_below(node.canon, root):
            return "open(%r) reaches %s, root is /%s" % (asked, node.path, "/".join(root))
    return None


def check_response(fs, root, name, res, tag=""):
    """the property, given what the call did (fs.opened, fs.statted) and answered (res); tag prefixes the cover labels"""
    bad = check_calls(fs, root)
    if bad:
        return bad
    status = res.status_code
    if status == 403 or status == 404:
        cover("%srefused-%d" % (tag, status))        # always an allowed answer: nothing else to decide
        return None
    # a file is being served (HEAD: headers only): what is described must be a regular file in the root ...
    for asked, node in fs.statted:
        if node.isdir or not strictly_below(node.canon, root):
            return "status %r describes %s (stat(%r)), root is /%s" % (status, node.path, asked, "/".join(root))
    if res.body != "" and not (len(fs.opened) == 1 and res.body.node is fs.opened[0][1]):
        return "status %r with a body that is not the opened file" % (status,)
    # ... and the location of the name must be in the root.  Tolerance: a name starting with '/' may be read as
    # relative to the root (what static_file does) or as absolute; a failure only if outside under both.
    inside = strictly_below(lexical_location(root, name), root)
    if not inside and name.startswith("/"):
        inside = strictly_below(lexical_location((), name), root)
    if not inside:
        return "name %r lies outside the root, answered %r" % (name, status)
    cover(tag + ("served-head" if res.body == "" else "served-open"))
    return None


def serve(root_spelling, root, name, head, cwd=CWD, tag=""):
    """one call of static_file with working directory `cwd`, on a fresh file system recorder; `root` is the place
    that root_spelling names from that working directory"""
    fs = FS.fs = stubs_c16.FakeFS(TREE, cwd)
    ombott.request.__init__({"REQUEST_METHOD": "HEAD" if head else "GET"})
    try:
        res = static_stream.static_file(name, root_spelling)
    except Exception as e:
        return check_calls(fs, root) or "not answered: static_file raised %s (opened: %s)" % (
            type(e).__name__, [node and node.path for _, node in fs.opened])
    return check_response(fs, root, name, res, tag)


# ---------------------------------------------------------------- query makers
FIRST = {          # split of the search by the class of the first character (ordinals: '.' 46, '/' 47, '\\' 92)
    "slash": lambda c: c == 47,
    "backslash": lambda c: c == 92,
    "dot": lambda c: c == 46,
    "other": lambda c: c != 46 and c != 47 and c != 92,
}


def make_any(root_spelling, root, nmin, nmax, first=None):
    def q(name: str, head: bool):
        assume(nmin <= len(name) <= nmax)
        if first is not None:
            assume(FIRST[first](ord(name[0])))
        new_process()
        return serve(root_spelling, root, name, head)
    return q


def make_shape(root_spelling, root, seglens, sep):
    """name = seg1 sep seg2 sep ... : segments of the given lengths made of any characters but '/', concrete joints"""
    total = sum(seglens) + len(sep) * (len(seglens) - 1)
    joints = set()
    at = 0
    for n in seglens[:-1]:
        at += n
        joints.update(range(at, at + len(sep)))
        at += len(sep)

    def q(name: str, head: bool):
        assume(len(name) == total)
        for i in range(total):
            if i in joints:
                assume(name[i] == "/")
            else:
                assume(name[i] != "/")
        new_process()
        return serve(root_spelling, root, name, head)
    return q


def make_twice(root_spelling, first, second, nmin, nmax):
    """Two calls in one process with the same (relative) root string and a different working directory: a harmless
    concrete request from `first` = (cwd, what the root names there), then every name from `second`.  Each call is
    judged against what the root names at the time of that call.  Nothing is reset between the two calls; every
    path performs the same two calls in the same order (lru_caches live for the whole process, see keep_caches)."""
    def q(name: str, head: bool):
        assume(nmin <= len(name) <= nmax)
        new_process()
        bad = serve(root_spelling, first[1], "f", False, first[0], "first-")
        if bad:
            return "first call (cwd %s, name 'f'): %s" % (first[0], bad)
        bad = serve(root_spelling, second[1], name, head, second[0])
        if bad:
            return "second call (cwd %s after a call with cwd %s): %s" % (second[0], first[0], bad)
        return None
    return q


def make_tworoots(first, first_names, second, nmin, nmax):
    """Two calls in one process with different roots, first = (spelling, location) serving the concrete first_names,
    then second = (spelling, location) asked for every name.  Each call is judged against its own root.  As in
    `twice`, every path performs the same calls in the same order."""
    def q(name: str, head: bool):
        assume(nmin <= len(name) <= nmax)
        new_process()
        for known in first_names:
            bad = serve(first[0], first[1], known, False, CWD, "first-")
            if bad:
                return "first call (root %s, name %r): %s" % (first[0], known, bad)
        bad = serve(second[0], second[1], name, head)
        if bad:
            return "second call (root %s after root %s served %r): %s" % (second[0], first[0], first_names, bad)
        return None
    return q


ALL_COVER = ["refused-403", "refused-404", "served-open", "served-head"]
# (first length, last length, split by first character?, CPU timeout); measured CPU s of the slowest root on a loaded
# machine: 11 / 29 / 94 / 4 pieces <= 70 / 4 pieces <= 210
SLICES = [(0, 3, False, 60), (4, 4, False, 90), (5, 5, False, 300), (6, 6, True, 250), (7, 7, True, 700)]
MAIN = ("abs", "abs-slash", "rel", "rel-dot-slash", "abs-dotdot")
NMAX = {"quick": {"abs": 6, "rel": 5, "abs-slash": 4, "rel-dot-slash": 4, "abs-dotdot": 4},        # others: 3
        "thorough": {"abs": 7, "rel": 6, "abs-slash": 6, "rel-dot-slash": 6, "abs-dotdot": 6}}     # others: 5
# sibling escape '../r2/s' and deeper climbs as shapes: segment lengths, joint
SHAPES_DEEP = [((2, 2, 2, 1), "/"), ((3, 2, 2, 1), "/"), ((2, 1, 3, 1), "/"), ((2, 1, 2, 1), "/"), ((2, 2, 1, 1), "/"),
               ((2, 2, 1), "//")]


def build(tier):
    T = tier == "thorough"
    out = []
    for tag, spelling, root in ROOTS:
        nmax = NMAX[tier].get(tag, 5 if T else 3)
        where = "root %r (= /%s, cwd %s)" % (spelling, "/".join(root), CWD)
        for lo, hi, split, timeout in SLICES:
            if hi > nmax:
                continue
            span = "len%d" % hi if lo == hi else "len%d-%d" % (lo, hi)
            for first in (sorted(FIRST) if split else [None]):
                qid = "any/%s/%s" % (tag, span) + ("/%s" % first if first else "")
                bound = "%s; every name of %d..%d characters (any code points)%s; GET and HEAD" % (
                    where, lo, hi, ", first character: %s" % first if first else "")
                out.append(Q(qid, make_any(spelling, root, lo, hi, first), bound, timeout=timeout,
                             expect_cover=ALL_COVER, family="any", config={"root": spelling, "first": first}))
        shapes = [((2, 2, 1), "/")] if T or tag in MAIN else []
        if tag == "abs" and T:
            shapes += SHAPES_DEEP
        for seglens, sep in shapes:
            qid = "shape/%s/%s%s" % (tag, "-".join(map(str, seglens)), "" if sep == "/" else "/double")
            bound = "%s; names of %d segments of lengths %s (any characters but '/') joined by %r; GET and HEAD" % (
                where, len(seglens), list(seglens), sep)
            timeout = 120 if len(seglens) == 3 else 450          # measured <= 41 / <= 145 CPU s
            out.append(Q(qid, make_shape(spelling, root, seglens, sep), bound, timeout=timeout, expect_cover=ALL_COVER,
                         family="shape", config={"root": spelling, "segments": list(seglens), "sep": sep}))
    # the same relative root string under two working directories (tag, spelling, {cwd: what the root names})
    twice = [("rel", "r", ("/d", ("d", "r")), ("/", ("r",)))]
    if T:
        twice += [("rel-dot-slash", "./r/", ("/d", ("d", "r")), ("/", ("r",))),
                  ("dot", ".", ("/d/r", ("d", "r")), ("/r", ("r",)))]
    for tag, spelling, a, b in twice:
        for first, second in ((a, b), (b, a)):
            for lo, hi, split, timeout in SLICES[:3 if T else 1]:
                span = "len%d" % hi if lo == hi else "len%d-%d" % (lo, hi)
                names = [cwd.strip("/").replace("/", ".") or "top" for cwd in (first[0], second[0])]
                qid = "twice/%s/%s-then-%s/%s" % (tag, names[0], names[1], span)
                bound = ("root %r; one call (name 'f') with cwd %s, then cwd %s and every name of %d..%d characters (any "
                         "code points), GET and HEAD; root = /%s in the second call" % (
                             spelling, first[0], second[0], lo, hi, "/".join(second[1])))
                out.append(Q(qid, make_twice(spelling, first, second, lo, hi), bound, timeout=timeout,
                             expect_cover=ALL_COVER + ["first-served-open"], family="twice",
                             config={"root": spelling, "cwd": [first[0], second[0]]}))
    # an enclosing and a nested root in one process: (tag, outer, files of outer beside inner, inner, a file of inner)
    pairs = [("upper-abs", ("/d", ("d",)), ["s", "rx", "r2/s"], ("/d/r", ("d", "r")), ["f"])]
    if T:
        pairs += [("abs-nested", ("/d/r", ("d", "r")), ["f"], ("/d/r/sub", ("d", "r", "sub")), ["g"]),
                  ("upper-rel", ("/d/", ("d",)), ["s", "rx", "r2/s"], ("r", ("d", "r")), ["f"])]
    for tag, outer, outer_names, inner, inner_names in pairs:
        for order, first, names, second in (("outer-then-inner", outer, outer_names, inner),
                                            ("inner-then-outer", inner, inner_names, outer)):
            for lo, hi, split, timeout in SLICES[:3 if T else 2]:
                span = "len%d" % hi if lo == hi else "len%d-%d" % (lo, hi)
                bound = ("root %r serves %r, then root %r (= /%s) is asked for every name of %d..%d characters (any code "
                         "points), GET and HEAD; cwd %s" % (first[0], names, second[0], "/".join(second[1]), lo, hi, CWD))
                out.append(Q("tworoots/%s/%s/%s" % (tag, order, span), make_tworoots(first, names, second, lo, hi), bound,
                             timeout=timeout, expect_cover=ALL_COVER + ["first-served-open"], family="tworoots",
                             config={"roots": [first[0], second[0]], "first_names": names}))
    return out


def queries(tier):
    """Order: the quick set first, short queries first (every root and family gets its turn even if the machine is
    loaded and the budget cuts the run); then what thorough adds, long queries first (short tail)."""
    quick = {q.qid for q in build("quick")}
    return sorted(build(tier), key=lambda q: (0, q.timeout) if q.qid in quick else (1, -q.timeout))


class _Answer:
    def __init__(self, status_code, body=""):
        self.status_code = status_code
        self.body = body


def selftest(tier):
    stubs_c16.validate_normpath(7)
    stubs_c16.validate_fs(TREE, 5)
    # the oracle on hand-made behaviour: what a broken static_file would do must be called a failure
    root = ("d", "r")
    fs = stubs_c16.FakeFS(TREE, CWD)
    assert check_response(fs, root, "../s", _Answer(404)) is None
    assert "outside" in check_response(fs, root, "../s", _Answer(200))               # wrong status, nothing opened
    assert check_response(fs, root, "/../d/r/f", _Answer(200)) is None                # absolute reading: tolerated
    fs.stat("/d/r2/s")
    assert "describes /d/r2/s" in check_response(fs, root, "../r2/s", _Answer(200))  # HEAD leak
    for path in ("/d/rx", "../s", "/d/r/../r2/s", "/d/r/sub/../..", "//d//r/./sub/../../r2/s"):
        fs = stubs_c16.FakeFS(TREE, CWD)
        try:
            fs.open(path, "rb")
        except Exception:
            pass
        assert "open(" in check_response(fs, root, "f", _Answer(404)), path          # opened, whatever the answer
    small = "any/abs/len0-3"
    names = ["f", "u", "sub", "sub/", "", ".", "..", "../", "../s", "/../s", "\\..\\", "..\\s", "../r", "../.", "./f",
             "f/.", "//f", "f\\", "\x00", "\udc80", "sub/g"]
    out = [(small, {"name": n, "head": h}, "ok") for n in names if len(n) <= 3 for h in (False, True)]
    out.append((small, {"name": "../s", "head": False}, "rejected"))
    return out
