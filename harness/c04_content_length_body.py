"""C04 - Content-Length bodies arrive byte-exact under any read fragmentation."""
from vf.engine import assume, cover
from vf.query import Q
from vf import stubs

from ombott.request_pkg import body_mixin
from ombott.request_pkg.request import Request
from ombott.request_pkg.errors import RequestError

PROPERTY = "C04"
TECHNIQUE = ("bounded symbolic execution of _iter_body/_body_read/Request.body and Ombott.__call__ (CrossHair+z3), path-exhaustive over sizes, "
             "read fragmentation and the point at which the server's stream fails")
LEVEL_TEXT = ("Every execution path of the real Content-Length reader is explored for all stream sizes, Content-Length values, "
              "buffer sizes up to 2^20 and all lengths of the first 3-5 short reads (solver variables); z3 shows every "
              "not-taken branch infeasible, so within the bound the body equals the first min(avail,CL) bytes and no read "
              "asks beyond Content-Length. Family wsgi/ runs Ombott.__call__ on real bytes with a stream whose k-th read raises "
              "once (k symbolic), three handler kinds and max_body_size refusals: up to the end of the response no read asks "
              "for a byte beyond Content-Length. Bounded, not a proof: loop trips and number of short reads are capped.")
LEVEL_NOTE = ("Trusted: z3, CrossHair's int/bytes models, the SymStream/SizedPart/PyBytesIO stubs (content opaque to the "
              "reader), CPython for concrete steps. Outside: more short reads than fragments, sizes > 2^20, real files.")
FUNCTIONS = [
    "ombott.request_pkg.body_mixin:_iter_body",
    "ombott.request_pkg.body_mixin:_body_read",
    "ombott.request_pkg.body_mixin:BodyMixin._body",
    "ombott.request_pkg.body_mixin:BodyMixin.body",
    "ombott.request_pkg.body_mixin:BodyMixin.content_length",
    "ombott.ombott:Ombott.wsgi",
    "ombott.ombott:Ombott._handle",
]
STUBS = [
    "SymStream: wsgi.input.read(n) returns 1..n of the remaining bytes (first k reads capped by symbolic fragment "
    "lengths, later reads full), b'' at EOF",
    "SizedPart: opaque slice (offset,len) of the stream; only len()/truthiness are observable (integer queries)",
    "PyBytesIO: pure-Python stand-in for io.BytesIO / tempfile.TemporaryFile inside body_mixin, `spooled` flag",
    "FaultStream: SymStream whose k-th read() raises OSError once (family wsgi/)",
]
ASSUMPTIONS = [
    "bytes are opaque to the Content-Length reader (it never inspects content) - checked by running it on SizedPart "
    "objects that raise on any other operation",
    "CPython + CrossHair models of int arithmetic/min/comparisons; z3",
]
OUTSIDE = [
    "more short reads than the stated number of symbolic fragments (later reads return the full amount asked)",
    "sizes above 2**20 and more loop trips than fragments+4 (Content-Length <= 4*buffer after the fragments)",
    "real io.BytesIO / tempfile behaviour (stubbed); real OS files",
]
BUDGET_S = {"quick": 240, "thorough": 1100}

stubs.install_body_io()
M = 2 ** 20


def _check_parts(parts, a, c, asked):
    """parts: SizedPart list as received by the application."""
    want = min(a, c) if c > 0 else 0
    off = 0
    for p in parts:
        if p.start != off:
            return "bytes lost/reordered: part starts at %r, expected %r" % (p.start, off)
        off = off + p.n
    if off != want:
        return "body has %r bytes, expected first %r of the stream (avail=%r, Content-Length=%r)" % (off, want, a, c)
    got = 0
    for i, n in enumerate(asked):
        if n <= 0:
            return "read(%r) issued" % (n,)
        if n > c - got:
            return "read(%r) asks beyond Content-Length: %r already received of %r" % (n, got, c)
        got += parts[i].n if i < len(parts) else 0
    return None


def make_iter_body(nfrag, trips):
    def q(a: int, c: int, b: int, f1: int, f2: int, f3: int, f4: int, f5: int):
        frags = [f1, f2, f3, f4, f5][:nfrag]
        assume(0 <= a <= M and -1 <= c <= M and 1 <= b <= M)
        for f in frags:
            assume(1 <= f <= M)
        assume(c <= trips * b)
        s = stubs.SymStream(a, frags)
        parts = list(body_mixin._iter_body(s.read, b, content_length=c))
        if len(parts) > nfrag:
            cover("beyond-fragments")
        if a < c:
            cover("early-eof")
        return _check_parts(parts, a, c, s.asked)
    return q


def make_body_read(nfrag, trips):
    def q(a: int, c: int, b: int, f1: int, f2: int, f3: int):
        frags = [f1, f2, f3][:nfrag]
        assume(0 <= a <= M and -1 <= c <= M and 1 <= b <= M)
        for f in frags:
            assume(1 <= f <= M)
        assume(c <= trips * b)
        s = stubs.SymStream(a, frags)
        body = body_mixin._body_read(s.read, b, content_length=c, chunked=False, max_body_size=None)
        parts = body.getvalue()
        if not isinstance(parts, list):
            parts = []
        r = _check_parts(parts, a, c, s.asked)
        if r:
            return r
        total = sum(p.n for p in parts)
        if total > b:
            cover("spooled")
            if not body.spooled:
                return "body of %r bytes above threshold %r kept in memory" % (total, b)
        return None
    return q


CONTENT_TYPES = [None, "", "application/octet-stream", "application/json", "application/json; charset=utf-8",
                 "application/x-www-form-urlencoded", "text/plain", "multipart/form-data", "multipart/form-data; boundary=b"]


def make_request_body(a, c, nfrag):
    """Byte-level, through Request.body with real bytes (a, c concrete; fragmentation + threshold symbolic)."""
    data = bytes(range(65, 65 + a))

    def q(t: int, f1: int, f2: int, f3: int, ct: int, mb: int):
        frags = [f1, f2, f3][:nfrag]
        assume(1 <= t <= 9)
        assume(0 <= ct < len(CONTENT_TYPES))
        assume(-1 <= mb <= 4)                   # max_body_size: -1 = not configured (None), else 0..4 bytes
        for f in frags:
            assume(1 <= f <= 8)
        s = stubs.SymStream(a, frags, data=data)
        env = {"wsgi.input": s, "REQUEST_METHOD": "POST"}
        if c is not None:
            env["CONTENT_LENGTH"] = str(c)
        if CONTENT_TYPES[ct] is not None:        # the raw body is the same bytes whatever the declared media type
            env["CONTENT_TYPE"] = CONTENT_TYPES[ct]
        rq = Request(env, config={"max_memfile_size": t, "max_body_size": None if mb < 0 else mb})
        want = data[:max(0, min(a, c if c is not None else -1))]
        refused = False
        try:
            got = rq.body.read()
            again = rq.body.read()
        except RequestError as e:
            if not (0 <= mb < len(want)):
                return "unexpected request error %r" % (e,)
            refused = True                      # above the configured maximum: refused, but still nothing read beyond Content-Length
            cover("refused")
        if not refused:
            if 0 <= mb < len(want):
                return "body of %d bytes accepted with max_body_size %d" % (len(want), mb)
            if got != want:
                return "Request.body.read() = %r, expected %r" % (got, want)
            if again != want:
                return "second access differs: %r" % (again,)
            if env["wsgi.input"] is s or env["wsgi.input"] is not rq._body:
                return "wsgi.input not replaced by the buffered copy"
        got_n = 0
        for n, m in zip(s.asked, s.given):
            if n > (c or 0) - got_n or n <= 0:
                return "read(%r) beyond Content-Length %r (already %r)" % (n, c, got_n)
            got_n += m
        if len(want) > t:
            cover("spooled")
        return None
    return q


# ---------------------------------------------------------------- several handles on one buffered body (real files)
HANDLE_N = 6000                                  # larger than the read buffer of a file object (4096 / 8192)
HANDLE_DATA = bytes(i % 251 for i in range(HANDLE_N))
HANDLE_OPS = ("A.body.read(16)", "A.body.read()", "B = A.copy()", "B.body.read(16)", "B.body.read()")


def _concrete(o, hi):
    """the solver integer as a plain int (one branch per value)"""
    for v in range(hi + 1):
        if o == v:
            return v
    assume(False)


def make_handles(spill, nops, first):
    """The body is buffered by the first access, then the application works with the request AND a copy of it
    (Request.copy(), made after the body was buffered): any sequence of partial and full reads on the two objects - every
    full read is the body, every partial read its first bytes.  The real io.BytesIO / tempfile.TemporaryFile are used here
    (the data is concrete; the solver chooses the operations)."""
    import io
    import tempfile

    def q(o1: int, o2: int, o3: int, o4: int, o5: int):
        ops = [_concrete(o1, 1)]                 # the first access buffers the body
        have_copy = False
        for o in [o2, o3, o4, o5][:nops - 1]:
            o = _concrete(o, 4)
            if o == 2:
                have_copy = True
            elif o >= 3:
                assume(have_copy)
            ops.append(o)
        saved = body_mixin.BytesIO, body_mixin.TemporaryFile
        body_mixin.BytesIO, body_mixin.TemporaryFile = io.BytesIO, tempfile.TemporaryFile
        try:
            s = stubs.SymStream(HANDLE_N, [first], data=HANDLE_DATA)
            A = Request({"wsgi.input": s, "REQUEST_METHOD": "POST", "CONTENT_LENGTH": str(HANDLE_N)},
                        config={"max_memfile_size": 100 if spill else 8192, "max_body_size": None})
            B = None
            for i, o in enumerate(ops):
                if o == 2:
                    B = A.copy()
                    cover("copied")
                    continue
                rq = A if o < 2 else B
                if o in (0, 3):
                    got, want = rq.body.read(16), HANDLE_DATA[:16]
                else:
                    got, want = rq.body.read(), HANDLE_DATA
                    cover("full-read-on-copy" if o == 4 else "full-read")
                if got != want:
                    return "step %d of %r: %s returned %d bytes%s, the body has %d" % (
                        i + 1, [HANDLE_OPS[x] for x in ops], HANDLE_OPS[o], len(got),
                        "" if got == want[:len(got)] else " (content differs)", len(want))
            got_n = 0
            for n, m in zip(s.asked, s.given):
                if n > HANDLE_N - got_n or n <= 0:
                    return "read(%r) beyond Content-Length %r (already %r)" % (n, HANDLE_N, got_n)
                got_n += m
        finally:
            body_mixin.BytesIO, body_mixin.TemporaryFile = saved
        return None
    return q


COPY_FIRST_OPS = ("A.body.read(16)", "A.body.read()", "B.body.read(16)", "B.body.read()")


def make_copy_first(spill):
    """B = A.copy() BEFORE the body was buffered, then three reads (solver integers) on the two objects"""
    import io
    import tempfile

    def q(o2: int, o3: int, o4: int):
        ops = [_concrete(o, 3) for o in (o2, o3, o4)]
        saved = body_mixin.BytesIO, body_mixin.TemporaryFile
        body_mixin.BytesIO, body_mixin.TemporaryFile = io.BytesIO, tempfile.TemporaryFile
        try:
            s = stubs.SymStream(HANDLE_N, [4096], data=HANDLE_DATA)
            A = Request({"wsgi.input": s, "REQUEST_METHOD": "POST", "CONTENT_LENGTH": str(HANDLE_N)},
                        config={"max_memfile_size": 100 if spill else 8192, "max_body_size": None})
            B = A.copy()
            for i, o in enumerate(ops):
                rq = A if o < 2 else B
                got = rq.body.read(16) if o in (0, 2) else rq.body.read()
                want = HANDLE_DATA[:16] if o in (0, 2) else HANDLE_DATA
                cover("read-on-copy" if o >= 2 else "read")
                if got != want:
                    return "B = A.copy() before the first access, then %r: step %d returned %d bytes, expected %d" % (
                        [COPY_FIRST_OPS[x] for x in ops], i + 1, len(got), len(want))
            got_n = 0
            for n, m in zip(s.asked, s.given):
                if n > HANDLE_N - got_n or n <= 0:
                    return "B = A.copy() before the first access, then %r: read(%r) beyond Content-Length %r (already %r)" % (
                        [COPY_FIRST_OPS[x] for x in ops], n, HANDLE_N, got_n)
                got_n += m
        finally:
            body_mixin.BytesIO, body_mixin.TemporaryFile = saved
        return None
    return q


MP_BODY = b'--b\r\nContent-Disposition: form-data; name="f"\r\n\r\nv\r\n--b--\r\nepilogue'


def make_request_body_multipart(typed):
    """the raw body of a request whose content is a well-formed multipart form (closing delimiter, CRLF, epilogue): the
    first read() of the server returns v bytes only (every v), buffer sizes on both sides of every offset"""
    n = len(MP_BODY)
    lens = [1, 10, 30] + list(range(n - 20, n + 1))          # short reads ending around the closing delimiter and the epilogue
    thresholds = [3, 16] + list(range(n - 10, n + 2))
    cuts = [0, 2, 8, 11]

    def q(v: int, t: int, c: int):
        assume(0 <= v < len(lens) and 0 <= t < len(thresholds) and 0 <= c < len(cuts))
        cl = n - cuts[c]                              # Content-Length: the whole form or less (cut in the epilogue / delimiter)
        s = stubs.SymStream(n, [lens[v]], data=MP_BODY)
        env = {"wsgi.input": s, "REQUEST_METHOD": "POST", "CONTENT_LENGTH": str(cl)}
        if typed:
            env["CONTENT_TYPE"] = "multipart/form-data; boundary=b"
        rq = Request(env, config={"max_memfile_size": thresholds[t]})
        try:
            got = rq.body.read()
        except RequestError as e:
            return "unexpected request error %r" % (e,)
        if got != MP_BODY[:cl]:
            return "Content-Length %d of a %d byte multipart form, first read() %d bytes, buffer %d: Request.body.read() = %r" % (
                cl, n, lens[v], thresholds[t], got)
        if sum(s.given) > cl:
            return "read beyond Content-Length"
        cover("typed" if typed else "untyped")
        return None
    return q


FaultStream = stubs.FaultStream


def make_wsgi(a):
    """through Ombott.__call__: the handler reads the body, ignores it, or reads it and goes on after a failure; the body
    may be refused (max_body_size) or the stream may fail once at its k-th read.  Whatever happens up to the end of the
    response (framework code that runs after the handler included), no read asks for a byte beyond Content-Length."""
    import ombott
    data = bytes(range(65, 65 + a))

    def q(c: int, t: int, f1: int, f2: int, hk: int, mb: int, fault: int):
        assume(0 <= c <= a + 1 and 1 <= t <= 5 and 1 <= f1 <= 4 and 1 <= f2 <= 4)
        assume(0 <= hk <= 2 and -1 <= mb <= a and 0 <= fault <= 4)
        s = FaultStream(a, [f1, f2], data, fault)
        app = ombott.Ombott({"max_memfile_size": t, "max_body_size": None if mb < 0 else mb})
        seen = []

        def handler():
            if hk == 1:
                return "ignored"
            if hk == 0:
                seen.append(app.request.body.read())
                return "read"
            try:
                seen.append(app.request.body.read())
            except OSError:
                seen.append("stream failed")
            return "went on"
        app.route("/u", method="POST", callback=handler)
        env = {"REQUEST_METHOD": "POST", "PATH_INFO": "/u", "wsgi.input": s, "CONTENT_LENGTH": str(c), "SERVER_NAME": "h",
               "SERVER_PORT": "80", "wsgi.url_scheme": "http",
               "wsgi.errors": type("E", (), {"write": staticmethod(lambda text: None)})}
        started = []
        out = app(env, lambda st, hd, ei=None: started.append(st))
        b"".join(out)
        if hasattr(out, "close"):
            out.close()
        want = data[:min(a, c)]
        got_n = 0
        for n, m in zip(s.asked, s.given):
            if n is None or n <= 0 or n > c - got_n:
                return "read(%r) beyond Content-Length %r (%r bytes received before; handler kind %d, fault at read %d, " \
                       "max_body_size %r, answered %r): reads asked %r, given %r" % (n, c, got_n, hk, fault, mb, started, s.asked, s.given)
            got_n += m
        failed = 0 < fault <= len(s.asked) and s.given[fault - 1] == 0 and s.asked[fault - 1] > 0 and fault <= s.calls
        if hk != 1 and not failed and not (0 <= mb < len(want)):
            cover("delivered")
            if seen != [want] or started[0][:3] != "200":
                return "body %r (Content-Length %r, %d bytes available) presented as %r, answered %r" % (want, c, a, seen, started)
        elif hk != 1 and failed:
            cover("stream-failed")
        elif hk != 1:
            cover("refused")
            if started[0][:3] != "413":
                return "body of %d bytes with max_body_size %d answered %r" % (len(want), mb, started)
        else:
            cover("ignored")
        return None
    return q


def queries(tier):
    out = []
    for a in ([4] if tier == "quick" else [0, 2, 4, 6]):
        out.append(Q("wsgi/a%d" % a, make_wsgi(a),
                     "Ombott.__call__, POST with %d real bytes available: Content-Length 0..%d, max_memfile_size 1..5, two short-read "
                     "lengths 1..4, max_body_size None or 0..%d, handler kind (reads the body / ignores it / reads it and goes on "
                     "after a stream failure), the stream's k-th read() raises once (k in 0..4, 0 = never): all symbolic; reads "
                     "are judged up to the end of the response" % (a, a + 1, a),
                     timeout=200 if tier == "quick" else 600,
                     expect_cover=(["delivered", "ignored"] + (["stream-failed", "refused"] if a else [])), family="wsgi"))
    for spill, first in ([(True, 4096)] if tier == "quick" else [(True, 4096), (True, 1), (True, 5999), (False, 4096)]):
        nops = 5 if spill else 4
        if True:
            out.append(Q("handles/%s/ops%d/first%d" % ("file" if spill else "memory", nops, first), make_handles(spill, nops, first),
                         "body of %d concrete bytes, Content-Length framed, first read of the server short, held "
                         "%s (real io.BytesIO / tempfile.TemporaryFile); first access on the request, then every sequence of %d "
                         "operations of %r (solver integers; the copy is made after the body was buffered): every read returns the "
                         "body / its first 16 bytes, the stream is not read beyond Content-Length"
                         % (HANDLE_N, "in a temporary file (max_memfile_size 100)" if spill else "in memory", nops - 1, list(HANDLE_OPS)),
                         timeout=300 if tier == "quick" else 600, expect_cover=["copied", "full-read-on-copy"], family="handles"))
    for spill in ((True,) if tier == "quick" else (True, False)):
        out.append(Q("handles/copy-first/%s" % ("file" if spill else "memory"), make_copy_first(spill),
                     "body of %d concrete bytes held %s; B = A.copy() BEFORE the body was buffered, then every sequence of 3 operations "
                     "of %r (solver integers)" % (HANDLE_N, "in a temporary file" if spill else "in memory", list(COPY_FIRST_OPS)),
                     timeout=200, expect_cover=["read", "read-on-copy"], family="handles"))
    nf = 3 if tier == "quick" else 5
    out.append(Q("iter_body/int/f%d" % nf, make_iter_body(nf, 3 if tier == "quick" else 4),
                 "all avail a, Content-Length c in [-1,2^20], buffer b in [1,2^20], %d symbolic short-read lengths, "
                 "c <= %d*b" % (nf, 3 if tier == "quick" else 4),
                 timeout=150 if tier == "quick" else 900, expect_cover=["beyond-fragments", "early-eof"], family="iter_body"))
    nf2 = 2 if tier == "quick" else 3
    out.append(Q("body_read/int/f%d" % nf2, make_body_read(nf2, 3),
                 "as iter_body through _body_read incl. spool switch; %d fragments, c <= 3*b" % nf2,
                 timeout=150 if tier == "quick" else 900, expect_cover=["spooled"], family="body_read"))
    for typed in (True, False):
        out.append(Q("request_body/multipart-shaped/%s" % ("typed" if typed else "untyped"), make_request_body_multipart(typed),
                     "Request.body of a %d byte well-formed multipart form (with epilogue), %s; first read() of the server "
                     "returns v bytes (v in 1, 10, 30, len-20..len), max_memfile_size in 3, 16, len-10..len+1, Content-Length "
                     "len - (0, 2, 8, 11)" % (len(MP_BODY), "declared multipart/form-data; boundary=b" if typed else "no Content-Type"),
                     timeout=600, expect_cover=["typed" if typed else "untyped"], family="request_body"))
    amax = 3 if tier == "quick" else 5
    for a in range(0, amax + 1):
        for c in [None, 0] + list(range(1, amax + 2)):
            if tier == "quick" and c is not None and abs((c or 0) - a) > 1 and c not in (0,):
                continue
            out.append(Q("request_body/a%d/c%s" % (a, c), make_request_body(a, c, 2 if tier == "quick" else 3),
                         "Request.body, %d real bytes available, Content-Length=%s, Content-Type one of the 9 listed (solver index), symbolic memfile threshold 1..9 and "
                         "%d short-read lengths 1..8" % (a, c, 2 if tier == "quick" else 3),
                         timeout=60 if tier == "quick" else 200, family="request_body", config={"a": a, "c": c}))
    return out


def selftest(tier):
    qs = {q.qid: q for q in queries(tier)}
    first = next(k for k in qs if k.startswith("iter_body"))
    return [
        (first, dict(a=27, c=27, b=9, f1=9, f2=9, f3=9, f4=9, f5=9), "ok"),        # the repo's own test body size
        (first, dict(a=0, c=5, b=4, f1=1, f2=1, f3=1, f4=1, f5=1), "ok"),
    ]
