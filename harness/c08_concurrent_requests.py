"""C08 - concurrent requests on one application never see each other (statement-level and callback-level preemption)."""
from vf.engine import assume, cover
from vf.query import Q
from vf import stubs
from vf import instrument

instrument.install("ombott")     # scheduling points in front of every statement of ombott's functions (this process only)
import ombott                    # noqa: E402
from ombott import HTTPError, HTTPResponse

PROPERTY = "C08"
TECHNIQUE = ("bounded symbolic execution of Ombott.__call__ (CrossHair+z3) with threading.local replaced by a simulated-thread "
             "stub: 2-3 simulated threads share one application; the schedule is a solver variable: (a) the number of the "
             "ombott statement of T0's request in front of which T1's whole request runs (every statement of every function "
             "of the package, scheduling points inserted at import from the current source), (b) user-callback and "
             "framework call boundaries together with symbolic request data and handler writes; oracle = each request "
             "served alone")
LEVEL_TEXT = ("BOUNDED SCHEDULES. threading.local is replaced by SimLocal (one namespace per object and simulated thread). "
              "Family stmt/: both requests concrete, the solver chooses k; thread T1 serves a complete request on the SAME "
              "application in front of the k-th statement that thread T0's request executes inside ombott (all 330-640 "
              "statements, every function of the package: the modules are compiled from /repo's current source with a "
              "scheduling point in front of each statement of each function body); every k is decided. Family threads/: "
              "T0 is preempted at a solver-chosen user-callback boundary (before-hook, handler entry, after the handler's "
              "writes, between two items of a lazily produced body while the server iterates it, after-hook) or framework "
              "call boundary (RadiRouter.resolve, Route.__getitem__, Ombott._cast, HTTPResponse.apply, headerlist, "
              "error_render.render) by T1 (which may itself be preempted by T2), with symbolic request data and handler "
              "writes of all threads. Inside the bound every response equals the one the same request produces alone and "
              "each handler sees only its own request/response. Schedules are LIFO (the preempting thread runs its whole "
              "request) with one preemption per thread.")
LEVEL_NOTE = ("Trusted: z3, CrossHair str models, the SimLocal/SimThreads stub (contract of threading.local), the AST "
              "instrumentation of vf/instrument.py (inserts calls only). Outside: switches between two bytecodes of one "
              "statement, non-LIFO interleavings (two requests alternating more than once), real OS threads, more than 3 "
              "threads.")
FUNCTIONS = [
    "ombott.common_helpers:ts_props", "ombott.common_helpers:HeaderDict.__init__", "ombott.ombott:Ombott._handle",
    "ombott.ombott:Ombott._cast", "ombott.ombott:Ombott.wsgi", "ombott.ombott:Ombott.emit", "ombott.ombott:Ombott.to_route",
    "ombott.request_pkg.request:BaseRequest.__init__", "ombott.response:BaseResponse.__init__",
    "ombott.response:BaseResponse.set_cookie", "ombott.response:HTTPResponse.apply",
    "ombott.router.radidict:RadiDict.get", "ombott.router.radirouter:RadiRouter.resolve", "ombott.error_render:render",
]
STUBS = ["SimLocal/SimThreads for `threading` inside ombott.common_helpers (every application of this harness)",
         "vf.instrument: every ombott module is compiled from its current source with a call __vf_pp__() in front of each "
         "statement of each function body (no other change; /repo untouched); the call is a no-op unless a stmt/ query is "
         "counting",
         "call-boundary wrappers around RadiRouter.resolve, Route.__getitem__, Ombott._cast, HTTPResponse.apply, "
         "BaseResponse.headerlist, error_render.render: call the scenario's scheduler, then the original (no other change)"]
ASSUMPTIONS = ["threading.local gives each thread its own attribute namespace per local object (the stub's contract)",
               "a thread switch happens between two statements (CPython switches between bytecodes: a switch inside one "
               "statement is outside)"]
OUTSIDE = ["switches inside one statement", "non-LIFO schedules (the preempted request resumes only after the other finished)",
           "more than one preemption per thread, more than 3 threads", "threads/ family: request text beyond 1 letter/digit; "
           "stmt/ family: request data other than the concrete requests of each kind"]
BUDGET_S = {"quick": 240, "thorough": 1000}

stubs.install_sim_threads()
ombott.error_render.render(HTTPError(500, "x"), "http://h/", False)

POINTS = ["none", "before_hook", "handler_entry", "after_writes", "between_items", "after_hook",
          # framework-internal call boundaries (entry of the wrapped functions below)
          "router_resolve", "route_lookup", "cast", "apply", "headerlist", "render"]

# ---- preemption points at framework-internal CALL boundaries: the functions are wrapped in this process only; a wrapper
# ---- calls the scheduler of the running scenario and then the original
CUR = [None]


def _point(point, orig):
    def w(*a, **kw):
        s = CUR[0]
        if s is not None:
            s(point)
        return orig(*a, **kw)
    return w


def _install_points():
    from ombott.router.radirouter import RadiRouter, Route
    from ombott.response import BaseResponse
    from ombott import error_render
    if getattr(RadiRouter.resolve, "_c08", False):
        return
    RadiRouter.resolve = _point("router_resolve", RadiRouter.resolve)
    RadiRouter.resolve._c08 = True
    Route.__getitem__ = _point("route_lookup", Route.__getitem__)
    ombott.Ombott._cast = _point("cast", ombott.Ombott._cast)
    HTTPResponse.apply = _point("apply", HTTPResponse.apply)
    BaseResponse.headerlist = property(_point("headerlist", BaseResponse.headerlist.fget))
    error_render.render = _point("render", error_render.render)


_install_points()
KINDS = ["gen", "str", "raise", "crash", "404", "badbody", "chunkbody"]
STATUS = [200, 404]


class Err:
    def write(self, t):
        pass


def env_for(kind, seg, qs, cookie):
    path = {"gen": "/g/", "str": "/s/", "raise": "/r/", "crash": "/c/", "404": "/nope/", "badbody": "/m/", "chunkbody": "/b/"}[kind] + seg
    env = {"REQUEST_METHOD": "GET", "PATH_INFO": path, "QUERY_STRING": qs, "HTTP_COOKIE": "c=" + cookie, "SERVER_NAME": "h",
           "SERVER_PORT": "80", "wsgi.url_scheme": "http", "wsgi.errors": Err(), "SERVER_PROTOCOL": "HTTP/1.1",
           "HTTP_X_IN": "in-" + seg}
    if kind == "badbody":
        # malformed multipart body whose parsing error names a field that only this request submitted; JSON client, so the
        # error document shows the error that was raised for THIS request
        import io
        body = b'--b\r\nContent-Disposition: form-data; name="field-of-' + cookie.encode() + b'"\r\n\r\n\xff\r\n--b--\r\n'
        env.update({"REQUEST_METHOD": "POST", "CONTENT_TYPE": "multipart/form-data; boundary=b", "CONTENT_LENGTH": str(len(body)),
                    "wsgi.input": io.BytesIO(body)})
        if cookie != "c1":       # T1 is a browser, the others JSON clients: the error documents differ in type and length
            env["HTTP_ACCEPT"] = "application/json"
    if kind == "chunkbody":
        # a raw body in chunked framing (two chunks, sizes 1x and 0x1y digits), different for every thread
        import io
        first, second = ("first-" + cookie).encode(), (seg + "-" + "z" * 17 + "-" + cookie).encode()
        raw = b"%x\r\n%s\r\n%X;ext=1\r\n%s\r\n0\r\n\r\n" % (len(first), first, len(second), second)
        env.update({"REQUEST_METHOD": "POST", "HTTP_TRANSFER_ENCODING": "chunked", "wsgi.input": io.BytesIO(raw)})
    return env


def build_app(sched):
    """sched(point) is called at every user-callback boundary of the current simulated thread"""
    from ombott.ombott import DefaultConfig
    # errors_map with the default contents but objects of its own (the default map is shared process-wide, see C09/C10)
    app = ombott.Ombott({"errors_map": {c: HTTPError(e.status_code, e.body) for c, e in DefaultConfig.errors_map.items()}})
    seen = sched.seen

    def me():
        r = app.request
        return (r.path, r.query_string, r.get_cookie("c"), r.headers.get("X-In"))

    app.add_hook("before_request", lambda: (sched("before_hook"), seen.append((stubs.SimThreads.cur, "before", me()))))
    app.add_hook("after_request", lambda: (sched("after_hook"), seen.append((stubs.SimThreads.cur, "after", me()))))

    def writes(x):
        w = sched.writes[stubs.SimThreads.cur]
        app.response.status = w[0]
        app.response.headers["X-Out"] = w[1] + x
        app.response.set_cookie("sid", w[2])   # concrete tag: http.cookies on symbolic text is very costly

    @app.route("/g/:x")
    def gen(x):
        sched("handler_entry")
        writes(x)
        sched("after_writes")
        seen.append((stubs.SimThreads.cur, "handler", me()))

        def body():
            yield "1:" + app.request.query_string
            sched("between_items")
            yield "2:" + app.request.path + ":" + str(app.response.status_code)
        return body()

    @app.route("/s/new")          # a literal sibling of the wildcard rule: paths like /s/n1 make the router backtrack
    def s_new():
        return "new"

    @app.route("/s/:x")
    def s(x):
        sched("handler_entry")
        writes(x)
        sched("after_writes")
        seen.append((stubs.SimThreads.cur, "handler", me()))
        return "s:" + x + ":" + app.request.query_string

    @app.route("/r/:x")
    def r(x):
        sched("handler_entry")
        writes(x)
        sched("after_writes")
        raise HTTPResponse("raised:" + x, 202, X_R=x)

    @app.route("/m/:x", method="POST")
    def m(x):
        sched("handler_entry")
        writes(x)
        sched("after_writes")
        return "fields:" + ",".join(app.request.forms)

    @app.route("/b/:x", method="POST")
    def b(x):
        sched("handler_entry")
        data = app.request.body.read()
        writes(x)
        sched("after_writes")
        return b"body:" + data

    @app.route("/c/:x")
    def c(x):
        sched("handler_entry")
        writes(x)
        sched("after_writes")
        raise ValueError("boom")
    return app


def serve(app, env):
    got = []
    it = app(env, lambda s, h, e=None: got.append((s, sorted(h))))
    chunks = [c for c in it]
    close = getattr(it, "close", None)
    if close:
        close()
    return got, b"".join(chunks)


class Sched:
    """LIFO scheduler: thread Ti is preempted once, at plan[Ti], by thread Ti+1 which runs a whole request"""

    def __init__(self, plan, requests, writes):
        self.plan = plan            # {"T0": point, "T1": point}
        self.requests = requests    # {"T1": env factory, "T2": ...}
        self.writes = writes
        self.results = {}
        self.seen = []
        self.app = None
        self.done = set()

    def __call__(self, point):
        cur = stubs.SimThreads.cur
        if self.plan.get(cur) != point or cur in self.done:
            return
        self.done.add(cur)
        nxt = "T%d" % (int(cur[1:]) + 1)
        if nxt not in self.requests:
            return
        stubs.SimThreads.cur = nxt
        try:
            self.results[nxt] = serve(self.app, self.requests[nxt]())
        finally:
            stubs.SimThreads.cur = cur


def alone(kind, seg, qs, cookie, write):
    stubs.SimThreads.cur = "T0"
    s = Sched({}, {}, {"T0": write})
    CUR[0] = s
    app = build_app(s)
    s.app = app
    return serve(app, env_for(kind, seg, qs, cookie)), [x[1:] for x in s.seen]


def make(k0, k1, k2):
    inner = _make(k0, k1, k2)
    if k2:
        def q(p0: int, p1: int, a: str):
            return inner(p0, p1, a, "b", 0, 1, "")
    else:
        def q(p0: int, a: str, b: str, sa: int, hv: str):
            return inner(p0, 0, a, b, sa, 1, hv)
    return q


def _make(k0, k1, k2):
    def q(p0, p1, a, b, sa, sb, hv):
        assume(0 <= p0 < len(POINTS) and 0 <= p1 < len(POINTS))
        assume(len(a) == 1 and len(b) == 1 and len(hv) <= 1)
        for ch in a + b + hv:
            o = ord(ch)
            assume(48 <= o <= 57 or 97 <= o <= 122)
        assume(0 <= sa < len(STATUS) and 0 <= sb < len(STATUS))
        reqs = {"T0": (k0, a, "q=" + a, "c0"), "T1": (k1, b, "q=" + b, "c1")}
        writes = {"T0": (STATUS[sa], "o" + hv, "s0"), "T1": (STATUS[sb], "p" + hv, "s1")}
        if k2:
            reqs["T2"] = (k2, "z", "q=z", "cz")
            writes["T2"] = (201, "t2", "s2")
        refs = {t: alone(*reqs[t], writes[t]) for t in reqs}
        stubs.SimThreads.cur = "T0"
        plan = {"T0": POINTS[p0], "T1": POINTS[p1]}
        s = Sched(plan, {t: (lambda t=t: env_for(*reqs[t])) for t in reqs if t != "T0"}, writes)
        CUR[0] = s
        app = build_app(s)
        s.app = app
        s.results["T0"] = serve(app, env_for(*reqs["T0"]))
        for t, res in s.results.items():
            if res != refs[t][0]:
                return "plan %r: thread %s (%s request) got %r, alone %r" % (plan, t, reqs[t][0], res, refs[t][0])
            mine = [x[1:] for x in s.seen if x[0] == t]
            if mine != refs[t][1]:
                return "plan %r: callbacks of thread %s saw %r, alone %r" % (plan, t, mine, refs[t][1])
        if "T1" in s.results:
            cover("preempted")
        if "T2" in s.results:
            cover("nested-preemption")
        return None
    return q


# ---------------------------------------------------------------- preemption between two framework statements
class StmtSched:
    """counts the statements simulated thread T0 executes inside ombott (scheduling points of vf.instrument) and lets
    thread T1 serve a whole request on the same application in front of statement number k"""

    def __init__(self, k, app, env1):
        self.k, self.app, self.env1 = k, app, env1
        self.count = 0
        self.result = None

    def __call__(self):
        if stubs.SimThreads.cur != "T0":
            return
        self.count += 1
        if self.count == self.k:
            stubs.SimThreads.cur = "T1"
            try:
                self.result = serve(self.app, self.env1)
            finally:
                stubs.SimThreads.cur = "T0"


STMT_REQ = {"T0": ("n1", "q=0", "c0"), "T1": ("n2", "q=1", "c1")}
STMT_WRITES = {"T0": (200, "o0", "s0"), "T1": (404, "p1", "s1")}
BITS = 11


def stmt_alone(kind, t):
    ref = alone(kind, *STMT_REQ[t], STMT_WRITES[t])
    CUR[0] = None
    return ref


def stmt_run(k0, k1, k):
    stubs.SimThreads.cur = "T0"
    s = Sched({}, {}, STMT_WRITES)
    CUR[0] = None
    app = build_app(s)
    s.app = app
    st = StmtSched(k, app, env_for(k1, *STMT_REQ["T1"]))
    instrument.set_hook(st)
    try:
        r0 = serve(app, env_for(k0, *STMT_REQ["T0"]))
    finally:
        instrument.set_hook(None)
    return r0, st, s.seen


def make_stmt(k0, k1):
    """both requests are concrete; the solver variable is the schedule: the number k (given by its binary digits, one
    decision each) of the ombott statement of T0's request in front of which T1's whole request runs"""
    refs = {"T0": stmt_alone(k0, "T0"), "T1": stmt_alone(k1, "T1")}
    n0 = stmt_run(k0, k1, 0)[1].count               # statements T0's request executes inside ombott
    assert 0 < n0 < 2 ** BITS, n0

    def q(b0: bool, b1: bool, b2: bool, b3: bool, b4: bool, b5: bool, b6: bool, b7: bool, b8: bool, b9: bool, b10: bool):
        k = 0
        for i, b in enumerate((b0, b1, b2, b3, b4, b5, b6, b7, b8, b9, b10)):
            if b:
                k += 1 << i
        assume(1 <= k <= n0)
        r0, st, seen = stmt_run(k0, k1, k)
        if st.result is None:
            return "T0 executed %d statements natively but only %d now: statement %d not reached" % (n0, st.count, k)
        cover("preempted")
        for t, res, kind in (("T0", r0, k0), ("T1", st.result, k1)):
            if res != refs[t][0]:
                return "T1's request served in front of statement %d of %d of T0's %s request: thread %s (%s request) got %r, alone %r" % (
                    k, n0, k0, t, kind, res, refs[t][0])
            mine = [x[1:] for x in seen if x[0] == t]
            if mine != refs[t][1]:
                return "T1's request served in front of statement %d of %d: callbacks of thread %s saw %r, alone %r" % (
                    k, n0, t, mine, refs[t][1])
        return None
    return q, n0


def queries(tier):
    T = tier == "thorough"
    out = []
    pairs = [("str", "str"), ("gen", "raise"), ("badbody", "badbody"), ("404", "str"), ("chunkbody", "chunkbody")]
    if T:
        pairs += [(a, b) for a in KINDS for b in KINDS if (a, b) not in pairs]
    for k0, k1 in pairs:
        fn, n0 = make_stmt(k0, k1)
        out.append(Q("stmt/%s-%s" % (k0, k1), fn,
                     "T0 serves the %r request %r; thread T1's complete %r request %r runs on the same application in front "
                     "of statement k of the ombott code T0 executes, every k in 1..%d (all statements of all functions of the "
                     "package, instrumented from the current source); LIFO, one preemption"
                     % (k0, STMT_REQ["T0"], k1, STMT_REQ["T1"], n0),
                     timeout=700 if not T else 1000, per_path_timeout=60, expect_cover=["preempted"], family="stmt",
                     config={"t0": k0, "t1": k1, "statements": n0}))
    combos = [("gen", "gen", None), ("gen", "str", None), ("str", "raise", None), ("gen", "crash", None), ("raise", "404", None),
              ("badbody", "badbody", None), ("str", "badbody", None), ("gen", "gen", "str")]
    if T:
        # (chunked bodies with symbolic request text cost > 700 CPU s per query: that kind is in the stmt/ family only)
        combos += [(a, b, None) for a in KINDS for b in KINDS if (a, b, None) not in combos and "chunkbody" not in (a, b)]
        combos += [("gen", "raise", "crash"), ("str", "gen", "gen"), ("crash", "gen", "404")]
    for k0, k1, k2 in combos:
        out.append(Q("threads/%s-%s%s" % (k0, k1, "-" + k2 if k2 else ""), make(k0, k1, k2),
                     "T0 serves a %r request, preempted at a solver-chosen point of %r by T1 serving a %r request%s on the same "
                     "application; path segment of both (1 letter/digit), header value written (<= 1), T0's status from %r "
                     "symbolic (3-thread query: preemption points of T0 and T1 and T0's segment)" % (k0, POINTS, k1, (" (itself preempted by T2 serving %r)" % k2) if k2 else "", STATUS),
                     timeout=700 if not T else 1200, per_path_timeout=60, expect_cover=["preempted"], family="threads"))
    return out


def selftest(tier):
    return [("threads/gen-gen", dict(p0=4, a="a", b="b", sa=0, hv="v"), "ok")]
