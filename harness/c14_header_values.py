"""C14 - response header values cannot split the response and are wire-safe."""
from http.cookies import SimpleCookie

from vf.engine import assume, cover
from vf.query import Q
from vf import stubs_c14

import ombott
from ombott.response import BaseResponse, Response, HTTPResponse, HTTPError

PROPERTY = "C14"
TECHNIQUE = ("bounded symbolic execution of _hval, the guarded HeaderDict setters, HeaderProperty, the response constructors, "
             "BaseResponse.headerlist and Ombott.__call__ (CrossHair+z3): symbolic header value (any code point, control "
             "characters at any position), symbolic int/bool, symbolic status and header subset; oracle = reference header "
             "store + Latin-1/UTF-8 round trip + RFC 2616 entity-header table")
LEVEL_TEXT = ("For each of 11 setter entry points (item assignment, append, setdefault, 3 header attributes, 5 constructor "
              "forms) and 7 handler shapes served through Ombott.__call__, the real code is executed on a fully symbolic "
              "str value up to the stated length: z3 decides every branch, so inside the bound every value containing CR, LF "
              "or NUL at any position is refused and absent from the header list, and every accepted value is emitted as a "
              "native str e with e.encode('latin1').decode('utf8') == value; the same with the header absent, holding one "
              "value, a list of two and a list of three values beforehand. Further queries: symbolic int/bool, None, floats "
              "and seven foreign value kinds per entry point (also onto a header already holding a list); sequences of "
              "setters with 2-3 symbolic values (one emission per "
              "value, in order); every subset of 14 header names in 3 groups x source-derived status set (204/304 entity "
              "headers withheld under their table spelling and under other spellings, everything else emitted once); "
              "Set-Cookie transcoding. Bounded: value length, number of values, enumerated entry points/shapes/names.")
LEVEL_NOTE = ("Trusted: z3, CrossHair models of str/bytes/int/dict and of str.encode/bytes.decode for utf-8 and latin-1, "
              "vf/chmodels repr/%-format models (only exception texts), stub for traceback.format_exc inside ombott.ombott, "
              "the reference semantics in this file, http.cookies as the reference for the cookie text. Tolerances: a value "
              "without CR/LF/NUL may be refused (the statement constrains emitted values only; vacuity guard requires that "
              "ASCII and non-ASCII values are accepted on some path); lone surrogates are not Unicode text; header NAMES are "
              "not validated by ombott and not constrained by the statement; for 204 only Content-Type is demanded withheld "
              "(RFC 2616 10.2.5 as cited by the code), Content-Length on 204 is tolerated.")
FUNCTIONS = [
    "ombott.common_helpers:_hval",
    "ombott.common_helpers:HeaderDict.__setitem__",
    "ombott.common_helpers:HeaderDict.append",
    "ombott.common_helpers:HeaderDict.setdefault",
    "ombott.common_helpers:HeaderProperty.__set__",
    "ombott.response:http_date",
    "ombott.response:BaseResponse.__init__",
    "ombott.response:BaseResponse.headerlist",
    "ombott.response:BaseResponse.set_cookie",
    "ombott.response:HTTPResponse.apply",
    "ombott.response:HTTPError.__init__",
    "ombott.ombott:Ombott._handle",
    "ombott.ombott:Ombott._cast",
    "ombott.ombott:Ombott.wsgi",
]
STUBS = ["vf.stubs_c14.flat_format_exc for traceback.format_exc as seen from ombott.ombott (exception message not rendered; "
         "validated against the real function at import)",
         "vf.chmodels repr()/'%r' models for symbolic str (text of the ValueError raised by _hval)"]
ASSUMPTIONS = ["header values are Unicode text: no lone surrogates (str.encode('utf8') refuses them in headerlist)",
               "float -> text conversion is CPython's (floats are taken from a fixed list, not symbolic)",
               "the text of a cookie is what http.cookies.SimpleCookie renders for (name, value)"]
OUTSIDE = ["values longer than the stated length; more than 3 values per header",
           "header names: ombott does not validate them (a name containing CR/LF reaches the server) - not part of the statement",
           "cookie attributes (set_cookie(path=...) is emitted verbatim by http.cookies, CR/LF included) - not a named setter",
           "unguarded stores: HeaderDict.update / HeaderDict(...) / .dict assignment / direct _headers access",
           "non-str values through the `expires` attribute (converted by http_date before the guard)",
           "Content-Length on 204 (RFC 7230 3.3.2) - the statement's table is RFC 2616's"]
BUDGET_S = {"quick": 270, "thorough": 1150}
# part of the check again with ombott compiled as `python -O` runs it (assert statements removed): a guard that refuses
# CR/LF/NUL must not be an assertion
ALSO_BUILDS = {"O": "value-ctl/*|value/setitem|value/append|value/ctor-kw|wsgi-value/response-setitem"}

stubs_c14.install()
assert stubs_c14.selfcheck() == 4

NAME = "X-Probe"
KEEP = "X-Keep"
# entity headers a response with this status must not carry (RFC 2616 10.2.5, 10.3.5 + 7.1), written down independently
FORBIDDEN = {
    204: ("Content-Type",),
    304: ("Allow", "Content-Encoding", "Content-Language", "Content-Length", "Content-Md5", "Content-Range",
          "Content-Type", "Last-Modified"),
}
ALLOWED_NAMES = ("ETag", "Expires", "Content-Location", "Cache-Control", "Vary")
FRAMEWORK_NAMES = ("Content-Type", "Content-Length")     # may be added by ombott itself (default type, _cast)
# statuses: keys of the blacklist in the source and in the reference, +-1, and the default
STATUSES = sorted({c + d for c in set(BaseResponse.bad_headers) | set(FORBIDDEN) for d in (-1, 0, 1)} | {200})
FLOATS = (0.0, -0.0, 1.5, 1e22, 1e-7, float("inf"), float("nan"))
FLOAT_TEXTS = ("0.0", "-0.0", "1.5", "1e+22", "1e-07", "inf", "nan")


# ---------------------------------------------------------------- solver-side selection from fixed lists
def _nth(seq, i):
    """seq[i] by explicit comparison (one path per index)"""
    for j, x in enumerate(seq):
        if i == j:
            return x
    assume(False)


def _member(seq, x):
    """the concrete element of seq equal to the solver variable x (one path per element; others pruned)"""
    for y in seq:
        if x == y:
            return y
    assume(False)


# ---------------------------------------------------------------- reference semantics (oracle)
def is_ctl(o):
    return o == 0 or o == 10 or o == 13


def scan(text):
    """(contains CR/LF/NUL, contains non-ASCII) of an offered text; a lone surrogate is not Unicode text: path pruned"""
    bad = wide = False
    for ch in text:
        o = ord(ch)
        assume(not 0xD800 <= o <= 0xDFFF)
        if is_ctl(o):
            bad = True
        elif o > 127:
            wide = True
    return bad, wide


def wire_fault(e, want):
    """None if the emitted value `e` is wire-safe and carries the text `want` (any text if want is None)"""
    if type(e) is not str:
        return "is not a native str: %r" % (e,)
    try:
        raw = e.encode("latin1")
    except Exception:
        return "is not encodable as Latin-1: %r" % (e,)
    if want is None:
        for c in raw:
            if is_ctl(c):
                return "contains CR/LF/NUL: %r" % (e,)
        return None
    try:
        back = raw.decode("utf8")
    except Exception:
        return "does not decode as UTF-8: %r" % (e,)
    if back != want:
        return "decodes to %r, offered text was %r" % (back, want)
    return None


def emitted_fault(headerlist, want):
    """`want`: name -> list of texts that must be emitted for that name, once each, in order; every other
    emitted value only has to be wire-safe."""
    for name in want:
        got = [e for n, e in headerlist if n == name]
        if len(got) != len(want[name]):
            return "header %s emitted %d times for %d value(s): %r" % (name, len(got), len(want[name]), headerlist)
        for e, text in zip(got, want[name]):
            f = wire_fault(e, text)
            if f:
                return "emitted %s value %s" % (name, f)
    for n, e in headerlist:
        if n not in want:
            f = wire_fault(e, None)
            if f:
                return "emitted %s value %s" % (n, f)
    return None


class RefHeaders:
    """what the guarded setters mean: name -> list of texts"""

    def __init__(self):
        self.d = {}

    def setitem(self, name, text):
        self.d[name] = [text]

    def append(self, name, text):
        self.d.setdefault(name, []).append(text)

    def setdefault(self, name, text):
        self.d.setdefault(name, [text])


# ---------------------------------------------------------------- entry points (enumerated)
def _setitem(r, name, v):
    r.headers[name] = v


def _append(r, name, v):
    r.headers.append(name, v)


def _setdefault(r, name, v):
    r.headers.setdefault(name, v)


def _content_type(r, name, v):
    r.content_type = v


def _content_length(r, name, v):
    r.content_length = v


def _expires(r, name, v):
    r.expires = v


def _pairs(name, olds):
    return [(name, o) for o in olds]


# tag -> (kind, header name, callable). 'set' mutates an existing response whose header `name` already holds the
# values `olds` (put there by offer); 'new' constructs a response from `olds` and the offered value, in this order.
ENTRIES = {
    "setitem": ("set", NAME, _setitem),
    "append": ("set", NAME, _append),
    "setdefault": ("set", NAME, _setdefault),
    "attr-content_type": ("set", "Content-Type", _content_type),
    "attr-content_length": ("set", "Content-Length", _content_length),
    "attr-expires": ("set", "Expires", _expires),
    "ctor-dict": ("new", NAME, lambda name, v, olds: HTTPResponse("b", 200, {name: v})),     # one value per name only
    "ctor-pairs": ("new", NAME, lambda name, v, olds: HTTPResponse("b", 200, [(KEEP, "kept")] + _pairs(name, olds) + [(name, v)])),
    "ctor-kw": ("new", NAME, lambda name, v, olds: HTTPResponse("b", 200, _pairs(name, olds), **{name: v})),
    "reinit-kw": ("new", NAME, lambda name, v, olds: _reinit(Response(), _pairs(name, olds), {name: v})),
    "httperror-kw": ("new", NAME, lambda name, v, olds: HTTPError(500, "b", headers=_pairs(name, olds), **{name: v})),
}
# what each entry point means for the reference store
REF_CALL = {"setitem": "setitem", "append": "append", "setdefault": "setdefault", "attr-content_type": "setitem",
            "attr-content_length": "setitem", "attr-expires": "setitem", "ctor-dict": "append", "ctor-pairs": "append",
            "ctor-kw": "append", "reinit-kw": "append", "httperror-kw": "append"}
PRESTATE_ENTRIES = tuple(t for t in ENTRIES if t != "ctor-dict")
DEEP_ENTRIES = ("setitem", "httperror-kw")     # longest values in the thorough tier
OLDS = {"existing": ("old",), "list2": ("old1", "old2"), "list3": ("old1", "old2", "old3")}


def _reinit(r, pairs, kw):
    """Response() takes no arguments: the application re-initialises its response object instead"""
    r.__init__("b", 200, pairs, **kw)
    return r


def offer(tag, value, olds=(), copied=False):
    """-> (response or None, header name, exception or None); `olds`: values the header already holds; `copied`: the
    value is offered to a copy of the response (Response.copy(cls=HTTPResponse), what redirect() makes)"""
    kind, name, fn = ENTRIES[tag]
    r = None
    try:
        if kind == "set":
            r = Response()
            r.headers[KEEP] = "kept"
            for o in olds:
                r.headers.append(name, o)
            if copied:
                r = r.copy(cls=HTTPResponse)
            fn(r, name, value)
        else:
            r = fn(name, value, olds)
    except Exception as e:
        return r, name, e
    return r, name, None


def leak_fault(r):
    """after a refusal: whatever header list the response still produces is free of CR/LF/NUL"""
    if r is None:
        return None
    return emitted_fault(r.headerlist, {})


def verdict(tag, olds, r, name, exc, text, bad):
    """oracle for one offer on a header holding `olds`: `text` is what the offered value stands for (None: the
    statement defines no text for that kind), `bad` = the text contains CR/LF/NUL"""
    if exc is not None:
        return leak_fault(r)
    unused = REF_CALL[tag] == "setdefault" and len(olds) > 0      # setdefault on a present header drops the value
    if text is None:        # foreign type let through: whatever is emitted must still be safe
        return emitted_fault(r.headerlist, {})
    if bad and not unused:
        return "%s (header holding %r) accepted a value whose text is %r" % (tag, olds, text)
    ref = RefHeaders()
    for o in olds:
        ref.append(name, o)
    getattr(ref, REF_CALL[tag])(name, text)
    return emitted_fault(r.headerlist, ref.d)


# ---------------------------------------------------------------- query makers: units
def make_value(tag, n, olds=(), copied=False):
    def q(v: str):
        assume(len(v) <= n)
        bad, wide = scan(v)
        r, name, exc = offer(tag, v, olds, copied)
        if exc is not None:
            cover("rejected" if bad else "clean-value-refused")     # the latter is tolerated, see LEVEL_NOTE
        elif bad:
            cover("not-refused")
        else:
            cover("accepted-non-ascii" if wide else "accepted")
        return verdict(tag, olds, r, name, exc, v, bad)
    return q


def make_copied_headers(tag, n, olds):
    """the value is offered to HeaderDict.copy() of a header set that already holds `olds` (what Response.copy hands to the
    new response): refusal of CR/LF/NUL as everywhere, and whatever the copy holds afterwards is clean text"""
    _kind, name, fn = ENTRIES[tag]

    def q(v: str):
        assume(len(v) <= n)
        bad, wide = scan(v)
        r0 = Response()
        for o in olds:
            r0.headers.append(name, o)
        holder = type("Holder", (), {})()
        holder.headers = r0.headers.copy()
        try:
            fn(holder, name, v)
        except (ValueError, TypeError):
            cover("rejected" if bad else "clean-value-refused")
            held = holder.headers.get(name)
        else:
            unused = REF_CALL[tag] == "setdefault" and len(olds) > 0
            if bad and not unused:
                return "%s on a copy of headers holding %r accepted a value whose text is %r" % (tag, olds, v)
            cover("accepted-non-ascii" if wide else "accepted")
            held = holder.headers.get(name)
        for x in (held if isinstance(held, list) else [held]):
            if x is not None and scan(str(x))[0]:
                return "copy of headers holding %r holds %r after %s(%r)" % (olds, held, tag, v)
        for x, o in zip(r0.headers.get(name) if isinstance(r0.headers.get(name), list) else [r0.headers.get(name)], olds):
            if x != o:
                return "%s on the copy changed the original: %r" % (tag, r0.headers.get(name))
        return None
    return q


def make_value_ctl(tag, n):
    def q(v: str):
        assume(len(v) <= n)
        bad = False
        for ch in v:                 # lone surrogates stay in: the guard has to refuse before anything is encoded
            if is_ctl(ord(ch)):
                bad = True
        assume(bad)
        r, name, exc = offer(tag, v)
        if exc is None:
            return "%s accepted the value %r" % (tag, v)
        cover("rejected")
        return leak_fault(r)
    return q


LONG_POS = {
    "dense": list(range(0, 100)),
    "dense2": list(range(100, 132)),
    "pow2": [254, 255, 256, 257, 511, 512, 513, 1023, 1024, 1025, 2047, 2048, 4095, 4096, 4097, 8191, 8192, 8193],
    "big": [16383, 16384, 32767, 32768, 65535, 65536, 65537, 131072],
}
LONG_TAILS = [0, 1, 2, 3, 4, 8, 70]


def make_value_long(tag, positions, olds=(), tails=(0, 3), fillers=1):
    """long values: p filler characters, one fully symbolic character, t filler characters; p and t are solver integers
    indexing the listed values (realised value by value: the filler stays concrete, only the one character forks)"""
    def q(p: int, t: int, o: int, filler: bool):
        assume(0 <= o < 0x110000 and not 0xD800 <= o <= 0xDFFF)
        assume(0 <= p < len(positions) and 0 <= t < len(tails))
        pp, tt = positions[p], tails[t]          # indexing a list by a solver integer: one path per element
        assume(filler or fillers > 1)
        fill = "a" if filler else "\u00e9"
        v = fill * pp + chr(o) + fill * tt
        bad = is_ctl(o)
        r, name, exc = offer(tag, v, olds)
        if exc is not None:
            cover("rejected" if bad else "clean-value-refused")
            return leak_fault(r)
        unused = REF_CALL[tag] == "setdefault" and len(olds) > 0
        if bad and not unused:
            return "%s (header holding %r) accepted a value of %d characters with %r at index %d" % (tag, olds, len(v), chr(o), pp)
        cover("accepted")
        got = [e for n, e in r.headerlist if n == name]
        if not unused and (not got or len(got[-1]) != len(v.encode("utf8"))):
            return "%s: value of %d characters emitted as %r" % (tag, len(v), got)
        return None
    return q


class Texty:
    def __init__(self, text):
        self.text = text

    def __str__(self):
        return self.text


class LoudInt(int):
    def __str__(self):
        return self.text


class LoudStr(str):
    def __str__(self):
        return self.text


def _loud(cls, base, text):
    x = cls(base)
    x.text = text
    return x


# kind -> (value, text the value stands for or None when the statement defines none)
KINDS = (
    ("int", lambda i, s: (i, str(i))),
    ("bool", lambda i, s: (i > 0, "True" if i > 0 else "False")),
    ("none", lambda i, s: (None, "None")),
    ("float", lambda i, s: _nth(tuple(zip(FLOATS, FLOAT_TEXTS)), i)),
    ("bytes", lambda i, s: (s.encode("utf8"), None)),
    ("list", lambda i, s: ([s], None)),
    ("tuple", lambda i, s: ((s,), None)),
    ("dict", lambda i, s: ({"k": s}, None)),
    ("object-with-str", lambda i, s: (Texty(s), None)),
    ("int-subclass-with-str", lambda i, s: (_loud(LoudInt, 7, s), s)),
    ("str-subclass-with-str", lambda i, s: (_loud(LoudStr, "x", s), None)),
)
PLAIN_KINDS = ("int", "bool", "none", "float")      # the others carry the symbolic text s


def make_types(tag, n, digits, labels, olds=()):
    def q(k: int, i: int, s: str):
        label, build = _nth(KINDS, k)
        assume(label in labels)
        bad = False
        if label in PLAIN_KINDS:
            assume(-10 ** digits < i < 10 ** digits)
        else:
            assume(len(s) <= n)
            bad, _ = scan(s)
        value, text = build(i, s)
        r, name, exc = offer(tag, value, olds)
        cover("refused" if exc is not None else "accepted-" + label)
        return verdict(tag, olds, r, name, exc, text, bad)
    return q


# sequences of setter calls on one header name (V = values in order of use)
SEQUENCES = {
    "append-append": ("append", "append"),
    "setitem-append": ("setitem", "append"),
    "append-append-append": ("append", "append", "append"),
    "append-setitem": ("append", "setitem"),
    "setdefault-append": ("setdefault", "append"),
    "append-setdefault-append": ("append", "setdefault", "append"),
    "setitem-setitem-append": ("setitem", "setitem", "append"),
}
CALLS = {"setitem": _setitem, "append": _append, "setdefault": _setdefault}


def _arity(ops):
    ref = RefHeaders()
    for i, op in enumerate(ops):
        getattr(ref, op)(NAME, i)
    return "multi-valued" if len(ref.d[NAME]) > 1 else "single-valued"


def make_sequence(ops, n, via):
    """via: 'headers' = calls on Response.headers with another header interleaved; 'ctor' = the same pairs as
    constructor argument (append semantics only)"""
    def q(v1: str, v2: str, v3: str):
        vals = [v1, v2, v3][:len(ops)]
        for v in vals:
            assume(len(v) <= n)
            bad, _ = scan(v)
            assume(not bad)
        ref = RefHeaders()
        if via == "ctor":
            pairs = []
            for v in vals:
                pairs += [(NAME, v), (KEEP, "kept")]
                ref.append(NAME, v)
                ref.append(KEEP, "kept")
            r = HTTPResponse("b", 200, pairs)
        else:
            r = Response()
            for op, v in zip(ops, vals):
                CALLS[op](r, NAME, v)
                getattr(ref, op)(NAME, v)
                r.headers.append(KEEP, "kept")
                ref.append(KEEP, "kept")
        cover(_arity(ops))
        return emitted_fault(r.headerlist, ref.d)
    return q


def blacklist_fault(headerlist, status, offered, extra_ok):
    banned = FORBIDDEN.get(status, ())
    if banned:
        cover("restricted-status")
    for n, e in headerlist:
        if n in banned:
            return "status %d response carries %s: %r" % (status, n, headerlist)
    for name in offered:
        times = len([1 for n, e in headerlist if n == name])
        if name not in banned and times != 1:
            return "status %d: header %s offered once, emitted %d times: %r" % (status, name, times, headerlist)
        if name in banned:
            cover("withheld")
    for n, e in headerlist:
        if n not in offered and n not in extra_ok:
            return "status %d: header %s was never set: %r" % (status, n, headerlist)
    return None


def _pick(names, bits):
    return [n for n, b in zip(names, bits) if b]


def make_blacklist(names, order):
    """order: 'status-first' (constructor), 'status-last' (assigned after the headers), 'status-text' ('304 Custom')"""
    def q(status: int, b0: bool, b1: bool, b2: bool, b3: bool, b4: bool):
        status = _member(STATUSES, status)
        offered = _pick(names, (b0, b1, b2, b3, b4))
        if order == "status-first":
            r = HTTPResponse("", status)
        else:
            r = Response()
        for i, name in enumerate(offered):
            r.headers[name] = "v%d" % i
        if order == "status-last":
            r.status = status
        elif order == "status-text":
            r.status = "%d Custom" % status
        return blacklist_fault(r.headerlist, status, offered, ("Content-Type",))
    return q


# other spellings of the forbidden names (field names are case-insensitive, RFC 7230 3.2); Content-MD5 is the RFC's own
SPELLINGS = tuple(sp for name in FORBIDDEN[304] for sp in (name.lower(), name.upper())) + ("Content-MD5",)


def make_blacklist_spelling():
    def q(status: int, j: int):
        status = _member(STATUSES, status)
        spelled = _nth(SPELLINGS, j)
        r = Response()
        r.headers[spelled] = "v"
        r.status = status
        for n, e in r.headerlist:
            for banned in FORBIDDEN.get(status, ()):
                if n.lower() == banned.lower():
                    return "status %d response carries %s: %r" % (status, n, r.headerlist)
        cover("emitted" if status not in FORBIDDEN else "withheld")
        return None
    return q


def make_cookie(n):
    def q(v: str):
        assume(len(v) <= n)
        scan(v)
        r = Response()
        r.set_cookie("k", v)
        ref = SimpleCookie()
        ref["k"] = v
        cover("cookie")
        return emitted_fault(r.headerlist, {"Set-Cookie": [ref["k"].OutputString()]})
    return q


# ---------------------------------------------------------------- query makers: through Ombott.__call__
class Sink:
    def __init__(self):
        self.texts = []

    def write(self, text):
        self.texts.append(text)


def serve(act):
    """one GET through a fresh application whose handler runs act(app) -> ('return'|'raise', object).
    -> (start_response calls, exceptions the header code raised inside the handler)"""
    app = ombott.Ombott()
    refused = []

    def handler():
        try:
            how, what = act(app)
        except Exception as e:
            refused.append(e)
            raise
        if how == "raise":
            raise what
        return what
    app.add_route("/h", "GET", handler)
    env = {"REQUEST_METHOD": "GET", "PATH_INFO": "/h", "wsgi.input": None, "wsgi.errors": Sink(), "SERVER_NAME": "h",
           "SERVER_PORT": "80", "wsgi.url_scheme": "http", "SERVER_PROTOCOL": "HTTP/1.1"}
    calls = []
    for _ in app(env, lambda status, headers, exc_info=None: calls.append((status, headers))):
        pass
    return calls, refused


def _on_response(call, body):
    def act(app, status, values):
        for v in values:
            call(app.response, NAME, v)
        app.response.status = status
        return "return", body
    return act


# shape -> (header name, act(app, status, values))
SHAPES = {
    "response-setitem": (NAME, _on_response(_setitem, "ok")),
    "response-append": (NAME, _on_response(_append, "")),
    "response-setdefault": (NAME, _on_response(_setdefault, b"ok")),
    "response-content_type": ("Content-Type", _on_response(_content_type, b"ok")),
    "raise-httperror-kw": (NAME, lambda app, status, values: ("raise", HTTPError(status, "b", **{NAME: values[0]}))),
    "return-httpresponse-dict": (NAME, lambda app, status, values: ("return", HTTPResponse("b", status, {NAME: values[0]}))),
    "raise-httpresponse-pairs": (NAME, lambda app, status, values: (
        "raise", HTTPResponse("b", status, [(NAME, v) for v in values]))),
}
MULTI_SHAPES = ("response-append", "raise-httpresponse-pairs")
DEEP_SHAPES = ("response-setitem", "raise-httperror-kw", "raise-httpresponse-pairs")   # longer values x status, thorough


def make_wsgi_value(shape, n, statuses, olds=()):
    """olds (MULTI_SHAPES only): clean values the same handler gives the header before the symbolic one"""
    name, act = SHAPES[shape]

    def q(v: str, status: int):
        assume(len(v) <= n)
        status = _member(statuses, status)
        bad, wide = scan(v)
        calls, refused = serve(lambda app: act(app, status, list(olds) + [v]))
        if len(calls) != 1:
            return "start_response called %d times" % len(calls)
        headers = calls[0][1]
        if bad:
            if not refused:
                return "%s accepted the value %r" % (shape, v)
            cover("rejected")
            return emitted_fault(headers, {})
        if refused:
            cover("clean-value-refused")
            return emitted_fault(headers, {})
        cover("accepted-non-ascii" if wide else "accepted")
        if name in FORBIDDEN.get(status, ()):
            return emitted_fault(headers, {name: []})
        return emitted_fault(headers, {name: list(olds) + [v]})
    return q


def make_wsgi_multi(shape, n):
    name, act = SHAPES[shape]

    def q(v1: str, v2: str):
        for v in (v1, v2):
            assume(len(v) <= n)
            bad, _ = scan(v)
            assume(not bad)
        calls, refused = serve(lambda app: act(app, 200, [v1, v2]))
        if len(calls) != 1 or refused:
            return "start_response called %d times, refused: %r" % (len(calls), refused)
        cover("multi-valued")
        return emitted_fault(calls[0][1], {name: [v1, v2]})
    return q


def make_wsgi_blacklist(names, how):
    """how: 'response' = handler sets app.response; 'httperror' / 'httpresponse' = raised with the headers"""
    def q(status: int, b0: bool, b1: bool, b2: bool, b3: bool, b4: bool):
        status = _member(STATUSES, status)
        offered = _pick(names, (b0, b1, b2, b3, b4))
        pairs = [(name, "v%d" % i) for i, name in enumerate(offered)]

        def act(app):
            if how == "response":
                for name, v in pairs:
                    app.response.headers[name] = v
                app.response.status = status
                return "return", "body"
            if how == "httperror":
                return "raise", HTTPError(status, "b", **dict(pairs))
            return "raise", HTTPResponse("", status, pairs)
        calls, refused = serve(act)
        if len(calls) != 1 or refused:
            return "start_response called %d times, refused: %r" % (len(calls), refused)
        if calls[0][0][:3] != str(status):
            return "status line %r for status %d" % (calls[0][0], status)
        return blacklist_fault(calls[0][1], status, offered, FRAMEWORK_NAMES)
    return q


# ---------------------------------------------------------------- query list
def _name_groups():
    """14 names in groups of <= 5 (one bool each; spare bools stay unused): each group mixes forbidden and allowed names"""
    banned = list(FORBIDDEN[304])
    ok = list(ALLOWED_NAMES)
    return {"g1": banned[0:3] + ok[0:2], "g2": banned[3:6] + ok[2:4], "g3": banned[6:8] + ok[4:5] + [NAME]}


_SETTERS = ("setitem", "append", "setdefault", "attr-content_type", "attr-content_length", "attr-expires")
_TYPED = tuple(t for t in PRESTATE_ENTRIES if t != "attr-expires")      # see OUTSIDE for the expires writer
# which entry points get the pre-state queries, per tier (ctor-dict cannot give one name several values)
PRESTATE_VALUE = {
    "quick": {"existing": _SETTERS, "list2": PRESTATE_ENTRIES, "list3": ("append", "ctor-pairs")},
    "thorough": {"existing": _SETTERS, "list2": PRESTATE_ENTRIES, "list3": PRESTATE_ENTRIES},
}
PRESTATE_TYPES = {
    "quick": {"list2": ("setitem", "append", "ctor-pairs", "ctor-kw"), "list3": ("append", "ctor-pairs")},
    "thorough": {"list2": _TYPED, "list3": ("append", "setdefault", "ctor-pairs", "ctor-kw")},
}
LONGEST = ("value/setitem", "value/httperror-kw", "sequence/append-append", "value-ctl/setitem")


def queries(tier):
    T = tier == "thorough"
    out = []
    anytext = "any code point except lone surrogates, CR/LF/NUL at any position"
    for tag in ENTRIES:
        nv = (4 if tag in DEEP_ENTRIES else 3) if T else 3 if tag == "setitem" else 2
        out.append(Q("value/%s" % tag, make_value(tag, nv),
                     "entry point %s; value = fully symbolic str, len <= %d (%s)" % (tag, nv, anytext),
                     timeout=150 if not T else 1100, expect_cover=["rejected", "accepted", "accepted-non-ascii"],
                     family="value", config=tag))
    # the same entry points on a header that already holds one value / a list of two / a list of three values
    for state, olds in OLDS.items():
        for tag in PRESTATE_VALUE[tier][state]:
            nv = 3 if T and tag in ("append", "setdefault", "ctor-pairs") and state != "list3" else 2
            out.append(Q("value-%s/%s" % (state, tag), make_value(tag, nv, olds),
                         "entry point %s on a header that already holds %r; value = fully symbolic str, len <= %d (%s)"
                         % (tag, olds, nv, anytext), timeout=100 if not T else 300,
                         expect_cover=["rejected", "accepted", "accepted-non-ascii"], family="value",
                         config={"entry": tag, "holds": list(olds)}))
    # the same on a copy of the response (since seed C14-j: what a copy hands back for a multi-valued header)
    for state, tags in ((("list2", ("append",)), ("existing", ("append",))) if not T else
                        (("list2", ("append", "setitem", "setdefault")), ("list3", ("append",)), ("existing", ("append", "setdefault")))):
        for tag in tags:
            # (Response.copy itself refuses a multi-valued header on the pinned tree - TypeError, outside this property -
            #  so lists are offered to HeaderDict.copy(), single values to Response.copy(cls=HTTPResponse) as redirect() makes it)
            out.append(Q("copied-%s/%s" % (state, tag), make_value(tag, 2, OLDS[state], copied=True) if state == "existing" else
                         make_copied_headers(tag, 2, OLDS[state]),
                         "entry point %s on a copy of a response / of its headers whose "
                         "header already holds %r; value = fully symbolic str, len <= 2 (%s)" % (tag, OLDS[state], anytext),
                         timeout=100 if not T else 300, expect_cover=["rejected", "accepted", "accepted-non-ascii"], family="value",
                         config={"entry": tag, "holds": list(OLDS[state]), "copied": True}))
    for tag, olds in ([("setitem", ()), ("append", ("old",)), ("ctor-kw", ())] if not T else
                      [(t, ()) for t in ENTRIES] + [("append", ("old1", "old2")), ("setdefault", ("old",))]):
        for rng in (["dense"] if not T and tag != "setitem" else ["dense", "pow2"] if not T else ["dense", "dense2", "pow2", "big"]):
            tails = (3,) if not T else tuple(LONG_TAILS)
            out.append(Q("value-long/%s%s/%s" % (tag, len(olds) or "", rng),
                         make_value_long(tag, LONG_POS[rng], olds, tails, 2 if T else 1),
                         "entry point %s%s; value = p filler characters (%s) + one fully symbolic character (any code "
                         "point but lone surrogates) + t filler characters, p in %s, t in %r"
                         % (tag, " on a header holding %r" % (olds,) if olds else "", "'a' or U+00E9" if T else "'a'",
                            "0..99" if rng == "dense" else "100..131" if rng == "dense2" else LONG_POS[rng], tails),
                         timeout=500 if not T else 900, expect_cover=["rejected", "accepted"], family="value-long",
                         config={"entry": tag, "positions": rng}))
    nc = 5 if not T else 6
    out.append(Q("value-ctl/setitem", make_value_ctl("setitem", nc),
                 "entry point setitem; value = fully symbolic str (any code point), len <= %d, CR, LF or NUL at one or more positions "
                 "(refusal only: longer than value/setitem because the accepted branch is not explored)" % nc,
                 timeout=200 if not T else 900, expect_cover=["rejected"], family="value", config="setitem"))
    nt, nd = (1, 9) if not T else (2, 18)
    labels = [k for k, _ in KINDS]
    plain_cover = ["refused", "accepted-int", "accepted-bool", "accepted-none", "accepted-float", "accepted-int-subclass-with-str"]
    for tag in ENTRIES:
        if tag == "attr-expires":
            continue        # its writer converts non-str values before the guard (OUTSIDE)
        out.append(Q("types/%s" % tag, make_types(tag, nt, nd, labels),
                     "entry point %s; value kind k in %s; int symbolic |i| < 10**%d, bool symbolic, float from %r, text inside "
                     "foreign objects symbolic len <= %d (%s)" % (tag, labels, nd, FLOAT_TEXTS, nt, anytext),
                     timeout=100 if not T else 400, expect_cover=plain_cover, family="types", config=tag))
    out.append(Q("types/setdefault-list", make_types("setdefault", 2, 1, ["list"]),
                 "headers.setdefault(name, [s]) with s symbolic str len <= 2 (%s) - regression query for the unguarded list "
                 "(fixed in 890fd37)" % anytext, timeout=100, expect_cover=["refused", "accepted-list"],
                 family="types", config="setdefault"))
    for state in ("list2", "list3"):
        for tag in PRESTATE_TYPES[tier][state]:
            out.append(Q("types-%s/%s" % (state, tag), make_types(tag, nt, nd, labels, OLDS[state]),
                         "as types/%s on a header that already holds %r (a non-str value added to a list must come out as str)"
                         % (tag, OLDS[state]), timeout=100 if not T else 400, expect_cover=plain_cover, family="types",
                         config={"entry": tag, "holds": list(OLDS[state])}))
    for tag, ops in SEQUENCES.items():
        if not T and tag == "setitem-setitem-append":
            continue
        n = 2 if T and tag == "append-append" else 1
        out.append(Q("sequence/%s" % tag, make_sequence(ops, n, "headers"),
                     "calls %s on one header of Response.headers, another header appended in between; %d symbolic values, "
                     "len <= %d each, no CR/LF/NUL" % ("+".join(ops), len(ops), n),
                     timeout=150 if not T else 1000, expect_cover=[_arity(ops)], family="sequence", config=list(ops)))
    for k in (2, 3) if T else (2,):
        out.append(Q("sequence/ctor-pairs-%d" % k, make_sequence(("append",) * k, 1, "ctor"),
                     "HTTPResponse(headers=[(n,v1),(k,..),(n,v2)..]) with %d symbolic values len <= 1, no CR/LF/NUL" % k,
                     timeout=150 if not T else 600, expect_cover=["multi-valued"], family="sequence"))
    groups = _name_groups()
    for g, names in groups.items():
        for order in ("status-first", "status-last", "status-text"):
            if order == "status-text" and not T and g != "g3":
                continue
            out.append(Q("blacklist/%s/%s" % (g, order), make_blacklist(names, order),
                         "every subset of %r set by item assignment x status in %r (symbolic), %s" % (names, STATUSES, order),
                         timeout=150 if not T else 300, expect_cover=["restricted-status", "withheld"],
                         family="blacklist", config={"names": names, "order": order}))
    out.append(Q("blacklist/spelling", make_blacklist_spelling(),
                 "one forbidden entity header set under another spelling (one of %r) x status in %r (symbolic); names compared "
                 "case-insensitively" % (SPELLINGS, STATUSES), timeout=100, expect_cover=["emitted", "withheld"],
                 family="blacklist"))
    out.append(Q("cookie/value", make_cookie(1), "set_cookie('k', v), v symbolic str len <= 1 (any code point except lone "
                 "surrogates): Set-Cookie value transcoded like the other headers", timeout=150 if not T else 300,
                 expect_cover=["cookie"], family="cookie"))
    nw = 2 if not T else 3
    for shape in SHAPES:
        out.append(Q("wsgi-value/%s" % shape, make_wsgi_value(shape, nw, (200,)),
                     "GET through Ombott.__call__, handler shape %s, status 200; value fully symbolic str len <= %d (%s); "
                     "observed at start_response" % (shape, nw, anytext), timeout=150 if not T else 600,
                     expect_cover=["rejected", "accepted", "accepted-non-ascii"], family="wsgi-value", config=shape))
        ns = 2 if T and shape in DEEP_SHAPES else 1
        out.append(Q("wsgi-value-status/%s" % shape, make_wsgi_value(shape, ns, tuple(STATUSES)),
                     "as wsgi-value/%s with status symbolic in %r, value len <= %d" % (shape, STATUSES, ns),
                     timeout=150 if not T else 600, expect_cover=["rejected", "accepted", "accepted-non-ascii"],
                     family="wsgi-value", config=shape))
    for shape in MULTI_SHAPES:
        out.append(Q("wsgi-value-list2/%s" % shape, make_wsgi_value(shape, nw, (200,), OLDS["list2"]),
                     "as wsgi-value/%s, the handler first gives the header the values %r the same way" % (shape, OLDS["list2"]),
                     timeout=150 if not T else 600, expect_cover=["rejected", "accepted", "accepted-non-ascii"],
                     family="wsgi-value", config=shape))
        out.append(Q("wsgi-multi/%s" % shape, make_wsgi_multi(shape, 1),
                     "GET through Ombott.__call__, two symbolic values (len <= 1, no CR/LF/NUL) for one header via %s: "
                     "start_response sees both, in order" % shape, timeout=150,
                     expect_cover=["multi-valued"], family="wsgi-multi", config=shape))
    for g, names in groups.items():
        for how in ("response", "httperror", "httpresponse"):
            out.append(Q("wsgi-blacklist/%s/%s" % (g, how), make_wsgi_blacklist(names, how),
                         "GET through Ombott.__call__: every subset of %r x status in %r (symbolic), headers offered via %s; "
                         "ombott may add %r itself" % (names, STATUSES, how, FRAMEWORK_NAMES),
                         timeout=200 if not T else 400, expect_cover=["restricted-status", "withheld"],
                         family="wsgi-blacklist", config={"names": names, "how": how}))
    out.sort(key=lambda q: q.qid not in LONGEST)     # stable: the longest queries start first, the rest keep their order
    return out


# warm ombott's module-level caches (error page template) before any symbolic run
serve(lambda app: ("raise", HTTPError(500, "warm")))


def selftest(tier):
    """concrete regression inputs, run natively by the runner before the symbolic queries"""
    cases = []
    for tag in ENTRIES:
        for v in ("", "a", "\r\n", "a\n", "\x00", "é", "€", "\U0001f600", "\x7f\x0b"):
            cases.append(("value/%s" % tag, {"v": v}, "ok"))
    for qid in ("value-existing/append", "value-existing/setdefault", "value-list2/append", "value-list2/ctor-pairs",
                "value-list2/httperror-kw", "value-list3/append", "value-list3/ctor-pairs"):
        for v in ("b", "b\r", "ÿ"):
            cases.append((qid, {"v": v}, "ok"))
    for k in range(len(KINDS)):
        cases.append(("types/setdefault", {"k": k, "i": 1, "s": "\n"}, "ok"))
        cases.append(("types-list2/append", {"k": k, "i": 1, "s": "\r"}, "ok"))
        cases.append(("types/setitem", {"k": k, "i": -3, "s": "é"}, "rejected" if KINDS[k][0] == "float" else "ok"))
    cases += [
        ("value/setitem", {"v": "\ud800"}, "rejected"),            # not Unicode text: outside the claim
        ("value-ctl/setitem", {"v": "\ud800\r"}, "ok"),
        ("value-ctl/setitem", {"v": "abc"}, "rejected"),
        ("types/setdefault-list", {"k": 5, "i": 0, "s": "ab"}, "ok"),
        ("types/setdefault-list", {"k": 5, "i": 0, "s": "a\n"}, "ok"),
        ("wsgi-value-list2/response-append", {"v": "\n", "status": 200}, "ok"),
        ("wsgi-value-list2/raise-httpresponse-pairs", {"v": "é", "status": 200}, "ok"),
        ("sequence/append-append", {"v1": "a", "v2": "é", "v3": ""}, "ok"),
        ("sequence/append-setitem", {"v1": "a", "v2": "b", "v3": ""}, "ok"),
        ("blacklist/g3/status-last", {"status": 304, "b0": True, "b1": True, "b2": True, "b3": True, "b4": False}, "ok"),
        ("blacklist/g3/status-last", {"status": 204, "b0": True, "b1": True, "b2": False, "b3": False, "b4": False}, "ok"),
        ("blacklist/g3/status-last", {"status": 299, "b0": True, "b1": True, "b2": False, "b3": False, "b4": False}, "rejected"),
        ("blacklist/spelling", {"status": 200, "j": 0}, "ok"),
        ("cookie/value", {"v": "€"}, "ok"),
        ("cookie/value", {"v": "\n"}, "ok"),
        ("wsgi-value/raise-httperror-kw", {"v": "\r", "status": 200}, "ok"),
        ("wsgi-value/response-setitem", {"v": "ÿ", "status": 200}, "ok"),
        ("wsgi-value-status/response-content_type", {"v": "t", "status": 204}, "ok"),
        ("wsgi-multi/raise-httpresponse-pairs", {"v1": "a", "v2": "a"}, "ok"),
        ("wsgi-blacklist/g2/httperror", {"status": 304, "b0": True, "b1": True, "b2": True, "b3": True, "b4": True}, "ok"),
    ]
    return cases
