"""C05 - chunked transfer decoding is exact and rejects every truncation."""
from vf.engine import assume, cover
from vf.query import Q
from vf import stubs
from vf import instrument

instrument.install("ombott")     # scheduling points in front of every ombott statement (used by the stmt/ family only)
from vf import stubs_c05 as R    # noqa: E402

from ombott.request_pkg import body_mixin    # noqa: E402
from ombott.request_pkg.errors import BodyParsingError, RequestError

PROPERTY = "C05"
TECHNIQUE = ("bounded symbolic execution of _iter_chunked/_body_read (CrossHair+z3): symbolic payload, buffer size, "
             "short-read lengths, truncation point, corrupted byte; differential against a strict RFC 7230 chunk grammar; "
             "chunk sizes 1..2**17 as solver integers (solver hex digits, opaque payload) through Ombott.__call__/Request.body")
LEVEL_TEXT = ("For each enumerated legal encoding shape the real decoder is executed on a symbolic payload with symbolic buffer "
              "size and short-read lengths (exactness), on every truncation length (symbolic) and with one framing byte "
              "replaced by a symbolic value 0..255 at a symbolic position; plus all byte strings up to a small length. z3 "
              "decides every branch, so inside the bound: legal encodings decode to the payload, every cut before the end of "
              "the zero-size chunk line is a BodyParsingError, corruption yields bytes or a client error only and agrees with "
              "a strict reference grammar whenever the corrupted text is itself legal.  Size families: the whole path "
              "wsgi.input -> Ombott.__call__ -> Request.body.read() is executed with one (two) chunk(s) whose size is a solver "
              "integer 1..131072 spelled by solver hex digits, max_memfile_size a solver integer 16..131072 (chunk <= 2-5 buffers), "
              "solver short reads, a stream that hands out data across chunk boundaries, opaque payload compared by offset: "
              "200 and the exact payload for legal encodings, 4xx for every cut length and for any byte other than CR LF after "
              "the data; the same for a second request to the same application; concrete sizes 2**k-1..2**k+1 / 102399..102401 "
              "with up to 16 buffers per chunk.")
LEVEL_NOTE = ("Trusted: z3, CrossHair models of bytes/int/list, vf/chmodels int(text,16) character-class model (validated "
              "against CPython on 540k inputs at start-up), SymStream stub, the reference grammar in this file. Shapes of "
              "encodings are enumerated, not symbolic. A size line longer than the buffer may be rejected (tolerated).")
FUNCTIONS = [
    "ombott.request_pkg.body_mixin:_iter_chunked",
    "ombott.request_pkg.body_mixin:_body_read",
    "ombott.request_pkg.body_mixin:BodyMixin._body",
    "ombott.request_pkg.request:BaseRequest._raise",
]
STUBS = ["SymStream (see C04)", "PyBytesIO for io.BytesIO/TemporaryFile inside body_mixin",
         "vf.instrument: ombott compiled from its current source with a scheduling point in front of every statement of every "
         "function body (no-op except in family stmt/); SimThreads for `threading` inside ombott.common_helpers (stmt/ only)",
         "vf.chmodels.int_model for int(bytes, 16)",
         "vf.stubs_c05.Rope/Lit: bytes-like value of framing bytes + opaque payload ranges (offset, solver length), every "
         "payload byte is b'x'; len/slice/index/concat/==/startswith/endswith validated against real bytes at import",
         "vf.stubs_c05.RopeStream: wsgi.input over such segments, reads cross segment boundaries, b'' at EOF, optional short "
         "reads for reads that start inside payload; validated against io.BytesIO",
         "vf.stubs_c05.RopeIO: PyBytesIO whose read()/getvalue() concatenate Ropes (same differential validation as PyBytesIO)"]
ASSUMPTIONS = ["payload bytes are opaque to the decoder", "HTTP layer hands the raw chunked stream to wsgi.input",
               "size families: every opaque payload byte has the value b'x' (code that inspects payload sees that value); "
               "the size-hole queries put 5 solver bytes at a solver offset of the big chunk instead"]
OUTSIDE = ["byte-level families: encodings other than the enumerated shapes (chunk sizes <= 5, <= 3 chunks), payload longer "
           "than 8 bytes, more than 3 short reads", "fully symbolic inputs longer than the stated length",
           "size families: chunks > 131072 bytes, a solver-sized chunk needing more reads than the stated multiple of the "
           "buffer, more than two solver-sized chunks per body, short reads that start inside framing, size-line digit "
           "classes other than the stated pattern of each query (quick: 0-9 everywhere / a-f in the low 3-4 digits; "
           "thorough: free 0-9a-f(A-F)), framing corruption other than the CRLF after the data at these sizes",
           "size lines longer than the configured buffer (may be a client error by design)"]
BUDGET_S = {"quick": 270, "thorough": 1150}

stubs.install_body_io()
R.install()          # body_mixin.BytesIO/TemporaryFile -> RopeIO (PyBytesIO that can also hold opaque payload)
CRLF = b"\r\n"
TE_SPELLINGS = ["chunked", "Chunked", "CHUNKED", "gzip, chunked", " chunked "]


# ---------------------------------------------------------------- encoder (configurations)
def size_line(n, style, ext):
    h = "%x" % n
    if style == "upper":
        h = h.upper()
    elif style == "zeros":
        h = "00" + h
    elif style == "upzero":
        h = "0" + h.upper()
    return h.encode() + ext + CRLF


def shapes(tier):
    base = [
        dict(sizes=[1], style="lower", ext=b"", trailer=b""),
        dict(sizes=[2, 1], style="lower", ext=b"", trailer=b""),
        dict(sizes=[3], style="zeros", ext=b";a=b", trailer=b"X: y\r\n"),
        dict(sizes=[1, 2], style="upper", ext=b";x", trailer=b""),
        dict(sizes=[], style="lower", ext=b"", trailer=b""),
    ]
    if tier == "thorough":
        base += [
            dict(sizes=[10], style="lower", ext=b"", trailer=b""),          # 'a' hex digit
            dict(sizes=[11], style="upper", ext=b";q=\"r\"", trailer=b""),  # 'B'
            dict(sizes=[2, 2, 1], style="upzero", ext=b"", trailer=b"T: 1\r\nU: 2\r\n"),
            dict(sizes=[5], style="lower", ext=b";\rz", trailer=b""),       # bare CR inside an extension
            dict(sizes=[1, 1, 1], style="lower", ext=b" ", trailer=b""),
            dict(sizes=[4, 3], style="zeros", ext=b"", trailer=b""),
        ]
    return base


def encode(shape, payload):
    """returns (full encoding, length of the part the decoder must consume, framing positions)"""
    out = b""
    off = 0
    framing = []
    for n in shape["sizes"]:
        ln = size_line(n, shape["style"], shape["ext"])
        framing += list(range(len(out), len(out) + len(ln)))
        out += ln + payload[off:off + n]
        off += n
        framing += [len(out), len(out) + 1]
        out += CRLF
    last = size_line(0, shape["style"], shape["ext"])
    framing += list(range(len(out), len(out) + len(last)))
    out += last
    core = len(out)
    out += shape["trailer"] + CRLF
    return out, core, framing


def max_line(shape):
    return max(len(size_line(n, shape["style"], shape["ext"])) for n in shape["sizes"] + [0])


# ---------------------------------------------------------------- strict reference grammar (RFC 7230 4.1)
def _ishex(c):
    return 48 <= c <= 57 or 97 <= c <= 102 or 65 <= c <= 70


def strict_decode(data):
    """payload if `data` starts with a legal chunked-body up to and including the last-chunk line, else None.
    chunk-ext: *( ';' token [ '=' token ] ) accepted loosely as any bytes without CR/LF."""
    pos = 0
    out = []
    while True:
        i = pos
        while i < len(data) and _ishex(data[i]):
            i += 1
        if i == pos:
            return None
        n = int(data[pos:i], 16)
        if i < len(data) and data[i] == 59:       # ';' extension up to CRLF
            while i < len(data) and data[i] != 13 and data[i] != 10:
                i += 1
        if data[i:i + 2] != CRLF:
            return None
        pos = i + 2
        if n == 0:
            return out
        if pos + n + 2 > len(data):
            return None
        out.append((pos, n))
        if data[pos + n:pos + n + 2] != CRLF:
            return None
        pos += n + 2


def run_decoder(stream, b):
    """('ok', bytes) | ('reject', None) ; anything else propagates"""
    try:
        parts = list(body_mixin._iter_chunked(stream.read, b))
    except BodyParsingError:
        return "reject", None
    return "ok", b"".join(parts)


# ---------------------------------------------------------------- two decoders at once (another thread), any statement
STMT_A = b"5\r\nhello\r\n10;x=1\r\n0123456789abcdef\r\n01\r\n!\r\n0\r\n\r\n"
STMT_A_PAYLOAD = b"hello0123456789abcdef!"
STMT_BS = {"short": (b"3\r\nabc\r\n0\r\n\r\n", b"abc"), "long": (b"1a\r\n" + b"z" * 26 + b"\r\n00\r\n\r\n", b"z" * 26),
           "cut": (b"2\r\nab\r\n1", None)}


class DecoderSched:
    """in front of statement k that thread T0 executes inside ombott while it decodes body A, thread T1 decodes body B
    completely"""
    def __init__(self, k, encB, b):
        self.k, self.encB, self.b, self.count, self.result = k, encB, b, 0, None

    def __call__(self):
        if stubs.SimThreads.cur != "T0":
            return
        self.count += 1
        if self.count == self.k:
            stubs.SimThreads.cur = "T1"
            try:
                self.result = run_decoder(stubs.SymStream(len(self.encB), [], data=self.encB), self.b)
            finally:
                stubs.SimThreads.cur = "T0"


def stmt_decode(kindB, k, b):
    stubs.install_sim_threads()
    st = DecoderSched(k, STMT_BS[kindB][0], b)
    instrument.set_hook(st)
    try:
        resA = run_decoder(stubs.SymStream(len(STMT_A), [], data=STMT_A), b)
    finally:
        instrument.set_hook(None)
    return resA, st


def make_stmt(kindB, b):
    alone = stmt_decode(kindB, 0, b)
    n0 = alone[1].count
    # reference = this decoder alone: the payload, or - when a size line of body A (7 bytes with its extension) is longer than
    # the buffer - the refusal the stated tolerance allows (a false alarm of the first version of this family with buffer 3)
    wantA = alone[0]
    assert wantA == ("ok", STMT_A_PAYLOAD) or (wantA == ("reject", None) and b < 7), (wantA, b)
    wantB = ("ok", STMT_BS[kindB][1]) if STMT_BS[kindB][1] is not None else ("reject", None)
    if b < 7 and wantB[0] == "ok":
        wantB = run_decoder(stubs.SymStream(len(STMT_BS[kindB][0]), [], data=STMT_BS[kindB][0]), b)
    assert 0 < n0 < 2 ** 10, n0

    def q(b0: bool, b1: bool, b2: bool, b3: bool, b4: bool, b5: bool, b6: bool, b7: bool, b8: bool, b9: bool):
        k = 0
        for i, bit in enumerate((b0, b1, b2, b3, b4, b5, b6, b7, b8, b9)):
            if bit:
                k += 1 << i
        assume(1 <= k <= n0)
        resA, st = stmt_decode(kindB, k, b)
        if st.result is None:
            return "statement %d of %d not reached" % (k, n0)
        cover("ok")
        if resA != wantA:
            return ("another thread decoded a chunked body (%s) in front of statement %d of %d of this decoder: result %r, "
                    "payload %r" % (kindB, k, n0, resA, STMT_A_PAYLOAD))
        if st.result != wantB:
            return "the other thread's body (%s, decoded in front of statement %d) gave %r, expected %r" % (kindB, k, st.result, wantB)
        return None
    return q, n0


# ---------------------------------------------------------------- query makers
def make_exact(shape, nfrag, bmax):
    N = sum(shape["sizes"])
    need = max_line(shape)

    def q(p: bytes, b: int, f1: int, f2: int, f3: int):
        frags = [f1, f2, f3][:nfrag]
        assume(len(p) == N)
        assume(need <= b <= bmax)
        for f in frags:
            assume(1 <= f <= 3)
        enc, core, _ = encode(shape, p)
        s = stubs.SymStream(len(enc), [], data=enc)
        # short reads only matter for reads > 1 byte: apply them to those
        orig = s.read
        k = [0]

        def read(n):
            if n > 1 and k[0] < len(frags):
                f = frags[k[0]]
                k[0] += 1
                if f < n:
                    cover("short-read")
                    return orig(f)
            return orig(n)
        st, out = run_decoder(type("S", (), {"read": staticmethod(read)}), b)
        if st != "ok":
            return "legal encoding rejected (buffer %r, short reads %r)" % (b, frags)
        if out != p:
            return "decoded %r, payload %r" % (out, p)
        # (how much of the trailer section the decoder reads is not part of the statement: a decoder may stop after the
        #  last-chunk line, as ombott does, or read the trailer fields and the final CRLF)
        return None
    return q


def make_truncate(shape, bmax):
    N = sum(shape["sizes"])
    payload = bytes(range(97, 97 + N))
    enc, core, _ = encode(shape, payload)
    need = max_line(shape)

    def q(k: int, b: int):
        assume(0 <= k < core)
        assume(need <= b <= bmax)
        s = stubs.SymStream(k, [], data=enc)
        st, out = run_decoder(s, b)
        if st == "ok":
            return "encoding cut after %r of %r framing bytes accepted as complete body %r" % (k, core, out)
        cover("rejected")
        return None
    return q


def make_corrupt(shape, b):
    N = sum(shape["sizes"])
    payload = bytes(range(97, 97 + N))
    enc, core, framing = encode(shape, payload)
    # positions of the CRLF that must follow each chunk's data
    after_data = set()
    off = 0
    for n in shape["sizes"]:
        off += len(size_line(n, shape["style"], shape["ext"])) + n
        after_data.update((off, off + 1))
        off += 2

    def q(p: int, v: int):
        assume(0 <= v <= 255)
        assume(p in framing)
        pp = int(p)              # position is enumerated (realised); the byte value stays symbolic
        assume(v != enc[pp])
        data = enc[:pp] + bytes([v]) + enc[pp + 1:]
        s = stubs.SymStream(len(data), [], data=data)
        st, out = run_decoder(s, b)
        if pp in after_data:
            cover("crlf-after-data")
            if st == "ok":
                return "chunk data not followed by CRLF (byte %r at %r) accepted: %r" % (v, pp, out)
        ref = strict_decode(data)
        if ref is not None:
            cover("still-legal")
            want = b"".join(data[a:a + n] for a, n in ref)
            line_ok = True
            if st != "ok":
                return "corrupted text is a legal encoding of %r but was rejected" % (want,)
            if out != want:
                return "corrupted text is a legal encoding of %r, decoded %r" % (want, out)
        if st == "ok" and len(out) > len(data):
            return "decoded more bytes than were sent"
        return None
    return q


def make_any(n, b):
    def q(d: bytes):
        assume(len(d) <= n)
        s = stubs.SymStream(len(d), [], data=d)
        st, out = run_decoder(s, b)
        ref = strict_decode(d)
        if ref is not None:
            cover("legal")
            want = b"".join(d[a:a + k] for a, k in ref)
            if st != "ok" or out != want:
                return "legal encoding %r -> %s %r, expected %r" % (d, st, out, want)
        elif st == "ok":
            cover("lenient-accept")
        else:
            cover("reject")
        return None
    return q


def make_wsgi(shape):
    """error mapping: truncated body -> 400 through Ombott.__call__, complete -> 200 with the payload"""
    import ombott
    N = sum(shape["sizes"])
    payload = bytes(range(97, 97 + N))
    enc, core, _ = encode(shape, payload)

    # a server may pass the client's Content-Length along with Transfer-Encoding: chunked (both framings in one environ);
    # Transfer-Encoding wins (RFC 7230 3.3.3), whatever the declared length says
    lengths = [None, "", str(len(enc)), str(N), "0", str(len(enc) + 7)]

    def q(k: int, f1: int, te: int, via_setup: bool, cl: int):
        assume(0 <= k <= len(enc))
        assume(1 <= f1 <= 3)
        assume(0 <= cl < len(lengths))
        assume(0 <= te < len(TE_SPELLINGS))       # transfer-coding names are case-insensitive (RFC 7230 4)
        if via_setup:         # configured after construction (the only way to configure the module-level default app)
            app = ombott.Ombott()
            app.setup({"max_memfile_size": 64})
            cover("configured-through-setup")
        else:
            app = ombott.Ombott({"max_memfile_size": 64})

        @app.route("/u", method="POST")
        def h():
            return app.request.body.read()
        s = stubs.SymStream(k, [], data=enc)
        errs = stubs.PyBytesIO()
        env = {"REQUEST_METHOD": "POST", "PATH_INFO": "/u", "wsgi.input": s, "HTTP_TRANSFER_ENCODING": TE_SPELLINGS[te],
               "wsgi.errors": type("E", (), {"write": staticmethod(lambda t: errs.write(t.encode()))}), "SERVER_NAME": "h",
               "SERVER_PORT": "80", "wsgi.url_scheme": "http"}
        if lengths[cl] is not None:
            env["CONTENT_LENGTH"] = lengths[cl]
            cover("both-framings")
        got = []
        body = app(env, lambda st, hd, ei=None: got.append((st, hd)))
        body = b"".join(body)
        if len(got) != 1:
            return "start_response called %d times" % len(got)
        code = got[0][0][:3]
        if k < core:
            if code != "400":
                return "truncated chunked body (cut %r/%r) answered %s %r" % (k, core, got[0][0], body)
            cover("400")
        else:
            if code != "200" or body != payload:
                return "complete chunked body answered %s %r" % (got[0][0], body)
            cover("200")
        if errs.parts:
            return "traceback written to wsgi.errors"
        return None
    return q


# ---------------------------------------------------------------- size families: opaque payload, sizes as solver integers
# The whole path wsgi.input -> Ombott.__call__ -> Request.body -> handler with chunks whose SIZE is a solver integer:
# the size line of one chunk of a skeleton is made of solver bytes (hex digits), its payload is an opaque range of that
# many bytes (vf/stubs_c05.Rope: identity of a payload byte = its offset), max_memfile_size (= the read buffer and the
# spill threshold) is a solver integer as well, the stream hands out whatever is asked for across chunk boundaries
# (optionally with short reads).  Whatever sits between the stream and the handler therefore sees sizes on both sides of
# every constant it may contain: 1 .. 2**17 crosses 4 KiB, 8 KiB (io.DEFAULT_BUFFER_SIZE), 64 KiB and the 100 KiB default
# of max_memfile_size.  Cost does not depend on the sizes, only on how many reads a chunk takes (bounded by `reads`).
NMAX = 2 ** 17
BIG = 1 << 40
HOLE = 5            # b"\r\n0\r\n" fits


def hexval(h, pattern):
    """value of the solver bytes `h` as hex digits.  pattern[i] fixes the class of digit i: 'd' 0-9, 'x' a-f, 'X' A-F,
    'h' 0-9a-f, 'H' 0-9a-fA-F (every admitted class of a position is a fork of the search), 'z' the digit 0 or 1"""
    v = 0
    for i in range(len(pattern)):
        c = h[i]
        k = pattern[i]
        if k == "z":
            assume(48 <= c <= 49)
            d = c - 48
        elif k == "d":
            assume(48 <= c <= 57)
            d = c - 48
        elif k == "x":
            assume(97 <= c <= 102)
            d = c - 87
        elif k == "X":
            assume(65 <= c <= 70)
            d = c - 55
        elif 48 <= c <= 57:
            d = c - 48
        elif 97 <= c <= 102:
            d = c - 87
        elif k == "H" and 65 <= c <= 70:
            d = c - 55
        else:
            assume(False)
        v = v * 16 + d
    return v


def build(spec, sized, after=None):
    """spec["chunks"]: concrete sizes and placeholders "N" / "M"; sized[placeholder] = (digit bytes | None, size,
    (hole bytes, hole offset) | None); `after` = 2 bytes to put after the data of chunk "N" instead of CRLF.
    -> (stream segments, length of the core = up to and including the last-chunk line, payload segments)"""
    ext, style = spec["ext"], spec["style"]
    segs, off, core, payload = [], 0, 0, []
    for c in spec["chunks"]:
        hole = None
        if isinstance(c, str):
            h, size, hole = sized[c]
            if h is None:
                ln = size_line(size, style, ext)
                segs.append(R.F(ln, len(ln)))
                core = core + len(ln)
            else:
                W = len(spec["pattern"])
                for i in range(W):
                    segs.append(R.F(h[i:i + 1], 1))
                tail = ext + CRLF
                segs.append(R.F(tail, len(tail)))
                core = core + W + len(tail)
        else:
            ln = size_line(c, style, ext)
            segs.append(R.F(ln, len(ln)))
            core = core + len(ln)
            size = c
        if hole is None:
            data = [R.P(off, size)]
        else:
            hb, a = hole
            data = [R.P(off, a), R.H(hb, HOLE, off + a), R.P(off + a + HOLE, size - a - HOLE)]
        segs += data
        payload += data
        segs.append(R.F(after if (after is not None and c == "N") else CRLF, 2))
        off = off + size
        core = core + size + 2
    last = size_line(0, style, ext)
    segs.append(R.F(last, len(last)))
    core = core + len(last)
    tail = spec["trailer"] + CRLF
    segs.append(R.F(tail, len(tail)))
    return segs, core, payload


def check_body(body, payload):
    """None when `body` (what Request.body.read() gave) is exactly the payload.  Opaque payload is compared by offset,
    real bytes by content."""
    at = 0
    want = None
    for p in R.pieces(body):
        if p[0] == "p":
            if p[1] != at:
                return "payload bytes out of order: offset %r delivered where offset %r belongs" % (p[1], at)
            at = at + p[2]
        else:
            if want is None:
                want = R.concat(payload)
            n = len(p[1])
            if at + n > len(want) or want[at:at + n] != p[1]:
                return "bytes %r delivered at offset %r are not the payload sent there" % (p[1], at)
            at = at + n
    total = 0
    for s in payload:
        total = total + s.n
    if at != total:
        return "body has %r bytes, the chunks carry %r" % (at, total)
    return None


def new_app(b):
    import ombott
    app = ombott.Ombott({"max_memfile_size": b})
    seen = []

    @app.route("/u", method="POST")
    def h():
        seen.append(app.request.body.read())
        return "ok"
    return app, seen


def post(app, stream):
    """one chunked POST through Ombott.__call__ -> (3-digit status, number of start_response calls, wsgi.errors writes)"""
    errs = []
    env = {"REQUEST_METHOD": "POST", "PATH_INFO": "/u", "wsgi.input": stream, "HTTP_TRANSFER_ENCODING": "chunked",
           "wsgi.errors": type("E", (), {"write": staticmethod(errs.append)}), "SERVER_NAME": "h",
           "SERVER_PORT": "80", "wsgi.url_scheme": "http"}
    got = []
    b"".join(app(env, lambda st, hd, ei=None: got.append(st)))
    return (got[0][:3] if got else ""), len(got), errs


def judge_exact(code, calls, errs, seen, payload):
    if calls != 1:
        return "start_response called %d times" % calls
    if code != "200" or len(seen) != 1:
        return "legal chunked encoding answered %s" % code
    bad = check_body(seen[0], payload)
    if bad:
        return bad
    if errs:
        return "traceback written to wsgi.errors"
    return None


def judge_cut(code, calls, errs):
    if calls != 1:
        return "start_response called %d times" % calls
    if not ("400" <= code <= "499"):
        return "answered %s, a client error (4xx) is due" % code
    if errs:
        return "traceback written to wsgi.errors"
    return None


def _sizes(n, b, reads):
    assume(1 <= n <= NMAX)
    assume(n <= reads * b)
    if n > b:
        cover("chunk>buffer")
    if n > 8192:
        cover("chunk>8K")
    if n > 65536:
        cover("chunk>64K")


def make_size_exact(spec, bmin, bmax, nfrag, reads=3, hole=False, second=False):
    """one (two with `second`) chunk of solver size n (m), buffer b solver integer, n <= reads*b; nfrag short reads
    (solver lengths >= 1) from the first read of that chunk on; with `hole` HOLE payload bytes at solver offset `a` of the
    chunk are solver bytes instead of opaque ones"""
    pattern = spec["pattern"]
    before = spec["chunks"].index("N")     # the chunks before the solver-sized one are read whole

    def q(h: bytes, b: int, f1: int, f2: int, hb: bytes, a: int, h2: bytes):
        assume(len(h) == len(pattern))
        n = hexval(h, pattern)
        assume(bmin <= b <= bmax)
        _sizes(n, b, reads)
        frags = [f1, f2][:nfrag]
        for f in frags:
            assume(1 <= f)
        frags = [BIG] * before + frags
        hh = None
        if hole:
            assume(len(hb) == HOLE)
            assume(1 <= a)
            assume(a + HOLE + 1 <= n)
            hh = (hb, a)
        sized = {"N": (h, n, hh)}
        if second:
            assume(len(h2) == len(pattern))
            m = hexval(h2, pattern)
            _sizes(m, b, reads)
            sized["M"] = (h2, m, None)
        segs, core, payload = build(spec, sized)
        s = R.RopeStream(segs, None, frags)
        app, seen = new_app(b)
        code, calls, errs = post(app, s)
        bad = judge_exact(code, calls, errs, seen, payload)
        if bad:
            return "chunk of %r bytes, buffer %r, short reads %r%s: %s" % (
                n, b, frags[before:], (", payload[%r:%r] = %r" % (a, a + HOLE, hb)) if hole else "", bad)
        return None
    return q


def make_size_truncate(spec, bmin, bmax, reads=3, hole=False):
    """as make_size_exact (no short reads), the stream ends after k bytes, k < core (solver integer)"""
    pattern = spec["pattern"]

    def q(h: bytes, b: int, k: int, hb: bytes, a: int):
        assume(len(h) == len(pattern))
        n = hexval(h, pattern)
        assume(bmin <= b <= bmax)
        _sizes(n, b, reads)
        hh = None
        if hole:
            assume(len(hb) == HOLE)
            assume(1 <= a)
            assume(a + HOLE + 1 <= n)
            hh = (hb, a)
        segs, core, payload = build(spec, {"N": (h, n, hh)})
        assume(0 <= k < core)
        s = R.RopeStream(segs, k)
        app, seen = new_app(b)
        code, calls, errs = post(app, s)
        bad = judge_cut(code, calls, errs)
        if bad:
            return "encoding with a chunk of %r bytes (buffer %r) cut after %r of %r bytes%s: %s" % (
                n, b, k, core, (", payload[%r:%r] = %r" % (a, a + HOLE, hb)) if hole else "", bad)
        cover("rejected")
        return None
    return q


def make_size_crlf(spec, bmin, bmax, reads=2):
    """as make_size_exact (no short reads), one of the two bytes that follow the data of the solver-sized chunk is
    replaced by any other value: a chunk whose data is not followed by CRLF must be refused"""
    pattern = spec["pattern"]

    def q(h: bytes, b: int, v: int, second: bool):
        assume(len(h) == len(pattern))
        n = hexval(h, pattern)
        assume(bmin <= b <= bmax)
        _sizes(n, b, reads)
        assume(0 <= v <= 255)
        if second:
            assume(v != 10)
            after = b"\r" + bytes([v])
        else:
            assume(v != 13)
            after = bytes([v]) + b"\n"
        segs, core, payload = build(spec, {"N": (h, n, None)}, after)
        app, seen = new_app(b)
        code, calls, errs = post(app, R.RopeStream(segs))
        bad = judge_cut(code, calls, errs)
        if bad:
            return "data of a chunk of %r bytes (buffer %r) followed by %r instead of CRLF: %s" % (n, b, after, bad)
        cover("rejected")
        return None
    return q


def make_size_again(spec, first_sizes, bmin, bmax, reads=2):
    """two requests to ONE application: a concrete big one (size picked from `first_sizes`; complete or cut inside its
    data), then a solver-sized one that must be decoded exactly - state kept between requests would show"""
    pattern = spec["pattern"]

    def q(si: int, cut: bool, h: bytes, b: int):
        assume(0 <= si < len(first_sizes))
        c = first_sizes[si]
        assume(len(h) == len(pattern))
        n = hexval(h, pattern)
        assume(bmin <= b <= bmax)
        assume(c <= 2 * b)
        _sizes(n, b, reads)
        app, seen = new_app(b)
        segs, core, payload = build(spec, {"N": (None, c, None)})
        if cut:
            code, calls, errs = post(app, R.RopeStream(segs, core - 9))
            bad = judge_cut(code, calls, errs)
        else:
            code, calls, errs = post(app, R.RopeStream(segs))
            bad = judge_exact(code, calls, errs, seen, payload)
        if bad:
            return "first request (chunk of %r bytes, buffer %r, cut=%r): %s" % (c, b, cut, bad)
        del seen[:]
        segs, core, payload = build(spec, {"N": (h, n, None)})
        code, calls, errs = post(app, R.RopeStream(segs))
        bad = judge_exact(code, calls, errs, seen, payload)
        if bad:
            return "second request (chunk of %r bytes, buffer %r) after a %s one with a chunk of %r bytes: %s" % (
                n, b, "cut" if cut else "complete", c, bad)
        cover("second-ok")
        return None
    return q


# concrete sizes around powers of two / the default buffer (their size lines have letter digits, upper case, leading
# zeros - spellings the solver-digit patterns of the quick tier leave out), many reads per chunk, solver short reads
def make_conc(spec, sizes, buffers, mode):
    before = spec["chunks"].index("N")

    def q(si: int, bi: int, f1: int, f2: int, k: int):
        assume(0 <= si < len(sizes))
        assume(0 <= bi < len(buffers))
        c, b = sizes[si], buffers[bi]
        assume(c <= 16 * b)
        assume(1 <= f1)
        assume(1 <= f2)
        segs, core, payload = build(spec, {"N": (None, c, None)})
        app, seen = new_app(b)
        if mode == "exact":
            frags = [BIG] * before + [f1, f2]
            code, calls, errs = post(app, R.RopeStream(segs, None, frags))
            bad = judge_exact(code, calls, errs, seen, payload)
            if bad:
                return "chunk of %r bytes, buffer %r, short reads %r: %s" % (c, b, [f1, f2], bad)
            if c > b:
                cover("chunk>buffer")
            return None
        assume(0 <= k < core)
        code, calls, errs = post(app, R.RopeStream(segs, k))
        bad = judge_cut(code, calls, errs)
        if bad:
            return "encoding with a chunk of %r bytes (buffer %r) cut after %r of %r bytes: %s" % (c, b, k, core, bad)
        cover("rejected")
        return None
    return q


SIZE_SPECS = {
    "mid": dict(chunks=[2, "N", 1], pattern="zdddd", ext=b"", style="lower", trailer=b""),
    "first": dict(chunks=["N", 3], pattern="zdddd", ext=b";e=1", style="lower", trailer=b"T: 1\r\n"),
    "only": dict(chunks=["N"], pattern="zdddd", ext=b"", style="lower", trailer=b""),
    "two": dict(chunks=["N", 1, "M"], pattern="zdddd", ext=b"", style="lower", trailer=b""),
}
CONC_SPECS = {
    "up": dict(chunks=[3, "N", 2], ext=b"", style="upper", trailer=b""),
    "zeros": dict(chunks=["N", 9000], ext=b";x=y", style="zeros", trailer=b"T: 1\r\n"),
}
CONC_SIZES = [4095, 4096, 4097, 8191, 8192, 8193, 65535, 65536, 65537, 102399, 102400, 102401]
CONC_BUFFERS = [1024, 8192, 102400]
PATTERN_TEXT = {"z": "0-1", "d": "0-9", "x": "a-f", "X": "A-F", "h": "0-9a-f", "H": "0-9a-fA-F"}


def _with(spec, pattern):
    sp = dict(spec)
    sp["pattern"] = pattern
    return sp


def _pat(pattern):
    return "size line = %d solver bytes, digit classes %s" % (len(pattern), "|".join(PATTERN_TEXT[c] for c in pattern))


def size_queries(tier):
    T = tier == "thorough"
    out = []
    lo, hi = 16, NMAX
    btxt = "max_memfile_size b solver integer in [%d, %d]" % (lo, hi)

    def desc(sp, reads):
        return ("POST through Ombott.__call__, handler reads Request.body; chunks %r ('N','M' = solver size 1..%d, n <= %d*b), "
                "%s, ext %r, trailer %r; %s; payload opaque (compared by offset)" % (
                    sp["chunks"], NMAX, reads, _pat(sp["pattern"]), sp["ext"], sp["trailer"], btxt))
    exact = [("mid", "zdddd", 1, 3), ("first", "zdddd", 1, 3), ("only", "zdddd", 1, 3), ("mid", "zdxxx", 1, 2), ("first", "zxxxx", 0, 2)]
    if T:
        exact += [("mid", "zhhhh", 1, 3), ("only", "zHHHH", 0, 2), ("first", "zdddd", 2, 5), ("only", "zdXXd", 2, 3)]
    for tag, pattern, nfrag, reads in exact:
        sp = _with(SIZE_SPECS[tag], pattern)
        out.append(Q("size-exact/%s/%s/f%dr%d" % (tag, pattern, nfrag, reads), make_size_exact(sp, lo, hi, nfrag, reads),
                     desc(sp, reads) + "; %d short reads of solver length >= 1 inside the solver-sized chunk; body must be payload "
                     "bytes 0..total in order, status 200" % nfrag,
                     timeout=120 if not T else 900, expect_cover=["chunk>buffer", "chunk>8K", "chunk>64K"],
                     family="size-exact", config=repr(sp)))
    trunc = [("mid", "zdddd", 2), ("first", "zdddd", 2)]
    if T:
        trunc += [("first", "zdddd", 3), ("only", "zdhhd", 3), ("mid", "zdxxx", 3)]
    for tag, pattern, reads in trunc:
        sp = _with(SIZE_SPECS[tag], pattern)
        out.append(Q("size-trunc/%s/%s/r%d" % (tag, pattern, reads), make_size_truncate(sp, lo, hi, reads),
                     desc(sp, reads) + "; stream ends after k bytes, every k < core (solver integer): 4xx",
                     timeout=240 if not T else 900, expect_cover=["rejected", "chunk>8K", "chunk>64K"],
                     family="size-trunc", config=repr(sp)))
    for tag, pattern in [("mid", "zdddd")] + ([("first", "zhhhh"), ("only", "zdddd")] if T else []):
        sp = _with(SIZE_SPECS[tag], pattern)
        out.append(Q("size-crlf/%s/%s" % (tag, pattern), make_size_crlf(sp, lo, hi, 2),
                     desc(sp, 2) + "; one of the two bytes after the data of the solver-sized chunk replaced by any other "
                     "value (solver byte): 4xx", timeout=150 if not T else 600,
                     expect_cover=["rejected", "chunk>buffer", "chunk>8K", "chunk>64K"], family="size-crlf", config=repr(sp)))
    # a window of solver bytes inside the opaque payload: framing look-alikes at any offset of a big chunk
    sp = _with(SIZE_SPECS["mid"], "zdddd")
    out.append(Q("size-hole-exact/mid/zdddd", make_size_exact(sp, 8192 if not T else lo, hi, 0, 2, hole=True),
                 desc(sp, 2) + "%s; payload[a:a+%d] of the solver-sized chunk = solver bytes, a solver integer" % (
                     " (here b >= 8192)" if not T else "", HOLE), timeout=120 if not T else 900,
                 expect_cover=["chunk>buffer", "chunk>8K"], family="size-hole", config=repr(sp)))
    if T:
        out.append(Q("size-hole-trunc/mid/zdddd", make_size_truncate(sp, lo, hi, 2, hole=True),
                     desc(sp, 2) + "; payload[a:a+%d] = solver bytes; stream ends after k < core bytes: 4xx" % HOLE,
                     timeout=900, expect_cover=["rejected", "chunk>8K"], family="size-hole", config=repr(sp)))
    if T:
        sp = _with(SIZE_SPECS["two"], "zdddd")
        out.append(Q("size-exact/two/zdddd/f0r2", make_size_exact(sp, lo, hi, 0, 2, second=True),
                     desc(sp, 2) + "; two solver-sized chunks", timeout=900,
                     expect_cover=["chunk>buffer", "chunk>8K"], family="size-exact", config=repr(sp)))
    sp = _with(SIZE_SPECS["only"], "zdddd")
    firsts = [100, 9000, 70000]
    out.append(Q("size-again/only/zdddd", make_size_again(sp, firsts, lo, hi),
                 "two POSTs to one application: first a chunk of one of %r bytes (complete, or cut 9 bytes before the end of "
                 "the core), then " % (firsts,) + desc(sp, 2) + " (first chunk <= 2*b)", timeout=240 if not T else 600,
                 expect_cover=["second-ok", "chunk>8K"], family="size-again", config=repr(sp)))
    groups = [("up", [8191, 8193, 102401])] if not T else [("up", CONC_SIZES), ("zeros", CONC_SIZES)]
    for tag, sizes in groups:
        sp = CONC_SPECS[tag]
        txt = ("POST through Ombott.__call__; chunks %r with N one of %r, size lines style %s ext %r, trailer %r; "
               "max_memfile_size one of %r (N <= 16*b); payload opaque" % (
                   sp["chunks"], sizes, sp["style"], sp["ext"], sp["trailer"], CONC_BUFFERS))
        out.append(Q("conc-exact/%s" % tag, make_conc(sp, sizes, CONC_BUFFERS, "exact"),
                     txt + "; first two reads inside N are short (solver lengths >= 1)", timeout=150 if not T else 900,
                     expect_cover=["chunk>buffer"], family="conc", config=repr((sp, sizes))))
        out.append(Q("conc-trunc/%s" % tag, make_conc(sp, sizes, CONC_BUFFERS, "trunc"),
                     txt + "; stream ends after k bytes, every k < core (solver integer): 4xx", timeout=150 if not T else 900,
                     expect_cover=["rejected"], family="conc", config=repr((sp, sizes))))
    return out


def queries(tier):
    out = []
    T = tier == "thorough"
    for kindB, b in ([("short", 8)] if not T else [("short", 8), ("long", 8), ("cut", 8), ("short", 3), ("long", 40)]):
        fn, n0 = make_stmt(kindB, b)
        out.append(Q("stmt/%s/b%d" % (kindB, b), fn,
                     "the decoder reads the concrete body %r (buffer %d) in thread T0; in front of statement k of the ombott code it "
                     "executes (every k in 1..%d; scheduling points inserted from the current source) simulated thread T1 decodes "
                     "the body %r completely" % (STMT_A, b, n0, STMT_BS[kindB][0]),
                     timeout=300, expect_cover=["ok"], family="stmt", config={"statements": n0, "other": kindB, "buffer": b}))
    for i, sh in enumerate(shapes(tier)):
        tag = "s%d" % i
        desc = "shape sizes=%s style=%s ext=%r trailer=%r" % (sh["sizes"], sh["style"], sh["ext"], sh["trailer"])
        if sh["sizes"]:
            nf = 2 if not T else 3
            out.append(Q("exact/%s" % tag, make_exact(sh, nf, 12 if not T else 16),
                         desc + "; payload symbolic (all byte values), buffer in [longest size line, %d], %d short reads of 1..3 bytes"
                         % (12 if not T else 16, nf), timeout=100 if not T else 400,
                         expect_cover=["short-read"], family="exact", config=repr(sh)))
        out.append(Q("truncate/%s" % tag, make_truncate(sh, 12), desc + "; every cut length k < core (symbolic), buffer symbolic <= 12",
                     timeout=100 if not T else 300, expect_cover=["rejected"], family="truncate", config=repr(sh)))
        out.append(Q("corrupt/%s" % tag, make_corrupt(sh, 16), desc + "; one framing byte (every position) replaced by any other value 0..255 (symbolic), buffer 16",
                     timeout=150 if not T else 500, family="corrupt", config=repr(sh)))
    out.append(Q("any/len%d" % (3 if not T else 4), make_any(3 if not T else 4, 8),
                 "every byte string of length <= %d as a chunked body, buffer 8" % (3 if not T else 4),
                 timeout=200 if not T else 1000, expect_cover=["reject"], family="any"))
    for i, sh in list(enumerate(shapes(tier)))[:2 if not T else 4]:
        out.append(Q("wsgi/s%d" % i, make_wsgi(sh), "Ombott.__call__: POST handler reading Request.body, stream cut at symbolic k: 400 iff cut inside the encoding; Transfer-Encoding spelled as one of %r; CONTENT_LENGTH absent, empty, = encoded length, = payload length, 0, too large" % (TE_SPELLINGS,),
                     timeout=120 if not T else 300, expect_cover=["400", "200"], family="wsgi", config=repr(sh)))
    out += size_queries(tier)
    return out


def selftest(tier):
    # strict grammar vs the repo's own test encodings
    for body in (b"1b\r\nabcdefghijklmnopqrstuvwxyz\n\r\n0\r\n", b"1b;ab;d = fgh\r\nabcdefghijklmnopqrstuvwxyz\n\r\n0\r\n"):
        ref = strict_decode(body)
        assert ref is not None and b"".join(body[a:a + n] for a, n in ref) == b"abcdefghijklmnopqrstuvwxyz\n", body
    assert strict_decode(b"abcdefghijklmnopqrstuvwxyz\n") is None
    # the opaque-payload model against the real thing: the same encodings as real bytes through io.BytesIO
    import io
    for tag, n, b, cut in (("mid", 9000, 102400, None), ("first", 0x1fff, 64, None), ("only", 70000, 8192, None),
                           ("mid", 8193, 8192, 8000), ("first", 300, 100, 299)):
        sp = SIZE_SPECS[tag]
        h = (("%%0%dx" % len(sp["pattern"])) % n).encode()
        segs, core, payload = build(sp, {"N": (h, n, None)})
        raw = b"".join(R.flatten(x) for x in segs)
        want = b"".join(R.flatten(x) for x in payload)
        assert strict_decode(raw) is not None and len(want) == n + sum(c for c in sp["chunks"] if c != "N")
        assert [(a, k) for a, k in strict_decode(raw)] and b"".join(raw[a:a + k] for a, k in strict_decode(raw)) == want
        outs = []
        for stream in (io.BytesIO(raw if cut is None else raw[:cut]), R.RopeStream(segs, cut)):
            app, seen = new_app(b)
            code, calls, errs = post(app, stream)
            outs.append((code, calls, [R.flatten(x) for x in seen]))
        # (agreement of the two streams is the stub's contract; what the answer must be is the queries' business)
        assert outs[0] == outs[1], ("RopeStream differs from io.BytesIO", tag, n, b, cut, outs[0][:2], outs[1][:2])
    none = dict(hb=b"", a=0)
    return [
        ("size-exact/mid/zdddd/f1r3", dict(h=b"02001", b=102400, f1=5, f2=1, h2=b"", **none), "ok"),
        ("size-exact/mid/zdddd/f1r3", dict(h=b"19000", b=40000, f1=1 << 20, f2=1, h2=b"", **none), "ok"),
        ("size-exact/mid/zdddd/f1r3", dict(h=b"0200a", b=102400, f1=5, f2=1, h2=b"", **none), "rejected"),
        ("size-exact/mid/zdxxx/f1r2", dict(h=b"01fff", b=8191, f1=8190, f2=1, h2=b"", **none), "ok"),
        ("size-trunc/mid/zdddd/r2", dict(h=b"02001", b=8192, k=8200, **none), "ok"),
        ("size-trunc/mid/zdddd/r2", dict(h=b"02001", b=8192, k=8218, **none), "rejected"),
        ("size-crlf/mid/zdddd", dict(h=b"10001", b=65536, v=10, second=False), "ok"),
        ("size-hole-exact/mid/zdddd", dict(h=b"02710", b=8192, f1=1, f2=1, hb=b"\r\n0\r\n", a=8185, h2=b""), "ok"),
        ("size-again/only/zdddd", dict(si=1, cut=True, h=b"02001", b=8192), "ok"),
        ("conc-exact/up", dict(si=1, bi=2, f1=100, f2=1, k=0), "ok"),
        ("conc-trunc/up", dict(si=1, bi=1, f1=1, f2=1, k=4000), "ok"),
    ]
