"""C05 - chunked transfer decoding is exact and rejects every truncation."""
from vf.engine import assume, cover
from vf.query import Q
from vf import stubs

from ombott.request_pkg import body_mixin
from ombott.request_pkg.errors import BodyParsingError, RequestError

PROPERTY = "C05"
TECHNIQUE = ("bounded symbolic execution of _iter_chunked/_body_read (CrossHair+z3): symbolic payload, buffer size, "
             "short-read lengths, truncation point, corrupted byte; differential against a strict RFC 7230 chunk grammar")
LEVEL_TEXT = ("For each enumerated legal encoding shape the real decoder is executed on a symbolic payload with symbolic buffer "
              "size and short-read lengths (exactness), on every truncation length (symbolic) and with one framing byte "
              "replaced by a symbolic value 0..255 at a symbolic position; plus all byte strings up to a small length. z3 "
              "decides every branch, so inside the bound: legal encodings decode to the payload, every cut before the end of "
              "the zero-size chunk line is a BodyParsingError, corruption yields bytes or a client error only and agrees with "
              "a strict reference grammar whenever the corrupted text is itself legal.")
LEVEL_NOTE = ("Trusted: z3, CrossHair models of bytes/int/list, vf/chmodels int(text,16) character-class model (validated "
              "against CPython on 540k inputs at start-up), SymStream stub, the reference grammar in this file. Shapes of "
              "encodings are enumerated, not symbolic. A size line longer than the buffer may be rejected (tolerated).")
FUNCTIONS = [
    "ombott.request_pkg.body_mixin:_iter_chunked",
    "ombott.request_pkg.body_mixin:_body_read",
    "ombott.request_pkg.body_mixin:BodyMixin._body",
    "ombott.request_pkg.request:BaseRequest._raise",
]
STUBS = ["SymStream (see C04)", "PyBytesIO for io.BytesIO/TemporaryFile inside body_mixin",
         "vf.chmodels.int_model for int(bytes, 16)"]
ASSUMPTIONS = ["payload bytes are opaque to the decoder", "HTTP layer hands the raw chunked stream to wsgi.input"]
OUTSIDE = ["encodings other than the enumerated shapes (chunk sizes <= 5, <= 3 chunks)", "payload longer than 8 bytes",
           "more than 3 short reads", "fully symbolic inputs longer than the stated length",
           "size lines longer than the configured buffer (may be a client error by design)"]
BUDGET_S = {"quick": 270, "thorough": 1150}

stubs.install_body_io()
CRLF = b"\r\n"
TE_SPELLINGS = ["chunked", "Chunked", "CHUNKED", "gzip, chunked", " chunked "]


# ---------------------------------------------------------------- encoder (configurations)
def size_line(n, style, ext):
    h = "%x" % n
    if style == "upper":
        h = h.upper()
    elif style == "zeros":
        h = "00" + h
    elif style == "upzero":
        h = "0" + h.upper()
    return h.encode() + ext + CRLF


def shapes(tier):
    base = [
        dict(sizes=[1], style="lower", ext=b"", trailer=b""),
        dict(sizes=[2, 1], style="lower", ext=b"", trailer=b""),
        dict(sizes=[3], style="zeros", ext=b";a=b", trailer=b"X: y\r\n"),
        dict(sizes=[1, 2], style="upper", ext=b";x", trailer=b""),
        dict(sizes=[], style="lower", ext=b"", trailer=b""),
    ]
    if tier == "thorough":
        base += [
            dict(sizes=[10], style="lower", ext=b"", trailer=b""),          # 'a' hex digit
            dict(sizes=[11], style="upper", ext=b";q=\"r\"", trailer=b""),  # 'B'
            dict(sizes=[2, 2, 1], style="upzero", ext=b"", trailer=b"T: 1\r\nU: 2\r\n"),
            dict(sizes=[5], style="lower", ext=b";\rz", trailer=b""),       # bare CR inside an extension
            dict(sizes=[1, 1, 1], style="lower", ext=b" ", trailer=b""),
            dict(sizes=[4, 3], style="zeros", ext=b"", trailer=b""),
        ]
    return base


def encode(shape, payload):
    """returns (full encoding, length of the part the decoder must consume, framing positions)"""
    out = b""
    off = 0
    framing = []
    for n in shape["sizes"]:
        ln = size_line(n, shape["style"], shape["ext"])
        framing += list(range(len(out), len(out) + len(ln)))
        out += ln + payload[off:off + n]
        off += n
        framing += [len(out), len(out) + 1]
        out += CRLF
    last = size_line(0, shape["style"], shape["ext"])
    framing += list(range(len(out), len(out) + len(last)))
    out += last
    core = len(out)
    out += shape["trailer"] + CRLF
    return out, core, framing


def max_line(shape):
    return max(len(size_line(n, shape["style"], shape["ext"])) for n in shape["sizes"] + [0])


# ---------------------------------------------------------------- strict reference grammar (RFC 7230 4.1)
def _ishex(c):
    return 48 <= c <= 57 or 97 <= c <= 102 or 65 <= c <= 70


def strict_decode(data):
    """payload if `data` starts with a legal chunked-body up to and including the last-chunk line, else None.
    chunk-ext: *( ';' token [ '=' token ] ) accepted loosely as any bytes without CR/LF."""
    pos = 0
    out = []
    while True:
        i = pos
        while i < len(data) and _ishex(data[i]):
            i += 1
        if i == pos:
            return None
        n = int(data[pos:i], 16)
        if i < len(data) and data[i] == 59:       # ';' extension up to CRLF
            while i < len(data) and data[i] != 13 and data[i] != 10:
                i += 1
        if data[i:i + 2] != CRLF:
            return None
        pos = i + 2
        if n == 0:
            return out
        if pos + n + 2 > len(data):
            return None
        out.append((pos, n))
        if data[pos + n:pos + n + 2] != CRLF:
            return None
        pos += n + 2


def run_decoder(stream, b):
    """('ok', bytes) | ('reject', None) ; anything else propagates"""
    try:
        parts = list(body_mixin._iter_chunked(stream.read, b))
    except BodyParsingError:
        return "reject", None
    return "ok", b"".join(parts)


# ---------------------------------------------------------------- query makers
def make_exact(shape, nfrag, bmax):
    N = sum(shape["sizes"])
    need = max_line(shape)

    def q(p: bytes, b: int, f1: int, f2: int, f3: int):
        frags = [f1, f2, f3][:nfrag]
        assume(len(p) == N)
        assume(need <= b <= bmax)
        for f in frags:
            assume(1 <= f <= 3)
        enc, core, _ = encode(shape, p)
        s = stubs.SymStream(len(enc), [], data=enc)
        # short reads only matter for reads > 1 byte: apply them to those
        orig = s.read
        k = [0]

        def read(n):
            if n > 1 and k[0] < len(frags):
                f = frags[k[0]]
                k[0] += 1
                if f < n:
                    cover("short-read")
                    return orig(f)
            return orig(n)
        st, out = run_decoder(type("S", (), {"read": staticmethod(read)}), b)
        if st != "ok":
            return "legal encoding rejected (buffer %r, short reads %r)" % (b, frags)
        if out != p:
            return "decoded %r, payload %r" % (out, p)
        if s.pos > core:
            return "decoder consumed %r bytes, encoding core is %r" % (s.pos, core)
        return None
    return q


def make_truncate(shape, bmax):
    N = sum(shape["sizes"])
    payload = bytes(range(97, 97 + N))
    enc, core, _ = encode(shape, payload)
    need = max_line(shape)

    def q(k: int, b: int):
        assume(0 <= k < core)
        assume(need <= b <= bmax)
        s = stubs.SymStream(k, [], data=enc)
        st, out = run_decoder(s, b)
        if st == "ok":
            return "encoding cut after %r of %r framing bytes accepted as complete body %r" % (k, core, out)
        cover("rejected")
        return None
    return q


def make_corrupt(shape, b):
    N = sum(shape["sizes"])
    payload = bytes(range(97, 97 + N))
    enc, core, framing = encode(shape, payload)
    # positions of the CRLF that must follow each chunk's data
    after_data = set()
    off = 0
    for n in shape["sizes"]:
        off += len(size_line(n, shape["style"], shape["ext"])) + n
        after_data.update((off, off + 1))
        off += 2

    def q(p: int, v: int):
        assume(0 <= v <= 255)
        assume(p in framing)
        pp = int(p)              # position is enumerated (realised); the byte value stays symbolic
        assume(v != enc[pp])
        data = enc[:pp] + bytes([v]) + enc[pp + 1:]
        s = stubs.SymStream(len(data), [], data=data)
        st, out = run_decoder(s, b)
        if pp in after_data:
            cover("crlf-after-data")
            if st == "ok":
                return "chunk data not followed by CRLF (byte %r at %r) accepted: %r" % (v, pp, out)
        ref = strict_decode(data)
        if ref is not None:
            cover("still-legal")
            want = b"".join(data[a:a + n] for a, n in ref)
            line_ok = True
            if st != "ok":
                return "corrupted text is a legal encoding of %r but was rejected" % (want,)
            if out != want:
                return "corrupted text is a legal encoding of %r, decoded %r" % (want, out)
        if st == "ok" and len(out) > len(data):
            return "decoded more bytes than were sent"
        return None
    return q


def make_any(n, b):
    def q(d: bytes):
        assume(len(d) <= n)
        s = stubs.SymStream(len(d), [], data=d)
        st, out = run_decoder(s, b)
        ref = strict_decode(d)
        if ref is not None:
            cover("legal")
            want = b"".join(d[a:a + k] for a, k in ref)
            if st != "ok" or out != want:
                return "legal encoding %r -> %s %r, expected %r" % (d, st, out, want)
        elif st == "ok":
            cover("lenient-accept")
        else:
            cover("reject")
        return None
    return q


def make_wsgi(shape):
    """error mapping: truncated body -> 400 through Ombott.__call__, complete -> 200 with the payload"""
    import ombott
    N = sum(shape["sizes"])
    payload = bytes(range(97, 97 + N))
    enc, core, _ = encode(shape, payload)

    def q(k: int, f1: int, te: int, via_setup: bool):
        assume(0 <= k <= len(enc))
        assume(1 <= f1 <= 3)
        assume(0 <= te < len(TE_SPELLINGS))       # transfer-coding names are case-insensitive (RFC 7230 4)
        if via_setup:         # configured after construction (the only way to configure the module-level default app)
            app = ombott.Ombott()
            app.setup({"max_memfile_size": 64})
            cover("configured-through-setup")
        else:
            app = ombott.Ombott({"max_memfile_size": 64})

        @app.route("/u", method="POST")
        def h():
            return app.request.body.read()
        s = stubs.SymStream(k, [], data=enc)
        errs = stubs.PyBytesIO()
        env = {"REQUEST_METHOD": "POST", "PATH_INFO": "/u", "wsgi.input": s, "HTTP_TRANSFER_ENCODING": TE_SPELLINGS[te],
               "wsgi.errors": type("E", (), {"write": staticmethod(lambda t: errs.write(t.encode()))}), "SERVER_NAME": "h",
               "SERVER_PORT": "80", "wsgi.url_scheme": "http"}
        got = []
        body = app(env, lambda st, hd, ei=None: got.append((st, hd)))
        body = b"".join(body)
        if len(got) != 1:
            return "start_response called %d times" % len(got)
        code = got[0][0][:3]
        if k < core:
            if code != "400":
                return "truncated chunked body (cut %r/%r) answered %s %r" % (k, core, got[0][0], body)
            cover("400")
        else:
            if code != "200" or body != payload:
                return "complete chunked body answered %s %r" % (got[0][0], body)
            cover("200")
        if errs.parts:
            return "traceback written to wsgi.errors"
        return None
    return q


def queries(tier):
    out = []
    T = tier == "thorough"
    for i, sh in enumerate(shapes(tier)):
        tag = "s%d" % i
        desc = "shape sizes=%s style=%s ext=%r trailer=%r" % (sh["sizes"], sh["style"], sh["ext"], sh["trailer"])
        if sh["sizes"]:
            nf = 2 if not T else 3
            out.append(Q("exact/%s" % tag, make_exact(sh, nf, 12 if not T else 16),
                         desc + "; payload symbolic (all byte values), buffer in [longest size line, %d], %d short reads of 1..3 bytes"
                         % (12 if not T else 16, nf), timeout=100 if not T else 400,
                         expect_cover=["short-read"], family="exact", config=repr(sh)))
        out.append(Q("truncate/%s" % tag, make_truncate(sh, 12), desc + "; every cut length k < core (symbolic), buffer symbolic <= 12",
                     timeout=100 if not T else 300, expect_cover=["rejected"], family="truncate", config=repr(sh)))
        out.append(Q("corrupt/%s" % tag, make_corrupt(sh, 16), desc + "; one framing byte (every position) replaced by any other value 0..255 (symbolic), buffer 16",
                     timeout=150 if not T else 500, family="corrupt", config=repr(sh)))
    out.append(Q("any/len%d" % (3 if not T else 4), make_any(3 if not T else 4, 8),
                 "every byte string of length <= %d as a chunked body, buffer 8" % (3 if not T else 4),
                 timeout=200 if not T else 1000, expect_cover=["reject"], family="any"))
    for i, sh in list(enumerate(shapes(tier)))[:2 if not T else 4]:
        out.append(Q("wsgi/s%d" % i, make_wsgi(sh), "Ombott.__call__: POST handler reading Request.body, stream cut at symbolic k: 400 iff cut inside the encoding; Transfer-Encoding spelled as one of %r" % (TE_SPELLINGS,),
                     timeout=120 if not T else 300, expect_cover=["400", "200"], family="wsgi", config=repr(sh)))
    return out


def selftest(tier):
    # strict grammar vs the repo's own test encodings
    for body in (b"1b\r\nabcdefghijklmnopqrstuvwxyz\n\r\n0\r\n", b"1b;ab;d = fgh\r\nabcdefghijklmnopqrstuvwxyz\n\r\n0\r\n"):
        ref = strict_decode(body)
        assert ref is not None and b"".join(body[a:a + n] for a, n in ref) == b"abcdefghijklmnopqrstuvwxyz\n", body
    assert strict_decode(b"abcdefghijklmnopqrstuvwxyz\n") is None
    return []
