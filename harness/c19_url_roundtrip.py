"""C19 - building a URL from matched parameters leads back to the same match."""
from dataclasses import dataclass
from typing import Optional

from vf.engine import assume, cover
from vf.query import Q
from vf import stubs_c19

from harness.routespec import L, W, render

from ombott.router.radirouter import RadiRouter, Route

PROPERTY = "C19"
TECHNIQUE = ("bounded symbolic execution of RadiRouter.resolve -> Route.url -> RadiRouter.resolve on a router holding one "
             "rule (CrossHair+z3), path-exhaustive over the request path; one query per enumerated rule shape")
LEVEL_TEXT = ("For each enumerated rule shape the real resolver, URL builder and filter formatters are executed on a symbolic "
              "request path: every path up to a stated length, or the rule's literals with a fully symbolic text of "
              "stated length at every wildcard, or (long float literals) a concrete float prefix followed by a symbolic tail "
              "of digits. Whenever the real resolver matches, the parameters it extracted are fed to "
              "Route.url and the built URL is resolved again; z3 decides every branch, so inside the bound every assignment "
              "obtained by matching builds a URL that contains the rule's literals in order and matches with equal values. "
              "Bounded, not a proof: rule shapes are enumerated, path/hole lengths are capped.")
LEVEL_NOTE = ("Trusted: z3, CrossHair's str/int/re models, vf/chmodels int(text) model, the DecFloat model of float(text)/"
              "str(float) and the corrected relib._match_pattern in vf/stubs_c19.py (the first checked against CPython at start-up), "
              "harness/routespec.render for the rule text. "
              "Literals and wildcard names of a shape are written down in the harness, not taken from ombott's parser.")
FUNCTIONS = [
    "ombott.router.radirouter:Route.url",
    "ombott.router.radirouter:Route.parse_rule",
    "ombott.router.radirouter:Route.make_params_dict",
    "ombott.router.radirouter:RadiRouter.resolve",
    "ombott.router.radidict:RadiDict.get",
    "ombott.router.filter_factory:FilterFactory.make_filter",
    "ombott.router.filter_factory:_rex",
]
STUBS = ["vf.stubs_c19.float_model: under the tracer float(text) of a symbolic decimal literal -?D+(.D+)? with <= 15 ASCII "
         "digits is a DecFloat (canonical text; str() = CPython's str(float), == as for floats; int()/format(v, spec) "
         "realise and use the real float); real float otherwise (e.g. values below 1e-4) and in native replay",
         "vf.stubs_c19._match_pattern: CrossHair's regex matcher with len() of the subject evaluated under the tracer (empty "
         "matches on a sliced symbolic string raised CrossHairInternal)",
         "vf.chmodels.int_model for int(text) on ASCII text"]
ASSUMPTIONS = ["the router holds exactly one rule with one GET handler",
               "the values handed to Route.url are the ones the first resolve extracted: named ones as resolve() returns them, "
               "anonymous ones (which resolve() drops) as RadiDict.get returned them, positionally in rule order",
               "paths of rules with int/float filters contain code points < 128 only (\\d also matches other decimal "
               "digits; int() of those is realised value by value by the engine)",
               "the leading '/' of a rule is not a literal part (Route.url returns the path without it, as the repo's tests expect)"]
OUTSIDE = ["rule shapes other than the enumerated ones; paths longer than the stated length / wildcard texts longer than the hole",
           "float literals of more than 4-5 characters other than the enumerated prefixes + digit tails of the skeleton family",
           "float values with more than 15 digits (history: below 1e-4 and from 1e16 on str(float) switches to exponent notation, which url() could not write back - found by skeleton/float/tiny, fixed in /repo 0203600; formerly: "
           "notation, e.g. rule /{f:float}, path 12345678901234567 -> url '1.2345678901234568e+16' resolves to 1.23...; not a check result)",
           "rex filters (not in the property's quantifier) beyond the two enumerated shapes and hole length 3. Reading notes, "
           "not check results: (1) a rex group that does not span the whole match gives the group as value and Route.url asserts "
           "that the filter matches the bare value (rule /<x.rex(a(b)c)>, path abc -> AssertionError); (2) with a selector the "
           "resolver's look-back takes the selector digit for path text (rule /abc/<param.rex((foo)|(bar)|(baz))[1]>/foo matches "
           "abc/bar1/foo with param='bar'; the built URL abc/bar/foo is not matched) - a matching defect (C01), seen at hole length 4",
           "parameter assignments that no path produces (hand-written arguments to Route.url)"]
BUDGET_S = {"quick": 270, "thorough": 1150}

stubs_c19.install()


# ---------------------------------------------------------------- rule shapes (enumerated configurations)
@dataclass(frozen=True)
class Shape:
    tag: str
    spec: tuple                   # L(text) / W(name|None, filter, arg): the literals and wildcards, written by hand
    flavour: int = 1              # spelling chosen by routespec.render (0/3 use ':name' where possible, 0/2 '<>', 1/3 '{}')
    rule: Optional[str] = None    # explicit rule text for syntax that render does not produce (rex, selectors)
    ascii: bool = False           # int/float filters: see ASSUMPTIONS
    holes: tuple = ()             # quick tier: maximal length of the symbolic text at each wildcard
    deep: tuple = ()              # thorough tier: the same; default = one more character at every wildcard (sizes are
    #                               set from measured cost: one more character multiplies the paths by 4-5)
    free: int = 0                 # > 0: also run with a fully symbolic path of len <= literals + free (thorough: +1)
    example: tuple = ()           # wildcard texts of one matching path (native regression input, see selftest)
    rewritten: bool = False       # some match builds a URL that differs from the path (formatters at work)
    siblings: tuple = ()          # other rules registered on the same router before this one (the matcher has to abandon
    #                               their branches and fall back to this rule; only matches of this rule are judged)

    @property
    def text(self):
        return self.rule or render(list(self.spec), self.flavour)

    @property
    def literals(self):
        return [s.text for s in self.spec if isinstance(s, L)]

    @property
    def wildcards(self):
        return [s for s in self.spec if isinstance(s, W)]


def _s(tag, *spec, **kw):
    return Shape(tag, tuple(spec), **kw)


QUICK_SHAPES = [
    _s("lit", L("s"), free=3),
    _s("lit-seg", L("st/ru"), free=2),
    _s("w", W("x"), holes=(4,), example=("ab",)),
    _s("lit-w", L("foo/"), W("x"), free=3, holes=(4,), example=("ab",)),
    _s("colon-w-lit", W("x"), L("/b"), flavour=0, free=3, holes=(4,), example=("q",)),
    _s("angle-lit-w-lit", L("a"), W("x"), L("/b"), flavour=2, free=2, holes=(4,), example=("q",)),
    _s("w-w", W("x"), L("/"), W("y"), free=4, holes=(2, 2), example=("a", "b")),
    _s("anon-end", L("a/"), W(None), flavour=0, free=3, holes=(4,), example=("q",)),
    # routers holding more than the rule: siblings whose literal continuation holds a wildcard of its own / a typed filter
    _s("sib-int", L("a/"), W("c"), L("/"), W("n", "int"), flavour=0, ascii=True, holes=(2, 2), example=("u", "5"),
       siblings=("/a/u/:w/p", "/a/u")),
    _s("sib-re", L("a/"), W("c"), L("/"), W("r", "re", "[0-9]x?"), flavour=2, holes=(2, 2), example=("u", "5"),
       siblings=("/a/u/<w>/p", "/a/<c>/<r:re:[0-9]x?>/q")),
    # anonymous wildcards with a typed filter: their values go into url() positionally
    _s("anon-int-lit", L("y/"), W(None, "int"), L("/"), W("s"), flavour=0, ascii=True, holes=(2, 1), example=("5", "q"), rewritten=True),
    _s("anon-float", L("z/"), W(None, "float"), flavour=1, ascii=True, holes=(3,), example=("2.5",), rewritten=True),
    _s("anon-re", W(None, "re", "to."), holes=(4,), example=("tok",)),
    _s("anon-re-2", W(None, "re", "t."), L("/"), W(None, "re", "[at]."), holes=(2, 2), example=("tk", "ab")),
    _s("anon-named-mix", L("f/"), W(None, "re", "t."), L("/b"), W("some"), L("/"), W(None, "re", "a."), L("e"), holes=(2, 1, 2),
       example=("tk", "q", "ab")),
    _s("re-adjacent", W("a", "re", "[ab]+"), W("b", "re", "[0-9]+"), L("/z"), flavour=2, holes=(2, 2), example=("ab", "12")),
    _s("lit-between-re", L("a"), W("v", "re", "[bc]"), L("c"), W("w", "re", "[cd]+"), L("e"), holes=(1, 2), example=("c", "cd")),
    _s("re-empty", L("a"), W("v", "re", "x*"), L("b"), flavour=2, free=2, holes=(3,), example=("x",)),
    _s("int", W("x", "int"), ascii=True, holes=(3,), example=("-07",), rewritten=True),
    _s("lit-int-lit", L("n"), W("x", "int"), L("/e"), flavour=1, ascii=True, holes=(3,), example=("5",), rewritten=True),
    _s("int-int", W("x", "int"), L("-"), W("y", "int"), flavour=0, ascii=True, holes=(1, 2), deep=(2, 2), example=("1", "-2"), rewritten=True),
    _s("int-w", W("x", "int"), W("y"), ascii=True, holes=(2, 1), example=("5", "a"), rewritten=True),
    _s("float", W("f", "float"), ascii=True, holes=(3,), example=("1.5",), rewritten=True),
    _s("float-w", W("f", "float"), W("y"), ascii=True, holes=(2, 1), deep=(3, 1), example=("1", "."), rewritten=True),
    # a literal '.' right after a float wildcard: what the builder writes for the float decides how the dot is read back
    _s("float-dot-digit", W("f", "float"), L(".7/i"), ascii=True, holes=(3,), deep=(4,), example=("3.0",)),
    _s("float-dot-lit", L("r/"), W("f", "float"), L(".x"), ascii=True, holes=(3,), deep=(4,), example=("2.0",), rewritten=True),
    _s("path", W("p", "path"), flavour=0, holes=(4,), example=("a//c",)),
    _s("lit-path", L("d/"), W("p", "path"), flavour=2, holes=(4,), example=("a/b",)),
    _s("w-path", W("x"), L("/"), W("p", "path"), holes=(1, 3), example=("a", "b/c")),
    _s("path-tail", L("a/"), W("p", "path"), L("/z"), holes=(4,), example=("b/z",)),
    _s("rex-selector", L("abc/"), W("param", "rex"), L("/foo"), rule="/abc/<param.rex((foo)|(bar)|(baz))[1]>/foo", holes=(3,), deep=(3,),
       example=("foo",)),
    _s("rex-anon", W(None, "rex"), L("x"), rule="/<rex((fo)|(ba))>x", holes=(3,), example=("ba",)),
]
THOROUGH_SHAPES = [
    _s("float-dot-int", W("f", "float"), L("."), W("n", "int"), ascii=True, holes=(3, 1), deep=(3, 1), example=("3.0", "7")),
    _s("anon-int-w", W(None, "int"), L("/"), W("y"), flavour=0, ascii=True, deep=(3, 2), example=("5", "q"), rewritten=True),
    _s("lit-float-lit", L("v"), W("f", "float"), L("/x"), flavour=2, ascii=True, deep=(4,), example=("2",), rewritten=True),
    _s("lit-w-lit-w-lit", L("a/"), W("x"), L("/b/"), W("y"), L("/c"), flavour=3, deep=(3, 3), example=("1", "2")),
    _s("w-lit-seg", W("x"), L("/end"), flavour=2, free=3, deep=(5,), example=("q",)),
    _s("three-w", W("x"), L("/"), W("y"), L("/"), W("z"), deep=(2, 1, 2), example=("a", "", "c")),
    _s("named-re-dot", L("p"), W("v", "re", "[a-c]+"), L("."), W("e", "re", "[a-c]+"), flavour=1, deep=(3, 3), example=("ab", "c")),
    _s("re-then-w", W("a", "re", "[0-9]"), W("b"), L("/k"), deep=(2, 3), example=("1", "x")),
    _s("anon-anon-named", W(None, "re", "a."), W(None, "re", "b."), L("-"), W("n"), deep=(2, 2, 2), example=("a1", "b2", "q")),
    _s("int-dot-int", W("x", "int"), L("."), W("y", "int"), flavour=2, ascii=True, deep=(2, 2), example=("1", "2"), rewritten=True),
    _s("lit-minus-int", L("a-"), W("x", "int"), ascii=True, deep=(4,), example=("-1",), rewritten=True),
    _s("anon-int-int", W(None, "int"), L("/"), W(None, "int"), ascii=True, deep=(2, 2), example=("1", "2"), rewritten=True),
    _s("int-float", W("x", "int"), L("/"), W("f", "float"), flavour=0, ascii=True, deep=(1, 3), example=("1", "2.5"), rewritten=True),
    _s("path-dotted", L("s/"), W("p", "path"), flavour=3, free=2, deep=(5,), example=("a/b",)),
    _s("path-anon", W(None, "path"), flavour=0, deep=(5,), example=("x/y",)),
]


# skeleton + hole for long float literals: the text of the first float wildcard is a concrete prefix followed by a
# symbolic tail of ASCII digits (prefix + tail stay within the 15 digits the DecFloat model is exact for), every
# other wildcard has a concrete text.  (tag, prefix, a tail for the native regression input)
FLOAT_PREFIXES = [
    ("frac5", "0.12345", "6"),          # the tail makes 6 / 7 fractional digits
    ("gps", "52.520006", "6"),          # 7 / 8 fractional digits
    ("neg", "-179.99999", "9"),
    ("tiny", "0.000000", ""),           # values of size 1e-7: CPython prints these with an exponent
    ("big", "123456789.1", "2"),        # 11..13 significant digits
]
_ALL = tuple(tag for tag, _prefix, _tail in FLOAT_PREFIXES)
# (shape, index of the wildcard that gets prefix + tail, concrete texts of the other wildcards, prefixes run in the
# quick tier, prefixes run in the thorough tier, tail length in the thorough tier).  A float wildcard AFTER the symbolic
# one is matched at a symbolic offset, which costs ~10x (measured), hence only one such configuration, thorough only.
SKELETONS = [
    (_s("float", W("f", "float"), ascii=True), 0, (), _ALL, _ALL, 3),
    (_s("geo", L("geo/"), W("lon", "float"), L("/"), W("lat", "float"), L("/pin"), flavour=0, ascii=True), 1, ("-3.25",),
     ("gps", "neg"), _ALL, 3),
    (_s("geo-first", L("geo/"), W("lat", "float"), L("/"), W("lon", "float"), flavour=2, ascii=True), 0, ("-3.25",),
     (), ("gps",), 2),
]


# the same for long integer literals (beyond 2**53 a detour through float loses digits, beyond 2**63 / 10**19 machine
# words end, leading zeros and a sign make the text longer than the value)
INT_PREFIXES = [
    ("d15", "900719925474099", "3"),                     # 16..17 digits around 2**53
    ("d18", "922337203685477580", "8"),                  # around 2**63
    ("d19", "1844674407370955161", "6"),                 # around 2**64
    ("neg", "-12345678901234567890", "1"),
    ("zeros", "00000000000000000000", "7"),
    ("d40", "1234567890123456789012345678901234567890", "1"),
]
INT_SKELETONS = [
    (_s("item-int", L("item/"), W("id", "int"), L("/view"), flavour=0, ascii=True), 0, (), ("d15", "d19", "neg"), None, 3),
    (_s("int-int", W("a", "int"), L("-"), W("b", "int"), flavour=1, ascii=True), 0, ("3",), ("d15",), None, 2),
]


def shapes(tier):
    return QUICK_SHAPES + (THOROUGH_SHAPES if tier == "thorough" else [])


for _shape in QUICK_SHAPES + THOROUGH_SHAPES + [sk[0] for sk in SKELETONS + INT_SKELETONS]:
    Route(_shape.text)                             # warm FilterFactory._filter_cache before any analysis


# ---------------------------------------------------------------- the observation
def _handler():
    return None


def _tap(router):
    """keep what RadiDict.get hands to resolve(): resolve() itself drops the values of anonymous wildcards"""
    seen = []
    real_get = router.radidict.get

    def get(route, allow_partial=False):
        out = real_get(route, allow_partial=allow_partial)
        seen.append(out)
        return out
    router.radidict.get = get
    return seen


def _resolve(router, seen, path):
    """(route, named parameters as resolve() reports them, values of all wildcards in rule order) or None"""
    end_point, _err = router.resolve(path, ["GET"])
    if end_point is None:
        return None
    method, named, _hooks = end_point
    return method.route, named, seen[-1][1]["param_values"]


# ---------------------------------------------------------------- oracle
def _literals_in_order(url, literals):
    """index of the first literal that does not occur (after the previous ones) in url, or -1"""
    pos = 0
    for k, lit in enumerate(literals):
        at = url.find(lit, pos)
        if at < 0:
            return k
        pos = at + len(lit)
    return -1


ALT_HOLE = {None: "zz", "int": "7", "float": "2.5", "path": "q/r"}     # another value per wildcard kind ('re': the judged text)


def roundtrip(shape, path, rebuild=False, alt_holes=None):
    """None if the property holds for `path` on a fresh router holding shape.text only, else what failed.
    rebuild: the URL is built on a route object with a history - an incomplete build first (the last parameter missing:
    url() raises), then the build that is judged, then the same build again (must give the same URL)"""
    rule = shape.text
    wild = shape.wildcards
    router = RadiRouter()
    for other in shape.siblings:
        router.add(other, "GET", _handler)
    route = router.add(rule, "GET", _handler)
    seen = _tap(router)
    first = _resolve(router, seen, path)
    if first is None:
        cover("no-match")
        return None
    if first[0] is not route:
        cover("sibling-matched")
        return None
    cover("matched")
    _route1, named, values = first
    if len(values) != len(wild):
        return "rule %r matched %r with %d values for %d wildcards" % (rule, path, len(values), len(wild))
    args = [values[i] for i, w in enumerate(wild) if w.name is None]
    if rebuild and wild:
        try:
            if wild[-1].name is None:
                route.url(*args[:-1], **named)
            else:
                route.url(*args, **{k: v for k, v in named.items() if k != wild[-1].name})
        except Exception:  # noqa - an incomplete build is refused; how is not the subject
            cover("incomplete-refused")
    before = None
    if rebuild == "history" and len(wild) > 1:
        # since seed C19-k: a complete build with the judged parameters, then a build with OTHER values for the earlier
        # wildcards that is refused at the last one (its value is missing), then the judged build
        before = route.url(*args, **named)
        alt = _resolve(router, seen, _path_of(shape, [ALT_HOLE.get(w.filter) or h for w, h in zip(wild, alt_holes)])) if alt_holes else None
        if alt is not None and alt[0] is route:
            cover("history-other-values")
            a_named, a_values = alt[1], alt[2]
            a_args = [a_values[i] for i, w in enumerate(wild) if w.name is None]
            try:
                if wild[-1].name is None:
                    route.url(*a_args[:-1], **a_named)
                else:
                    route.url(*a_args, **{k: v for k, v in a_named.items() if k != wild[-1].name})
            except Exception:  # noqa
                cover("incomplete-refused")
    try:
        url = route.url(*args, **named)
        if before is not None and url != before:
            return ("rule %r, parameters %r / %r: url() gave %r, then - after a refused build with other values for the earlier "
                    "wildcards - %r" % (rule, args, named, before, url))
        if rebuild:
            again = route.url(*args, **named)
            if again != url:
                return "rule %r, parameters %r / %r: url() gave %r and, asked again, %r" % (rule, args, named, url, again)
    except Exception as e:
        return "rule %r matched %r giving %r / %r, but url() of these parameters raised %s: %s" % (
            rule, path, args, named, type(e).__name__, e)
    if not isinstance(url, str):
        return "url() returned %r" % (url,)
    missing = _literals_in_order(url, shape.literals)
    if missing >= 0:
        return "rule %r, parameters %r / %r: literal %r (no. %d) is not in the built URL %r after the preceding literals" % (
            rule, args, named, shape.literals[missing], missing, url)
    if url != path.strip("/"):
        cover("rewritten")
    second = _resolve(router, seen, url)
    if second is None:
        return "rule %r matched %r giving %r / %r; the built URL %r is not matched by the rule" % (rule, path, args, named, url)
    route2, named2, values2 = second
    if route2 is not route:
        return "built URL %r resolved to another route" % (url,)
    if len(values2) != len(values):
        return "built URL %r matched with %d values, the original path with %d" % (url, len(values2), len(values))
    for i, w in enumerate(wild):
        if not values2[i] == values[i]:
            return "rule %r: wildcard no. %d was %r for path %r, is %r for the built URL %r" % (
                rule, i, values[i], path, values2[i], url)
        if w.name is not None and not (w.name in named and w.name in named2 and named2[w.name] == named[w.name]):
            return "rule %r: parameter %r differs between path %r (%r) and built URL %r (%r)" % (
                rule, w.name, path, named, url, named2)
    return None


# ---------------------------------------------------------------- query makers
def _restrict(shape, text):
    if shape.ascii:
        for ch in text:
            assume(ord(ch) < 128)


def make_free(shape, n):
    def q(p: str):
        assume(len(p) <= n)
        _restrict(shape, p)
        return roundtrip(shape, p)
    return q


def _path_of(shape, texts):
    """the rule's literals with texts[i] at the i-th wildcard"""
    parts = []
    used = 0
    for s in shape.spec:
        if isinstance(s, L):
            parts.append(s.text)
        else:
            parts.append(texts[used])
            used += 1
    return "".join(parts)


def make_holes(shape, sizes):
    def q(h0: str, h1: str, h2: str):
        holes = [h0, h1, h2][:len(sizes)]
        for h, k in zip(holes, sizes):
            assume(len(h) <= k)
            _restrict(shape, h)
        return roundtrip(shape, _path_of(shape, holes))
    return q


def make_rebuild(shape, sizes, history=False):
    def q(h0: str, h1: str, h2: str):
        holes = [h0, h1, h2][:len(sizes)]
        for h, k in zip(holes, sizes):
            assume(len(h) <= k)
            _restrict(shape, h)
        if history:
            return roundtrip(shape, _path_of(shape, holes), rebuild="history", alt_holes=holes)
        return roundtrip(shape, _path_of(shape, holes), rebuild=True)
    return q


def make_seq(first, second, sizes):
    """state across calls (since seed C19-i): the round trip of one rule, then - same process, another router - the round
    trip of another rule; wildcard texts of both are solver variables (so equal values of different types occur)"""
    n1 = len(first.wildcards)

    def q(h0: str, h1: str, h2: str):
        holes = [h0, h1, h2][:len(sizes)]
        for i, (h, k) in enumerate(zip(holes, sizes)):
            assume(len(h) <= k)
            _restrict(first if i < n1 else second, h)
        r = roundtrip(first, _path_of(first, holes[:n1]))
        if r is not None:
            return r
        r = roundtrip(second, _path_of(second, holes[n1:]))
        if r is not None:
            return "after a round trip of rule %r with %r: %s" % (first.text, holes[:n1], r)
        return None
    return q


SEQ_SHAPES = {
    "float": _s("seq-float", L("price/"), W("amount", "float"), L("/eur"), ascii=True),
    "int": _s("seq-int", L("article/"), W("id", "int"), ascii=True),
    "w": _s("seq-w", L("tag/"), W("t")),
    "re": _s("seq-re", L("code/"), W("c", "re", "[0-9]+x?"), flavour=2),
    "float-int": _s("seq-float-int", L("scale/"), W("f", "float"), L("/page/"), W("n", "int"), ascii=True),
    "path": _s("seq-path", L("d/"), W("p", "path"), flavour=2),
}
for _shape in SEQ_SHAPES.values():
    Route(_shape.text)
SEQ_PAIRS = [("float", "int", (2, 2), True), ("int", "float", (2, 2), True), ("float-int", "int", (1, 1, 1), True),
             ("w", "int", (2, 2), False), ("re", "int", (2, 2), False), ("int", "re", (2, 2), False),
             ("path", "float", (2, 2), False), ("float", "float", (2, 2), False), ("int", "int", (2, 2), False)]


def make_skeleton(shape, where, prefix, rest, n):
    def q(t: str):
        assume(len(t) <= n)
        for ch in t:
            assume("0" <= ch <= "9")
        if len(t) == n:
            cover("full-tail")
        texts = list(rest)
        texts.insert(where, prefix + t)
        return roundtrip(shape, _path_of(shape, texts))
    return q


def queries(tier):
    T = tier == "thorough"
    out = []
    for sh in shapes(tier):
        nlit = sum(len(t) for t in sh.literals)
        nw = len(sh.wildcards)
        expect = ["matched"] + (["rewritten"] if sh.rewritten else [])
        alpha = "code points < 128" if sh.ascii else "any code points"
        if nw:
            sizes = list(sh.deep or [k + 1 for k in sh.holes]) if T else list(sh.holes)
            assert len(sizes) == nw, sh.tag
            out.append(Q("holes/%s" % sh.tag, make_holes(sh, sizes),
                         "rule %s; path = the rule's literals %r with a fully symbolic text (%s) of len <= %s at the "
                         "wildcards" % (sh.text, sh.literals, alpha, " / ".join(map(str, sizes))),
                         timeout=(600 if sh.tag.startswith("float-dot") else 200) if not T else 1200, expect_cover=expect, family="holes",
                         config={"rule": sh.text, "literals": sh.literals, "hole_len": sizes}))
        if sh.free:
            n = nlit + sh.free + (1 if T else 0)
            out.append(Q("free/%s" % sh.tag, make_free(sh, n),
                         "rule %s; every path (%s, slashes anywhere) of len <= %d" % (sh.text, alpha, n),
                         timeout=200 if not T else 900, expect_cover=expect, family="free",
                         config={"rule": sh.text, "literals": sh.literals, "path_len": n}))
    picked = 0
    for sh in shapes(tier):
        nw = len(sh.wildcards)
        if nw < 2 or len(sh.literals) < 2 or (not T and picked >= 5):
            continue
        sizes = list(sh.holes or sh.deep or ())
        if len(sizes) != nw or nw > 3:
            continue
        picked += 1
        out.append(Q("rebuild/%s" % sh.tag, make_rebuild(sh, sizes),
                     "rule %s: an incomplete url() call (last parameter missing), then the round trip, then the same build again "
                     "on the same route object; symbolic text of len <= %s at the wildcards" % (sh.text, " / ".join(map(str, sizes))),
                     timeout=200 if not T else 900, expect_cover=["matched", "incomplete-refused"], family="rebuild",
                     config={"rule": sh.text, "hole_len": sizes}))
        if picked <= (3 if not T else 99):
            out.append(Q("rebuild-history/%s" % sh.tag, make_rebuild(sh, sizes, True),
                         "rule %s: a complete url() call with the judged parameters, a call with other values for the earlier "
                         "wildcards that is refused (last parameter missing), then the judged build (same URL as the first) and the "
                         "round trip; symbolic text of len <= %s at the wildcards" % (sh.text, " / ".join(map(str, sizes))),
                         timeout=200 if not T else 900, expect_cover=["matched"], family="rebuild",
                         config={"rule": sh.text, "hole_len": sizes}))
    for a, b, sizes, quick in SEQ_PAIRS:
        if not (quick or T):
            continue
        sa, sb = SEQ_SHAPES[a], SEQ_SHAPES[b]
        sizes = [k + 1 for k in sizes] if T and len(sizes) < 3 else list(sizes)
        out.append(Q("seq/%s-then-%s" % (a, b), make_seq(sa, sb, sizes),
                     "round trip of rule %s, then (same process, a router of its own) round trip of rule %s; symbolic text of "
                     "len <= %s at the wildcards of both" % (sa.text, sb.text, " / ".join(map(str, sizes))),
                     timeout=400 if not T else 1200, expect_cover=["matched"], family="seq",
                     config={"first": sa.text, "second": sb.text, "hole_len": sizes}))
    for sh, where, rest, quick_tags, thorough_tags, deep_tail in SKELETONS:
        for tag, prefix, _tail in FLOAT_PREFIXES:
            if tag not in (thorough_tags if T else quick_tags):
                continue
            n = deep_tail if T and tag != "tiny" else 2
            out.append(Q("skeleton/%s/%s" % (sh.tag, tag), make_skeleton(sh, where, prefix, rest, n),
                         "rule %s; path = the rule's literals %r, float wildcard no. %d = %r + a symbolic tail of <= %d ASCII "
                         "digits, other wildcards %r" % (sh.text, sh.literals, where, prefix, n, list(rest)),
                         timeout=150 if not T else 600, expect_cover=["matched", "full-tail"], family="skeleton",
                         config={"rule": sh.text, "prefix": prefix, "tail_len": n, "other": list(rest)}))
    for sh, where, rest, quick_tags, _all, deep_tail in INT_SKELETONS:
        for tag, prefix, _tail in INT_PREFIXES:
            if not T and tag not in quick_tags:
                continue
            n = deep_tail if T else 2
            out.append(Q("skeleton/%s/%s" % (sh.tag, tag), make_skeleton(sh, where, prefix, rest, n),
                         "rule %s; path = the rule's literals %r, int wildcard no. %d = %r + a symbolic tail of <= %d ASCII "
                         "digits, other wildcards %r" % (sh.text, sh.literals, where, prefix, n, list(rest)),
                         timeout=300 if not T else 900, expect_cover=["matched", "full-tail"], family="skeleton",
                         config={"rule": sh.text, "prefix": prefix, "tail_len": n, "other": list(rest)}))
    return out


def selftest(tier):
    """stub validation, and one matching path per shape run natively through the query function"""
    stubs_c19.differential(prefix + "%0*d" % (n, v) for _tag, prefix, _tail in FLOAT_PREFIXES
                           for n in (1, 2, 3) for v in range(10 ** n))
    cases = [(q.qid, dict(t=tail), "ok") for q in queries(tier) if q.family == "skeleton"
             for tag, _prefix, tail in FLOAT_PREFIXES + INT_PREFIXES if q.qid.endswith("/" + tag)
             and (q.qid.split("/")[1] in ("item-int", "int-int")) == (tag in [t for t, _p, _t in INT_PREFIXES])]
    for sh in shapes(tier):
        if sh.wildcards:
            texts = list(sh.example) + ["", "", ""]
            cases.append(("holes/%s" % sh.tag, dict(h0=texts[0], h1=texts[1], h2=texts[2]), "ok"))
        else:
            cases.append(("free/%s" % sh.tag, dict(p="/" + "".join(sh.literals) + "/"), "ok"))
    return cases
