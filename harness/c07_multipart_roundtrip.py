"""C07 - multipart forms and uploads round-trip exactly.

Reference semantics decided here (nothing else is demanded).  A submission is a list of parts, each either
  text (name, value)  or  upload (name, file name, content type or none, content bytes),
encoded by harness/mpgrammar.py (one Content-Disposition line `form-data; name="N"[; filename="F"]`, an optional
Content-Type line, the data, delimiters of the boundary; names/values as UTF-8, nothing escaped).  Posting it must give
  forms = {name: the values of the text parts of that name}, files = {name: the uploads of that name},
  POST  = {name: all parts of that name}, each in submission order; a name occurring once may be held as the bare
  item or as a one-element list (not judged);
  an upload is seen through FileUpload: .name, .raw_filename (the file name as sent), .content_type, .file.read()
  (and read(k) loops / seek / tell / save()) = the content bytes;
  .content_type may be the text sent or a parsed header object whose .value is the media type (ombott gives the
  latter: API shape is not judged).
Tolerances: a request whose part headers + text values exceed max_memfile_size may be refused with 413 instead
(C13 judges the limit); under chunked framing max_memfile_size >= length of a chunk-size line; file names are
non-empty (filename="" is what browsers send for "no file chosen"; ombott stores None in forms for it - reported,
not judged); code points are any but '"', CR, LF and the lone surrogates (not encodable).

History: this check found four defects, repaired in /repo by 7a1991b (';' inside a quoted name / file name ended the
parameter), 3aa85a2 (part headers were split with str.splitlines(): VT FF FS GS RS NEL LS PS inside a name / file name
broke the header line), 227f4dc (a text part and an upload sharing a name leaked into each other's container) and
c16fb32 (a quoted boundary parameter lost every field).  Each keeps its smallest query as a regression (semicolon/*,
linebreak/*, mixed-kinds/*, quoted-boundary/*); no query excludes any of these inputs.
"""
from vf.engine import assume, cover
from vf.query import Q
from vf import stubs, stubs_c07
from harness import mpgrammar as G

import ombott
from ombott.request_pkg.multipart import FieldStorage, MultipartMarkup, BytesIOProxy
from ombott.request_pkg.helpers import FileUpload

PROPERTY = "C07"
TECHNIQUE = ("bounded symbolic execution of FieldStorage.parse_header/read/iter_items, BytesIOProxy, BodyMixin.POST and "
             "Ombott.__call__ (CrossHair+z3): field names, file names, text values, content bytes, read sizes, seek "
             "positions, chunk cut and max_memfile_size are solver variables; oracle = the list of parts that the harness "
             "encoder was given")
LEVEL_TEXT = ("Three layers of the real code are executed on solver variables. (1) FieldStorage.parse_header on a "
              "Content-Disposition line whose field name and file name are fully symbolic strings (every code point except "
              "'\"', CR, LF): the parsed options equal the inputs. (2) FieldStorage.iter_items over the markup the real "
              "MultipartMarkup produces for encoder-built bodies (several boundaries) in which one name, file name or text "
              "value is a symbolic string (through the UTF-8 header/value decoding) or the upload content has symbolic bytes "
              "(all 256 values) inside CR/LF/dash/partial-delimiter surroundings: every part comes back with exactly its "
              "own name, file name, content type and bytes, neighbours untouched; BytesIOProxy read/seek/tell with symbolic "
              "sizes and positions equals slicing the content. (3) POST requests through Ombott.__call__ for 0-3 parts of "
              "interleaved kinds with solver-chosen names (equal or different), a symbolic text value or content bytes, "
              "Content-Length and chunked framing (symbolic cut) and symbolic max_memfile_size around the in-memory budget "
              "and around the body length: Request.forms / files / POST inside the handler equal the submission, repeated "
              "names in order. z3 decides every branch on the symbolic values; inside the stated bounds there is no other "
              "behaviour. Bounded, not a proof: string lengths <= 1-3, part layouts and boundaries enumerated.")
LEVEL_NOTE = ("Trusted: z3; CrossHair's str/bytes/int/UTF-8 codec models; PyPattern (pure-Python interpreter of the parse tree "
              "of FieldStorage._patt, compared with CPython's re on ~33k comparisons at every run - CrossHair's own re model "
              "mis-orders lazy matches inside optional groups); PyBytesIO/SymStream stubs; harness/mpgrammar.py encoder; the "
              "reference semantics in the harness docstring. End-to-end names are drawn by the solver from a fixed list "
              "(dict hashing would realise a free string); free names are covered by layers 1-2. Texts are compared code "
              "point by code point (CrossHair's `==` between differently represented symbolic strings is unreliable). "
              "No input of the property's quantifier is excluded: the four defects this check found are fixed in /repo and "
              "their smallest queries are kept as regressions.")
FUNCTIONS = [
    "ombott.request_pkg.multipart:FieldStorage.parse_header",
    "ombott.request_pkg.multipart:FieldStorage.read",
    "ombott.request_pkg.multipart:FieldStorage.iter_items",
    "ombott.request_pkg.multipart:BytesIOProxy.read",
    "ombott.request_pkg.multipart:BytesIOProxy.seek",
    "ombott.request_pkg.multipart:BytesIOProxy.tell",
    "ombott.request_pkg.multipart:MultipartMarkup.parse",
    "ombott.request_pkg.multipart:BodyMarkuper.iter_markup",
    "ombott.request_pkg.multipart:BodyMarkuper._eat_data",
    "ombott.request_pkg.body_mixin:BodyMixin.POST",
    "ombott.request_pkg.body_mixin:BodyMixin.forms",
    "ombott.request_pkg.body_mixin:BodyMixin.files",
    "ombott.request_pkg.body_mixin:BodyMixin._body",
    "ombott.request_pkg.body_mixin:_body_read",
    "ombott.request_pkg.helpers:FileUpload.__init__",
    "ombott.request_pkg.helpers:FileUpload._copy_file",
    "ombott.request_pkg.helpers:FileUpload.save",
]
STUBS = [
    "PyPattern: pure-Python backtracking interpreter of re's parse tree for the current text of FieldStorage._patt "
    "(validated against re.match/search/finditer on all strings of length <= 4 over 'a=;\" \\n' at every run)",
    "PyBytesIO for io.BytesIO/tempfile.TemporaryFile inside body_mixin and as the buffered body handed to FieldStorage",
    "SymStream as wsgi.input (full reads)",
]
ASSUMPTIONS = [
    "the encoder of harness/mpgrammar.py is what 'encoding as multipart/form-data' means: unescaped UTF-8 names in quoted "
    "parameters, name before filename, no preamble, CRLF epilogue",
    "file names are non-empty; strings contain no lone surrogates",
    "the boundary parameter is sent unquoted except in the quoted-boundary regression query",
    "content type of an upload is observed as FileUpload.content_type (text or header object with .value)",
]
OUTSIDE = [
    "names / file names / values longer than the stated lengths; more than one symbolic string per body (the others are "
    "fixed, distinct markers)", "more than 3 parts; boundaries other than the enumerated ones",
    "end-to-end names outside the fixed list", "read fragmentation of wsgi.input (C04-C06)", "the 413 rule itself (C13)",
    "FileUpload.filename sanitising and save() to a path on disk",
]
BUDGET_S = {"quick": 250, "thorough": 1150}

stubs.install_body_io()
stubs_c07.install_field_pattern()
G.selfcheck()
CRLF = b"\r\n"


# ---------------------------------------------------------------- alphabets and comparison
def legal(o):
    """code point allowed by the property in names and file names: not '"', CR, LF (and encodable)"""
    return o != 34 and o != 13 and o != 10 and not 0xD800 <= o <= 0xDFFF


def no_surrogate(o):
    return not 0xD800 <= o <= 0xDFFF


def sym_text(s, lo, hi, pred):
    """bound a symbolic str to lo <= len <= hi and to code points satisfying pred; returns it rebuilt from its code
    points (a string of concrete length over integer variables: measured 8x cheaper per path for z3 than slicing
    and concatenating the solver's own sequence variable)"""
    assume(lo <= len(s) <= hi)
    codes = [ord(s[i]) for i in range(int(len(s)))]
    for o in codes:
        assume(pred(o))
    return "".join([chr(o) for o in codes])


def sym_bytes(d, lo, hi):
    """the same for a symbolic bytes value (all 256 values per byte)"""
    assume(lo <= len(d) <= hi)
    out = b""
    for i in range(int(len(d))):
        out += bytes([d[i]])
    return out


def same(a, b):
    """a == b for str/bytes/None, decided element by element"""
    if a is None or b is None:
        return a is None and b is None
    if len(a) != len(b):
        return False
    text = isinstance(a, str)
    if text != isinstance(b, str):
        return False
    for i in range(len(a)):
        if (ord(a[i]) != ord(b[i])) if text else (a[i] != b[i]):
            return False
    return True


def contains(data, token):
    for i in range(len(data) - len(token) + 1):
        if same(data[i:i + len(token)], token):
            return True
    return False


# ---------------------------------------------------------------- submissions
def text_part(name, value):
    return {"kind": "T", "name": name, "value": value}


def file_part(name, filename, ctype, data):
    return {"kind": "F", "name": name, "filename": filename, "ctype": ctype, "data": data}


def encode(boundary, parts):
    enc = []
    for p in parts:
        if p["kind"] == "T":
            enc.append((G.H(p["name"].encode("utf8")), p["value"].encode("utf8")))
        else:
            ct = p["ctype"].encode("utf8") if p["ctype"] else None
            enc.append((G.H(p["name"].encode("utf8"), p["filename"].encode("utf8"), ct), p["data"]))
    return G.encode(boundary, enc), enc


def budget(enc, parts):
    """bytes FieldStorage has to bring into memory: every header block and every text value"""
    return sum(len(CRLF.join(hs)) + (len(data) if p["kind"] == "T" else 0) for (hs, data), p in zip(enc, parts))


def media_type(ctype):
    return ctype.split(";")[0].strip()


def ctype_seen(ct):
    return ct if isinstance(ct, str) else getattr(ct, "value", ct)


def differs(part, name, filename, ctype, value, content):
    """None if what was observed for one part equals the part submitted"""
    if not same(name, part["name"]):
        return "name %r, sent %r" % (name, part["name"])
    if part["kind"] == "T":
        if filename is not None or not same(value, part["value"]):
            return "text field %r: value %r (file name %r), sent %r" % (name, value, filename, part["value"])
        return None
    if not same(filename, part["filename"]):
        return "upload %r: file name %r, sent %r" % (name, filename, part["filename"])
    if part["ctype"] and not same(ctype, part["ctype"]) and not same(ctype, media_type(part["ctype"])):
        return "upload %r: content type %r, sent %r" % (name, ctype, part["ctype"])
    if not same(content, part["data"]):
        return "upload %r: content %r, sent %r" % (name, content, part["data"])
    return None


# ---------------------------------------------------------------- (1) parse_header
def make_header(nmax, with_file, pred):
    def q(name: str, fname: str):
        name = sym_text(name, 0, nmax, pred)
        fname = sym_text(fname, 0, nmax if with_file else 0, pred)
        line = 'Content-Disposition: form-data; name="' + name + '"'
        if with_file:
            line += '; filename="' + fname + '"'
        h = FieldStorage.parse_header(line)
        if h.name != "Content-Disposition" or h.value != "form-data":
            return "header %r parsed as %r: %r" % (line, h.name, h.value)
        if not same(h.options.get("name"), name):
            return "name %r parsed as %r (options %r)" % (name, h.options.get("name"), h.options)
        if not same(h.options.get("filename"), fname if with_file else None):
            return "file name %r parsed as %r (options %r)" % (fname, h.options.get("filename"), h.options)
        if len(name) == nmax:
            cover("full-length")
        return None
    return q


def make_ctype_header(nmax):
    """Content-Type line: media type a/b of symbolic token characters, optional charset parameter"""
    def q(sub: str, with_param: bool):
        sub = sym_text(sub, 1, nmax, lambda o: 33 <= o <= 126 and o != 59 and o != 34 and o != 61)
        sent = "text/" + sub + ("; charset=utf-8" if with_param else "")
        h = FieldStorage.parse_header("Content-Type: " + sent)
        if h.name != "Content-Type" or not same(h.value, "text/" + sub):
            return "content type %r parsed as %r: %r" % (sent, h.name, h.value)
        if with_param:
            cover("param")
            if h.options.get("charset") != "utf-8":
                return "content type %r: parameters %r" % (sent, h.options)
        return None
    return q


# ---------------------------------------------------------------- (2) FieldStorage.iter_items / BytesIOProxy
def read_fields(boundary, parts, max_read):
    """encode, mark up with the real streaming parser in one piece, read the fields back"""
    body, enc = encode(boundary, parts)
    markup = MultipartMarkup(boundary)
    markup.parse(body)
    if markup.error is not None:
        return None, "markup of the encoded body failed: %r" % (markup.error,)
    src = stubs.PyBytesIO(body)
    return list(FieldStorage.iter_items(src, markup.markups, max_read)), None


def judge_fields(items, parts):
    if len(items) != len(parts):
        return "%d fields read, %d submitted" % (len(items), len(parts))
    for it, p in zip(items, parts):
        ctype = it.ctype
        content = it.file.read() if it.file is not None else None
        bad = differs(p, it.name, it.filename, ctype, it.value, content)
        if bad:
            return bad
    return None


NEIGHBOURS = (text_part("first", "--b"), file_part("last", "l.bin", "application/octet-stream", b"\r\n-\r\n-b--\r"))


def make_read_string(boundary, slot, nmax):
    """one symbolic string in `slot` of the middle part(s); fixed neighbours before and after"""
    def q(s: str):
        s = sym_text(s, 1, nmax, legal) if slot != "value" else sym_text(s, 0, nmax, no_surrogate)
        if slot == "name":
            mid = [text_part(s, "v"), file_part(s, "f.txt", "text/plain", b"DATA")]
        elif slot == "filename":
            mid = [file_part("up", s, "text/plain; charset=utf-8", b"DATA")]
        else:
            mid = [text_part("t", s)]
        parts = [NEIGHBOURS[0]] + mid + [NEIGHBOURS[1]]
        items, err = read_fields(boundary, parts, 10 ** 6)
        if err:
            return err
        bad = judge_fields(items, parts)
        if bad:
            return bad
        if len(s) == nmax:
            cover("full-length")
        return None
    return q


# upload contents: fixed bytes rich in CR, LF, dashes and pieces of the delimiter, '?' = symbolic byte.  The parser
# strides through data in steps of the delimiter length, so every content is also shifted by a symbolic pad.
TEMPLATES = {
    "free": b"???",
    "tail": b"x\r\n-??",            # ends in a partial delimiter, right before the real one
    "almost": b"\r\n--?\r\n-?b",     # delimiter with one byte open
    "head": b"?-b\r\n\r\n--?",
}


def fill(template, holes):
    out = b""
    k = 0
    for i in range(len(template)):
        if template[i] == 63:
            out += holes[k:k + 1]
            k += 1
        else:
            out += template[i:i + 1]
    return out


def make_read_data(boundary, tname, two_files):
    template = TEMPLATES[tname]
    nholes = template.count(b"?")
    stride = len(CRLF + b"--" + boundary)

    def q(d: bytes, pad: int):
        assume(0 <= pad < stride)
        data = b"-" * pad + fill(template, sym_bytes(d, nholes, nholes))
        assume(not contains(data, CRLF + b"--" + boundary))
        mid = [file_part("up", "f.bin", "application/octet-stream", data)]
        if two_files:
            mid.append(file_part("up2", "g.bin", None, data[1:] + b"\r"))
        parts = [NEIGHBOURS[0]] + mid + [NEIGHBOURS[1]]
        items, err = read_fields(boundary, parts, 10 ** 6)
        if err:
            return err
        bad = judge_fields(items, parts)
        if bad:
            return bad
        cover("ok")
        return None
    return q


WINDOW = b"\r\n--b\rD-"       # what a BytesIOProxy is laid over, inside a longer buffer


def make_proxy_loop(pad):
    """the loop of FileUpload._copy_file: read(k) until empty, tell(), rewind, read()"""
    buf = b"<" * pad + WINDOW + b">>>"
    n = len(WINDOW)

    def q(k: int):
        assume(1 <= k <= n + 1)
        px = BytesIOProxy(stubs.PyBytesIO(buf), pad, pad + n)
        got = b""
        while True:
            piece = px.read(k)
            if not piece:
                break
            if len(piece) > k:
                return "read(%r) returned %r bytes" % (k, len(piece))
            got += piece
        if got != WINDOW or px.tell() != n:
            return "read(%r) loop gave %r (tell %r), window holds %r" % (k, got, px.tell(), WINDOW)
        if px.seek(0) != 0 or px.read() != WINDOW or px.read() != b"":
            return "after seek(0): read() does not give the window %r once" % (WINDOW,)
        cover("ok")
        return None
    return q


def make_proxy_seek(pad):
    """seek(pos, whence) to every in-range target from every position, then read(sz), against slicing"""
    buf = b"<" * pad + WINDOW + b">>>"
    n = len(WINDOW)

    def q(start: int, pos: int, whence: int, sz: int):
        assume(0 <= start <= n and 0 <= whence <= 2 and -1 <= sz <= n + 1)
        px = BytesIOProxy(stubs.PyBytesIO(buf), pad, pad + n)
        px.seek(start)
        target = (0, start, n)[whence] + pos
        assume(0 <= target <= n)
        if px.seek(pos, whence) != target or px.tell() != target:
            return "seek(%r, %r) from %r in %r bytes: tell() %r, expected %r" % (pos, whence, start, n, px.tell(), target)
        piece = px.read(sz) if sz != 0 else px.read()
        want = WINDOW[target:] if sz <= 0 else WINDOW[target:target + sz]
        if piece != want:
            return "after seek to %r: read(%r) gave %r, window slice is %r" % (target, sz, piece, want)
        if px.tell() != target + len(want):
            return "tell() %r after reading %r bytes from %r" % (px.tell(), len(want), target)
        cover("ok")
        return None
    return q


# ---------------------------------------------------------------- (3) through Ombott.__call__
NAMES = ["a", "ä =b\\", "c.d"]
VALUES = ["one", "", "drü\r\n--"]          # fixed, distinct markers of the parts that are not symbolic
CONTENTS = [b"\x00\xff\r\n--", b"", b"--b--\r\n"]


def see(x):
    """one item of forms/files/POST as (kind, name, file name, content type, value, content)"""
    if isinstance(x, str):
        return ("T", None, None, None, x, None)
    if isinstance(x, FileUpload):
        sink = stubs.PyBytesIO()
        x.file.seek(0)
        x.save(sink)                    # copies from the current position and returns there
        content = x.file.read()
        if not same(sink.getvalue(), content):
            return ("save() wrote %r, file holds %r" % (sink.getvalue(), content),) + (None,) * 5
        return ("F", x.name, x.raw_filename, ctype_seen(x.content_type), None, content)
    return ("%s object" % type(x).__name__,) + (None,) * 5


def snapshot(d):
    out = {}
    for k in d.keys():
        v = d[k]
        out[k] = [see(x) for x in v] if isinstance(v, list) else [see(v)]
    return out


def chunked(body, cut):
    out = b""
    for piece in (body[:cut], body[cut:]):
        if len(piece):
            out += ("%x" % len(piece)).encode() + CRLF + piece + CRLF
    return out + b"0" + CRLF + CRLF


def post(body, content_type, t, framing, cut, frags=()):
    """fresh application, POST /u; returns (status, {'forms','files','post'} snapshots or {})"""
    app = ombott.Ombott({"max_memfile_size": t})
    seen = {}

    def handler():
        rq = app.request
        seen["forms"] = snapshot(rq.forms)
        seen["files"] = snapshot(rq.files)
        seen["post"] = snapshot(rq.POST)
        return "done"
    app.route("/u", method="POST", callback=handler)
    env = {"REQUEST_METHOD": "POST", "PATH_INFO": "/u", "CONTENT_TYPE": content_type, "SERVER_NAME": "h",
           "SERVER_PORT": "80", "wsgi.url_scheme": "http",
           "wsgi.errors": type("E", (), {"write": staticmethod(lambda text: None)})}
    if framing == "chunked":
        wire = chunked(body, cut)
        env["HTTP_TRANSFER_ENCODING"] = "chunked"
    else:
        wire = body
        env["CONTENT_LENGTH"] = str(len(body))
    env["wsgi.input"] = stubs.SymStream(len(wire), list(frags), data=wire)
    got = []
    b"".join(app(env, lambda st, hd, ei=None: got.append(st)))
    return int(got[0][:3]), seen


def judge_post(status, seen, parts, over_budget):
    if over_budget and status == 413 and not seen:
        cover("refused-over-budget")
        return None
    if status != 200 or not seen:
        return "answered %r, handler saw %r" % (status, seen)
    want = {"forms": {}, "files": {}, "post": {}}
    for p in parts:
        want["forms" if p["kind"] == "T" else "files"].setdefault(p["name"], []).append(p)
        want["post"].setdefault(p["name"], []).append(p)
    for view in ("forms", "files", "post"):
        got = seen[view]
        if sorted(got) != sorted(want[view]):
            return "%s has the names %r, submitted %r" % (view, sorted(got), sorted(want[view]))
        for name in want[view]:
            if len(got[name]) != len(want[view][name]):
                return "%s[%r] holds %d item(s), submitted %d: %r" % (view, name, len(got[name]), len(want[view][name]),
                                                                      got[name])
            for (kind, nm, fn, ct, val, content), p in zip(got[name], want[view][name]):
                if kind != p["kind"]:
                    return "%s[%r]: %s where a %s part was submitted (%r)" % (view, name, kind, p["kind"], got[name])
                bad = differs(p, p["name"] if kind == "T" else nm, fn, ct, val, content)
                if bad:
                    return "%s[%r]: %s" % (view, name, bad)
    cover("delivered")
    return None


def make_wsgi(kinds, hot, framing, window, nnames, vmax, ncuts=2, content_type="multipart/form-data; boundary=b"):
    """kinds: 'T'/'F' per part.  Part `hot` carries the symbolic value (text, <= vmax characters) or content (upload,
    <= vmax symbolic bytes in CRLF-dash surroundings); the names are NAMES[i] for solver-chosen i < nnames (so any
    two may coincide); max_memfile_size t is taken from `window`: 'budget' = in-memory need -1..+1, 'body' = body
    length -1..+1, 'all' = need-1 .. body length+1.  Chunked framing: two chunks, cut at one of `ncuts` places -
    inside the last data section, inside the closing delimiter, before the final CRLF."""
    def q(i1: int, i2: int, i3: int, v: str, d: bytes, dt: int, cut: int):
        idx = [i1, i2, i3]
        for k in range(3):
            assume(0 <= idx[k] < nnames if k < len(kinds) else idx[k] == 0)
        hot_text = hot is not None and kinds[hot] == "T"
        v = sym_text(v, 0, vmax if hot_text else 0, no_surrogate)
        d = sym_bytes(d, 0, vmax if hot is not None and not hot_text else 0)
        parts = []
        for k, kind in enumerate(kinds):
            name = NAMES[idx[k]]
            if kind == "T":
                parts.append(text_part(name, v if k == hot else VALUES[k]))
            else:
                data = b"\r\n-" + d + b"-b\r" if k == hot else CONTENTS[k]
                parts.append(file_part(name, "c:\\f%d ü=/x .txt" % k, (None, "text/plain", "text/plain; charset=utf-8")[k], data))
        body, enc = encode(b"b", parts)
        for _, data in enc:
            assume(not contains(data, CRLF + b"--b"))
        need, n = budget(enc, parts), len(body)
        if window == "budget":
            assume(-1 <= dt <= 1)
            t = need + dt
        elif window == "body":
            assume(-1 <= dt <= 1)
            t = n + dt
        else:
            assume(need - 1 <= dt <= n + 1)
            t = dt
        assume(t >= 8)                 # chunked framing needs at least a chunk-size line
        if framing == "chunked":
            assume(1 <= cut <= ncuts)
            where = n - 14 + cut * 4 if n > 16 else cut
        else:
            assume(cut == 0)
            where = 0
        status, seen = post(body, content_type, t, framing, where)
        bad = judge_post(status, seen, parts, need > t)
        if bad:
            return "%s (parts %r, max_memfile_size %r, body %r bytes)" % (bad, parts, t, n)
        if n > t:
            cover("spooled")
        return None
    return q


# ---------------------------------------------------------------- query list
FRAMING_FORM = [text_part("t", "a;b=c"), file_part("d", "r\u00e9.txt", "text/plain", b"\r\n--\r-b\n\x00--"),
                text_part("t", ""), text_part("t", "last")]


def make_framing(framing):
    """a fixed 4-part form (repeated names, upload data with delimiter look-alikes) posted under every division the framing
    layer can produce: two transfer-encoding chunks cut at every offset, resp. Content-Length with every max_memfile_size
    (= read size of the body reader) from 1 to the body length + 1.  The division is a solver variable (realised per
    value); every division must deliver exactly the submitted form."""
    body, enc = encode(b"b", FRAMING_FORM)
    need = budget(enc, FRAMING_FORM)

    lens = list(range(1, len(body) + 1))

    def q(v: int):
        if framing == "chunked":
            assume(0 <= v <= len(body))
            status, seen = post(body, "multipart/form-data; boundary=b", need + 4, "chunked", int(v))
        elif framing.startswith("short"):
            # a server whose read() hands out what has arrived: the first read returns v bytes only (every v), then full reads
            assume(0 <= v < len(body))
            t = len(body) + 1 if framing == "short" else need + 3
            status, seen = post(body, "multipart/form-data; boundary=b", t, "cl", 0, [lens[v]])
        else:
            assume(need <= v <= len(body) + 1)
            status, seen = post(body, "multipart/form-data; boundary=b", int(v), "cl", 0)
        return judge_post(status, seen, FRAMING_FORM, False)
    return q, len(body)


def make_optional_headers():
    """which upload parts carry the optional Content-Type header is a solver choice; a second form with the complementary
    choice is posted to the same process afterwards: every upload shows its own type (none if it sent none)"""
    def q(t1: bool, t2: bool, t3: bool, chunked2: bool):
        def form(flags):
            return [file_part("a", "x.png", "image/png" if flags[0] else None, b"1"), text_part("t", "v"),
                    file_part("b", "y.bin", "application/pdf" if flags[1] else None, b"22"),
                    file_part("a", "z", "text/x-z" if flags[2] else None, b"")]
        flags = [bool(t1), bool(t2), bool(t3)]
        for n, fl in enumerate((flags, [not f for f in flags])):
            parts = form(fl)
            body, enc = encode(b"b", parts)
            status, seen = post(body, "multipart/form-data; boundary=b", len(body) + 1,
                                "chunked" if n and chunked2 else "cl", 5)
            bad = judge_post(status, seen, parts, False)
            if bad:
                return "form no. %d (typed uploads %r): %s" % (n + 1, fl, bad)
            # an upload sent without a Content-Type shows none (or a neutral default), never the type of another part
            for view in ("files", "post"):
                for name, items in seen[view].items():
                    sent = [p for p in parts if p["name"] == name]
                    for (kind, _nm, fname, ct, _val, _content), p in zip(items, sent):
                        if kind == "F" and not p["ctype"] and ct not in (None, "", "text/plain", "application/octet-stream"):
                            return "form no. %d: upload %r (%r) was sent without a Content-Type and shows %r (%s view)" % (
                                n + 1, name, fname, ct, view)
        return None
    return q


def queries(tier):
    T = tier == "thorough"
    out = []

    def add(qid, fn, bound, timeout, labels, family, config=None):
        out.append(Q(qid, fn, bound, timeout=timeout, expect_cover=labels, family=family, config=config))

    any_cp = "every code point except '\"', CR, LF, surrogates"
    # smallest shapes that exposed the four defects since fixed in /repo (see History above)
    add("semicolon/header", make_header(1, True, legal),
        "parse_header on Content-Disposition with name and file name of length <= 1, %s" % any_cp, 100, ["full-length"],
        "regression")
    add("linebreak/read-name", make_read_string(b"b", "name", 1),
        "FieldStorage.iter_items on a 4-part body, the name of parts 2 and 3 = one symbolic character, %s" % any_cp,
        200, ["full-length"], "regression")
    add("mixed-kinds/wsgi", make_wsgi("TF", None, "cl", "body", 2, 0),
        "POST of a text part and an upload whose names are solver-chosen from %r (may coincide), Content-Length framing, "
        "max_memfile_size = body length -1..+1" % (NAMES[:2],), 200, ["delivered"], "regression")
    add("quoted-boundary/wsgi", make_wsgi("T", 0, "cl", "body", 1, 1, content_type='multipart/form-data; boundary="b"'),
        "POST of one text part (value of <= 1 symbolic character) with the boundary parameter sent as a quoted string",
        200, ["delivered"], "regression")

    # (1) parse_header
    n = 3 if not T else 4
    add("header/name/n%d" % n, make_header(n, False, legal),
        "parse_header on 'Content-Disposition: form-data; name=\"N\"', |N| <= %d, %s" % (n, any_cp),
        100 if not T else 400, ["full-length"], "header")
    n = 2 if not T else 3
    add("header/file/n%d" % n, make_header(n, True, legal),
        "parse_header on '...; name=\"N\"; filename=\"F\"', |N|,|F| <= %d, %s" % (n, any_cp),
        200 if not T else 1000, ["full-length"], "header")
    add("header/ctype", make_ctype_header(2 if not T else 3),
        "parse_header on 'Content-Type: text/S[; charset=utf-8]', S = 1..%d printable ASCII characters except ';', '=', '\"'"
        % (2 if not T else 3), 100 if not T else 300, ["param"], "header")

    # (2) FieldStorage.iter_items over the real markup
    for boundary in ([b"b"] if not T else [b"b", b"--", b"b-b"]):
        for slot in ("name", "filename", "value"):
            n = 1 if not T or boundary != b"b" else 2
            add("read/%s/%s/n%d" % (boundary.decode(), slot, n), make_read_string(boundary, slot, n),
                "body of 3-4 parts with boundary %r, fixed neighbours; the %s of the middle part(s) is a symbolic string of "
                "length <= %d, %s" % (boundary, slot, n, any_cp if slot != "value" else "every encodable code point"),
                150 if n == 1 else 1100, ["full-length"], "read", {"boundary": boundary.decode(), "slot": slot})
    for boundary, names in ([(b"b", ["tail", "almost"]), (b"--", ["tail"])] if not T else
                            [(b"b", list(TEMPLATES)), (b"--", list(TEMPLATES)), (b"b-b", ["free", "tail"])]):
        for tname in names:
            two = T or tname == "tail"
            add("data/%s/%s" % (boundary.decode(), tname), make_read_data(boundary, tname, two),
                "upload content = 0..%d dashes (symbolic count) + %r ('?' = symbolic byte, all 256 values, delimiter of "
                "boundary %r must not occur) in %s between fixed neighbours"
                % (len(boundary) + 3, TEMPLATES[tname], boundary, "two consecutive uploads" if two else "one upload"),
                250 if not T else 900, ["ok"], "data", {"boundary": boundary.decode(), "template": tname})
    for pad in ([3] if not T else [0, 3]):
        add("proxy/loop/pad%d" % pad, make_proxy_loop(pad),
            "BytesIOProxy over the %d-byte window %r at offset %d of a longer buffer: read(k) loop for every k in 1..%d, "
            "tell, seek(0), read()" % (len(WINDOW), WINDOW, pad, len(WINDOW) + 1), 100, ["ok"], "proxy")
        add("proxy/seek/pad%d" % pad, make_proxy_seek(pad),
            "same window: from every position, seek(pos, whence) to every in-range target (whence 0, 1, 2), then read(sz) for "
            "sz in -1..%d, tell" % (len(WINDOW) + 1), 300, ["ok"], "proxy")

    # (3) through Ombott.__call__
    def wsgi(kinds, hot, framing, window, nnames, vmax, ncuts, timeout):
        what = ("nothing symbolic but the names" if hot is None else
                "part %d carries a text value of <= %d symbolic character(s)" % (hot, vmax) if kinds[hot] == "T" else
                "part %d carries content with <= %d symbolic byte(s) inside CRLF-dash surroundings" % (hot, vmax))
        add("wsgi/%s/hot%s/%s/%s" % (kinds or "none", hot, framing, window),
            make_wsgi(kinds, hot, framing, window, nnames, vmax, ncuts),
            "POST of parts %s through Ombott.__call__, %s; names solver-chosen from %r (any parts may share a name, whatever their "
            "kinds); %s; max_memfile_size %s" % (
                kinds or "(none)",
                "Content-Length framing" if framing == "cl" else "chunked framing (two chunks, %d cut positions near the end)"
                % ncuts, NAMES[:nnames], what,
                {"budget": "= part headers + text bytes -1..+1", "body": "= body length -1..+1",
                 "all": "every value from part headers + text bytes -1 to body length +1"}[window]),
            timeout, ["delivered"], "wsgi", {"kinds": kinds, "hot": hot, "framing": framing, "window": window})

    if not T:
        for kinds, hot, framing, window in [
                ("", None, "cl", "body"), ("", None, "chunked", "body"),
                ("T", 0, "cl", "budget"), ("T", 0, "chunked", "body"), ("F", 0, "cl", "body"), ("F", 0, "chunked", "budget"),
                ("TT", 1, "cl", "budget"), ("FF", 0, "chunked", "body"), ("TF", 1, "cl", "body"),
                ("FT", 1, "chunked", "budget"), ("TFT", 2, "cl", "budget"),
                ("TTT", None, "cl", "body"), ("FFF", None, "chunked", "body"),
                ("TF", None, "cl", "all"), ("FT", None, "chunked", "all")]:
            wsgi(kinds, hot, framing, window, 2, 2 if len(kinds) == 1 else 1, 2, 250)
    else:
        for kinds, hot in [("", None), ("T", 0), ("F", 0)]:
            for framing in ("cl", "chunked"):
                for window in ("budget", "body"):
                    if kinds or window == "body":
                        wsgi(kinds, hot, framing, window, 3, 2, 3, 1100)
        for kinds in ("TT", "FF", "TF", "FT"):
            for hot in (0, 1):
                wsgi(kinds, hot, "cl", "budget", 3, 1, 3, 600)
                wsgi(kinds, hot, "chunked", "body", 3, 1, 3, 900)
        for kinds, hot in [("TFT", 2), ("FTF", 1), ("TTF", 0), ("FFT", 1), ("TTT", 1), ("FFF", 2)]:
            wsgi(kinds, hot, "cl", "budget", 2, 1, 3, 600)
            wsgi(kinds, hot, "chunked", "body", 2, 1, 3, 900)
        for kinds, framing in [("T", "cl"), ("TF", "cl"), ("FT", "chunked"), ("TFT", "chunked"), ("FF", "cl")]:
            wsgi(kinds, None, framing, "all", 2, 0, 2, 600)
    out.append(Q("optional-headers/two-forms", make_optional_headers(),
                 "two 4-part forms posted one after the other; which of the three uploads carry a Content-Type header is a "
                 "solver choice (the second form has the complementary choice; Content-Length or chunked)",
                 timeout=300, expect_cover=["delivered"], family="optional-headers"))
    for framing in ("chunked", "cl", "short", "short-small"):
        fn, n = make_framing(framing)
        out.append(Q("framing/%s" % framing, fn,
                     "fixed 4-part form (repeated names, upload with delimiter look-alikes) of %d bytes, %s" % (n, "two chunks cut at every offset 0..len" if framing == "chunked" else
                                                            "Content-Length framing with every max_memfile_size from the in-memory budget to len+1" if framing == "cl" else
                                                            "Content-Length framing, the server's first read() returns only v bytes, every v in 1..len; max_memfile_size %s"
                                                            % ("len+1" if framing == "short" else "in-memory budget + 3")),
                     timeout=600, expect_cover=["delivered"], family="framing"))
    return out


def selftest(tier):
    """stub fidelity (PyPattern against re) + native regression inputs of each family"""
    stubs_c07.validate()
    zero = {"i1": 1, "i2": 0, "i3": 0, "v": "", "d": b"", "dt": 0, "cut": 0}
    cases = {
        "header/name/": {"name": "=\\", "fname": ""},
        "header/file/": {"name": " é", "fname": "= "},
        "header/ctype": {"sub": "X-", "with_param": True},
        "read/b/name/": {"s": "é"}, "read/b/filename/": {"s": "\\"}, "read/b/value/": {"s": "\u20ac"},
        "data/b/tail": {"d": b"-\r", "pad": 2}, "data/--/tail": {"d": b"--", "pad": 0},
        "proxy/loop/pad3": {"k": 4}, "proxy/seek/pad3": {"start": 2, "pos": -1, "whence": 2, "sz": 5},
        "wsgi/T/hot0/cl/budget": dict(zero, v="\u00fc"), "wsgi/F/hot0/chunked/budget": dict(zero, d=b"-", cut=2),
        "wsgi/TFT/hot2/cl/budget": dict(zero, i3=1, v="x"),
    }
    return [(q.qid, args, "ok") for q in queries(tier) for prefix, args in cases.items() if q.qid.startswith(prefix)]
