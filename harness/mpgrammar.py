"""multipart/form-data: encoder, prefix recogniser of the well-formed grammar, corpus.
Shared by C06 / C07 / C12.  Nothing here uses ombott.

well-formed body :=  "--" B  ( CRLF headers CRLF CRLF data CRLF "--" B )*  "--" epilogue
headers          :=  line ( CRLF line )*        line := 1+ bytes other than CR, LF
data             :=  bytes not containing CRLF "--" B
"""
CRLF = b"\r\n"


def encode(boundary: bytes, parts, epilogue: bytes = CRLF) -> bytes:
    """parts: list of (list of header lines (bytes), data bytes)"""
    out = b"--" + boundary
    for headers, data in parts:
        out += CRLF + CRLF.join(headers) + CRLF + CRLF + data + CRLF + b"--" + boundary
    return out + b"--" + epilogue


def expected_sections(boundary: bytes, parts):
    """[(headers_start, headers_end, data_start, data_end)] absolute offsets in encode(boundary, parts, ...)"""
    pos = 2 + len(boundary)
    out = []
    for headers, data in parts:
        hb = CRLF.join(headers)
        hs = pos + 2
        he = hs + len(hb)
        ds = he + 4
        de = ds + len(data)
        out.append((hs, he, ds, de))
        pos = de + 2 + 2 + len(boundary)
    return out


class Recogniser:
    """Byte-at-a-time recogniser: after feeding a byte string, `alive` tells whether it is a prefix of a
    well-formed body.  Works on symbolic bytes (only ==/!= comparisons on byte values)."""

    def __init__(self, boundary: bytes):
        self.sb = b"--" + boundary
        self.tok = CRLF + self.sb
        # KMP failure table of tok
        f = [0] * len(self.tok)
        k = 0
        for i in range(1, len(self.tok)):
            while k and self.tok[i] != self.tok[k]:
                k = f[k - 1]
            if self.tok[i] == self.tok[k]:
                k += 1
            f[i] = k
        self.fail = f
        self.state = ("S", 0)
        self.alive = True

    def feed(self, data) -> bool:
        for b in data:
            if not self.alive:
                return False
            self._step(b)
        return self.alive

    def _step(self, b):
        st, k = self.state
        if st == "S":                       # start boundary, k bytes matched
            if b != self.sb[k]:
                self.alive = False
            elif k + 1 == len(self.sb):
                self.state = ("D", 0)
            else:
                self.state = ("S", k + 1)
        elif st == "D":                     # just after a delimiter
            if b == 13:
                self.state = ("DCR", 0)
            elif b == 45:
                self.state = ("DH", 0)
            else:
                self.alive = False
        elif st == "DCR":
            if b == 10:
                self.state = ("H0", 0)
            else:
                self.alive = False
        elif st == "DH":
            if b == 45:
                self.state = ("EPI", 0)
            else:
                self.alive = False
        elif st == "EPI":
            pass
        elif st == "H0":                    # first header line must have a character
            if b == 13 or b == 10:
                self.alive = False
            else:
                self.state = ("HL", 0)
        elif st == "HL":
            if b == 13:
                self.state = ("HCR", 0)
            elif b == 10:
                self.alive = False
        elif st == "HCR":
            if b == 10:
                self.state = ("HN", 0)
            else:
                self.alive = False
        elif st == "HN":                    # start of a further line, or blank line
            if b == 13:
                self.state = ("HECR", 0)
            elif b == 10:
                self.alive = False
            else:
                self.state = ("HL", 0)
        elif st == "HECR":
            if b == 10:
                self.state = ("DATA", 0)
            else:
                self.alive = False
        elif st == "DATA":                  # k = matched prefix length of tok
            while k and b != self.tok[k]:
                k = self.fail[k - 1]
            if b == self.tok[k]:
                k += 1
            if k == len(self.tok):
                self.state = ("D", 0)
            else:
                self.state = ("DATA", k)


def is_wf_prefix(boundary: bytes, data) -> bool:
    r = Recogniser(boundary)
    return r.feed(data)


def H(name, filename=None, ctype=None):
    cd = b'Content-Disposition: form-data; name="' + name + b'"'
    if filename is not None:
        cd += b'; filename="' + filename + b'"'
    hs = [cd]
    if ctype:
        hs.append(b"Content-Type: " + ctype)
    return hs


# corpus: (tag, boundary, parts, epilogue)
CORPUS = [
    ("one", b"b", [([b"A: 1"], b"x")], CRLF),
    ("two", b"b", [([b"A: 1"], b"x"), ([b"B: 2", b"C: 3"], b"")], CRLF),
    ("zero", b"b", [], CRLF),
    ("noepi", b"b", [([b"A: 1"], b"x")], b""),
    ("epi", b"b", [([b"A: 1"], b"y")], b"\r\nepi\r\n--b\r\n"),
    # an epilogue that looks like a part: a header line, an empty line, text (ignored by the grammar; since seed C06-j)
    ("epi-blank", b"b", [([b"A: 1"], b"y")], b"\r\nE: 1\r\n\r\nzz\r\n"),
    ("crlf-data", b"b", [([b"A: 1"], b"\r\r\n-\r\n--\r\n-b\r\n--\r"), ([b"A: 1"], b"\r\n")], CRLF),
    ("hyph-bound", b"b-b", [([b"A: 1"], b"\r\n--b-\r\n--b"), ([b"Z:"], b"--b-b")], CRLF),
    ("dash-bound", b"--", [([b"A: 1"], b"-\r\n---"), ([b"A: 1"], b"\r\n--")], CRLF),
    ("long", b"bnd", [(H(b"f"), b"v"), (H(b"u", b"a.txt", b"text/plain"), b"line1\r\nline2\r\n--bn\r\n-")], CRLF),
]


def corpus_body(tag):
    for t, b, parts, epi in CORPUS:
        if t == tag:
            return b, parts, epi, encode(b, parts, epi)
    raise KeyError(tag)


def selfcheck():
    for t, b, parts, epi in CORPUS:
        body = encode(b, parts, epi)
        for _, data in parts:
            assert (CRLF + b"--" + b) not in data, t
        for i in range(len(body) + 1):
            assert is_wf_prefix(b, body[:i]), (t, i)
        # some non-prefixes
        assert not is_wf_prefix(b, b"x" + body)
        assert not is_wf_prefix(b, b"--" + b + b"\r\n\r\n")
        assert not is_wf_prefix(b, b"--" + b + b"\r\nA\rB")
        assert not is_wf_prefix(b, b"--" + b + b"X")
        secs = expected_sections(b, parts)
        for (hs, he, ds, de), (headers, data) in zip(secs, parts):
            assert body[hs:he] == CRLF.join(headers) and body[ds:de] == data, t
    return True
