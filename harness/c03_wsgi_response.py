"""C03 - every request gets exactly one well-formed WSGI response."""
import re

from vf.engine import assume, cover
from vf.query import Q
from vf import srcscan

import ombott
from ombott import HTTPResponse, HTTPError

PROPERTY = "C03"
TECHNIQUE = ("bounded symbolic execution of Ombott.__call__ (wsgi/_handle/_cast/handler/emit, BaseResponse) with CrossHair+z3 "
             "over symbolic request method, body text, status code (source-derived set), hook failure and empty-item counts; "
             "handler programs enumerated from a DSL; oracle = independent PEP 3333 validator + hook-order specification")
LEVEL_TEXT = ("For each handler shape of the DSL (returned/raised/yielded values, generators, file-likes, nested responses, "
              "failures, custom error handler, 404/405) the complete request is executed symbolically: method, body text "
              "(every string up to 2 code points), number of leading empty items, which before-hook fails and the status "
              "code (any element of a set re-derived from the source's own status literals +-1) are solver variables. z3 "
              "decides each branch; on every path an independent validator checks: one start_response, status line, header "
              "list, bytes-only iterable, framework Content-Length == bytes returned, empty body for HEAD/1xx/204/304, "
              "close() exactly once for producing iterables, hook log == specification.")
LEVEL_NOTE = ("Trusted: z3, CrossHair str/bytes/int models, the validator in this file. The status code is a solver variable "
              "over a finite source-derived set (enumerated through the solver, no more is claimed). Handler programs outside "
              "the DSL, failing after-request hooks, exceptions after the first body chunk and in close() are outside.")
FUNCTIONS = [
    "ombott.ombott:Ombott.wsgi", "ombott.ombott:Ombott._handle", "ombott.ombott:Ombott._cast", "ombott.ombott:Ombott.handler",
    "ombott.ombott:Ombott.emit", "ombott.ombott:Ombott.add_hook", "ombott.ombott:Ombott.default_error_handler",
    "ombott.ombott:_closeiter", "ombott.response:BaseResponse.__init__", "ombott.response:BaseResponse.headerlist",
    "ombott.response:HTTPResponse.apply", "ombott.response:HTTPError.__init__", "ombott.common_helpers:WSGIFileWrapper",
    "ombott.error_render:render",
]
STUBS = []
ASSUMPTIONS = ["the driver plays a PEP 3333 server: call the app, iterate the result to the end, then call close() if present"]
OUTSIDE = ["handler programs outside the DSL of this file", "status codes outside the source-derived set",
           "body text longer than 2 code points", "failing after_request hooks / failing close()",
           "exceptions raised after the first body chunk was produced"]
BUDGET_S = {"quick": 280, "thorough": 1150}

STATUSES = srcscan.status_set()
METHODS = ["GET", "HEAD", "POST"]
_status_re = re.compile(r"^[0-9]{3} [^\x00-\x1f\x7f]+$")
_token_re = re.compile(r"^[!#$%&'*+\-.^_`|~0-9A-Za-z]+$")

# warm module caches (error template)
ombott.error_render.render(HTTPError(500, "x"), "http://h/", False)


class Closable:
    """iterator with a close counter (stands for a generator / file-like handler result)"""

    def __init__(self, items, log, fail_first=False):
        self.items = list(items)
        self.log = log
        self.fail_first = fail_first
        self.i = 0

    def __iter__(self):
        return self

    def __next__(self):
        if self.fail_first and self.i == 0:
            raise RuntimeError("first next() fails")
        if self.i >= len(self.items):
            raise StopIteration
        v = self.items[self.i]
        self.i += 1
        return v

    def close(self):
        self.log.append("close")
        if getattr(self, "close_fails", False):
            raise OSError("release failed")


class PlainIter:
    """iterable without close()"""

    def __init__(self, items):
        self.items = list(items)

    def __iter__(self):
        return iter(self.items)


class FileLike:
    def __init__(self, chunks, log):
        self.chunks = list(chunks)
        self.log = log

    def read(self, n=-1):
        return self.chunks.pop(0) if self.chunks else b""

    def close(self):
        self.log.append("close")


class FileWrapper:
    """server-provided wsgi.file_wrapper"""

    def __init__(self, fp, blk=8192):
        self.fp = fp

    def __iter__(self):
        while True:
            d = self.fp.read(8192)
            if not d:
                return
            yield d

    def close(self):
        self.fp.close()


SHAPES = ["str", "bytes", "empty", "list_str", "list_bytes", "gen_str", "gen_bytes", "plainiter", "file", "file_wrapper",
          "ret_response", "raise_response", "ret_error", "raise_error", "yield_response", "nested", "raise_exc",
          "gen_fail", "custom_500", "status_attr", "no_route", "wrong_method", "unsupported", "abort", "gen_raise_response",
          "shared_error", "shared_response", "hook_self_remove", "close_raises", "headers_then_raise", "headers_then_abort",
          "headers_then_genfail"]


def build(app, shape, ctx):
    """register the handler program for `shape`; ctx: body, k (leading empties), status, log"""
    body, k, s, log = ctx["body"], ctx["k"], ctx["status"], ctx["log"]
    bb = body.encode("utf8", "surrogatepass")
    meths = ["GET", "HEAD", "POST"]
    iterable = [None]      # the handler iterable whose close() calls are counted

    def reg(fn, methods=meths):
        def h():
            log.append("handler")
            return fn()
        app.route("/p", method=methods, callback=h)

    if shape == "str":
        reg(lambda: body)
    elif shape == "bytes":
        reg(lambda: bb)
    elif shape == "empty":
        reg(lambda: ["", None, b"", [], 0, False][k % 6])
    elif shape == "list_str":
        reg(lambda: [""] * k + [body, "y"])
    elif shape == "list_bytes":
        reg(lambda: [b""] * k + [bb, b"y"])
    elif shape == "gen_str":
        def f():
            iterable[0] = Closable([""] * k + [body, "y"], log)
            return iterable[0]
        reg(f)
    elif shape == "gen_bytes":
        def f():
            iterable[0] = Closable([b""] * k + [bb, b"y"], log)
            return iterable[0]
        reg(f)
    elif shape == "plainiter":
        reg(lambda: PlainIter([""] * k + [body]))
    elif shape == "file":
        def f():
            iterable[0] = FileLike([bb + b"f", b"g"], log)
            return iterable[0]
        reg(f)
    elif shape == "file_wrapper":
        def f():
            iterable[0] = FileLike([bb + b"f", b"g"], log)
            return iterable[0]
        reg(f)
        ctx["env"]["wsgi.file_wrapper"] = FileWrapper
    elif shape == "ret_response":
        reg(lambda: HTTPResponse(body, s, X_Test="1"))
    elif shape == "raise_response":
        def f():
            raise HTTPResponse(body, s)
        reg(f)
    elif shape == "ret_error":
        reg(lambda: HTTPError(s, body))
    elif shape == "raise_error":
        def f():
            raise HTTPError(s, body)
        reg(f)
    elif shape == "abort":
        def f():
            ombott.abort(s, body)
        reg(f)
    elif shape == "hook_self_remove":
        reg(lambda: body)
    elif shape == "shared_error":
        denied = HTTPError(s, "denied")        # one object, raised for every request (like the errors_map entries)

        def f():
            raise denied
        reg(f)
    elif shape == "shared_response":
        page = HTTPResponse("page:" + body, s, X_Page="1")

        def f():
            return page
        reg(f)
    elif shape == "yield_response":
        def f():
            return Closable([""] * k + [HTTPResponse(body, s), "never"], [])
        reg(f)
    elif shape == "gen_raise_response":
        def f():
            def g():
                raise HTTPResponse(body, s)
                yield "x"
            return g()
        reg(f)
    elif shape == "nested":
        reg(lambda: HTTPResponse(HTTPResponse([bb, b"z"], 200), s))
    elif shape == "raise_exc":
        def f():
            raise ValueError("boom")
        reg(f)
    elif shape == "gen_fail":
        def f():
            iterable[0] = None
            return Closable(["x"], log, fail_first=True)
        reg(f)
    elif shape == "close_raises":
        # the handler's iterable produced output and its close() fails (a cursor / lock / file whose release fails);
        # with a status that carries no body (or HEAD) the framework itself closes it
        def f():
            app.response.status = s
            iterable[0] = Closable([""] * k + [body or "x", "y"], log)
            iterable[0].close_fails = True
            return iterable[0]
        reg(f)
    elif shape in ("headers_then_raise", "headers_then_abort", "headers_then_genfail"):
        # the handler prepares its response (length, range, type of the payload it meant to send) and then fails: raises,
        # aborts, or returns a generator that fails at its first next()
        def f():
            app.response.status = 206
            app.response.headers["Content-Length"] = "12"
            app.response.headers["Content-Range"] = "bytes 2-13/30"
            app.response.content_type = "application/x-payload"
            if shape == "headers_then_raise":
                raise ValueError("boom")
            if shape == "headers_then_abort":
                ombott.abort(s, body)
            iterable[0] = None
            return Closable(["x"], log, fail_first=True)
        reg(f)
    elif shape == "custom_500":
        app.error(500)(lambda e: "custom:" + body)

        def f():
            raise KeyError("boom")
        reg(f)
    elif shape == "status_attr":
        def f():
            app.response.status = s
            app.response.headers["X-A"] = "1"
            return body
        reg(f)
    elif shape == "no_route":
        app.route("/other", callback=lambda: "o")
    elif shape == "wrong_method":
        reg(lambda: body, methods=["PUT"])
    elif shape == "unsupported":
        reg(lambda: [12, body][: 1 + k % 2] if k % 3 else 12)
    else:
        raise ValueError(shape)
    return iterable


def validate(calls, result_iter, chunks, iter_exc, method, log, iterable, fail, shape):
    if iter_exc is not None:
        return "exception escaped to the server: %r" % (iter_exc,)
    if len(calls) != 1:
        return "start_response called %d times" % len(calls)
    status, headers, exc_info = calls[0]
    if type(status) is not str or not _status_re.match(status):
        return "malformed status line %r" % (status,)
    code = int(status[:3])
    if type(headers) is not list:
        return "header list is %r" % (type(headers),)
    clen = None
    for item in headers:
        if type(item) is not tuple or len(item) != 2:
            return "header entry %r" % (item,)
        n, v = item
        if type(n) is not str or type(v) is not str or not _token_re.match(n):
            return "header %r: %r is not (token str, str)" % (n, v)
        for ch in v:
            o = ord(ch)
            if o > 255 or o in (0, 10, 13):
                return "header value %r is not wire-safe" % (v,)
        if n.lower() == "content-length":
            if clen is not None:
                return "two Content-Length headers"
            clen = v
    total = 0
    for c in chunks:
        if type(c) is not bytes:
            return "body item %r is not bytes" % (c,)
        total += len(c)
    nobody = method == "HEAD" or 100 <= code < 200 or code in (204, 304)
    if nobody:
        cover("no-body-class")
        if total:
            return "%s response to %s carries %d body bytes" % (status, method, total)
    elif clen is not None:
        if not clen.isdigit() or int(clen) != total:
            return "Content-Length %r but %d bytes returned (status %s)" % (clen, total, status)
        cover("content-length-checked")
    # hooks
    want = ["b1"] if fail == 1 else ["b1", "b2"]
    routed = fail == 0 and shape != "no_route" and shape != "wrong_method"
    got_hooks = [x for x in log if x in ("b1", "b2", "a1", "a2", "handler")]
    exp = want + (["handler"] if routed else []) + ["a2", "a1"]
    if got_hooks != exp:
        return "hook/handler order %r, specified %r" % (got_hooks, exp)
    # close: an iterable that produced output is closed exactly once
    if iterable[0] is not None and routed:
        n = log.count("close")
        if n != 1:
            return "handler iterable closed %d times" % n
        cover("closed-once")
    if fail or shape in ("raise_exc", "gen_fail", "headers_then_raise", "headers_then_genfail"):
        if code != 500:
            return "failure answered with %s" % status
        cover("500")
    return None


# body text of these shapes is formatted into the ~600 character HTML error page whose utf-8 encoding costs ~800 solver
# checks per path when any part of it is symbolic: the text is picked by a solver variable from a fixed list instead
ERROR_PAGE = {"ret_error", "raise_error", "abort", "shared_error", "headers_then_abort"}
ERROR_BODIES = ["", "x", "\u00e9\u20ac", "<b>{0}</b>"]


def make(shape):
    def q(mi: int, body: str, k: int, si: int, fail: int):
        assume(0 <= mi < len(METHODS))
        assume(len(body) <= 2)
        assume(0 <= k <= 2)
        assume(0 <= si < len(STATUSES))
        assume(0 <= fail <= 2)
        if shape == "hook_self_remove":
            assume(fail == 0)
        method = METHODS[mi]
        s = STATUSES[si]
        for kk in (0, 1, 2):          # make the count concrete per path ([""] * symbolic k builds a symbolic-length list)
            if k == kk:
                k = kk
                break
        app = ombott.Ombott()
        log = []
        errs = []

        class Errors:
            def write(self, t):
                errs.append(t)

        env = {"REQUEST_METHOD": method, "PATH_INFO": "/p", "wsgi.errors": Errors(), "SERVER_NAME": "h", "SERVER_PORT": "80",
               "wsgi.url_scheme": "http", "QUERY_STRING": "", "SERVER_PROTOCOL": "HTTP/1.1"}
        ctx = {"body": body, "k": k, "status": s, "log": log, "env": env}

        def hook(name, failing):
            def f():
                log.append(name)
                if failing:
                    raise RuntimeError("hook " + name)
            return f
        if shape == "hook_self_remove":
            # the "run once, then unregister yourself" idiom: every hook registered at the start of the request still runs
            # exactly once on this request
            def once(kind, name):
                def f():
                    log.append(name)
                    app.remove_hook(kind, f)
                return f
            app.add_hook("before_request", once("before_request", "b1"))
            app.add_hook("before_request", hook("b2", False))
            app.add_hook("after_request", hook("a1", False))
            app.add_hook("after_request", once("after_request", "a2"))
        else:
            style = HOOK_STYLE[0]

            def register(name, f):          # the three public spellings of hook registration
                if style == "add_hook":
                    app.add_hook(name, f)
                elif style == "on-call":
                    app.on(name, f)
                else:
                    app.on(name)(f)
            register("before_request", hook("b1", fail == 1))
            register("before_request", hook("b2", fail == 2))
            register("after_request", hook("a1", False))
            register("after_request", hook("a2", False))
        iterable = build(app, shape, ctx)
        # shapes that hand the SAME response object to the framework on every request are served twice with
        # URLs of different length (the error page shows the URL): the second response must be well-formed too
        rounds = [env] if shape not in SHARED else [env, dict(env, QUERY_STRING="pad=0123456789")]
        for n, env_n in enumerate(rounds):
            del log[:]
            calls = []

            def start_response(status, headers, exc_info=None):
                calls.append((status, headers, exc_info))
            chunks = []
            iter_exc = None
            result = None
            try:
                result = app(env_n, start_response)
                for c in result:
                    chunks.append(c)
                close = getattr(result, "close", None)
                if close is not None:
                    try:
                        close()
                    except OSError:
                        if shape != "close_raises":      # (there the server's own close() call fails: the server's business)
                            raise
            except Exception as e:
                iter_exc = e
            r = validate(calls, result, chunks, iter_exc, method, log, iterable, fail, shape)
            if r:
                return r if not n else "request #2 on the same application: " + r
        return None
    return q


HOOK_STYLE = ["add_hook"]


def with_hook_style(style, fn):
    def q(*a, **kw):
        HOOK_STYLE[0] = style
        try:
            return fn(*a, **kw)
        finally:
            HOOK_STYLE[0] = "add_hook"
    import inspect
    q.__signature__ = inspect.signature(fn)
    q.__annotations__ = dict(getattr(fn, "__annotations__", {}))
    return q


SHARED = {"shared_error", "shared_response"}
USES_STATUS = {"close_raises", "headers_then_abort", "shared_error", "shared_response", "ret_response", "raise_response", "ret_error", "raise_error", "yield_response", "nested", "status_attr", "abort",
               "gen_raise_response"}


def make_fixed_status(shape):
    """shapes that ignore the status: pin it so it does not multiply paths"""
    inner = make(shape)

    def q(mi: int, body: str, k: int, fail: int):
        return inner(mi, body, k, STATUSES.index(200), fail)
    return q


def make_error_page(shape):
    inner = make(shape)

    def q(mi: int, bi: int, si: int, fail: int):
        assume(0 <= bi < len(ERROR_BODIES))
        return inner(mi, ERROR_BODIES[bi], 0, si, fail)
    return q


def make_status_quick(shape):
    """quick tier of the status-using shapes: no failing hook (covered by the other shapes), body <= 1, k <= 1"""
    inner = make(shape)

    def q(mi: int, body: str, k: int, si: int):
        assume(len(body) <= 1 and 0 <= k <= 1)
        return inner(mi, body, k, si, 0)
    return q


# ---------------------------------------------------------------- large bodies: the length is the solver variable
class SizedBytes(bytes):
    """a body whose content is never looked at, only its length (a solver integer)"""
    def __new__(cls, n):
        o = super().__new__(cls)
        o.n = n
        return o

    def __len__(self):
        return self.n

    def __bool__(self):
        return True


class SizedText(str):
    """ASCII text of n characters: its encoding has n bytes"""
    def __new__(cls, n):
        o = super().__new__(cls)
        o.n = n
        return o

    def __len__(self):
        return self.n

    def __bool__(self):
        return True

    def encode(self, *a, **kw):
        return SizedBytes(self.n)


SIZE_KINDS = ["bytes", "str", "response", "raise_response", "custom_error"]
SIZE_CLASSES = [(1, 10), (10, 100), (100, 1000), (1000, 10 ** 4), (10 ** 4, 10 ** 5), (10 ** 5, 10 ** 6), (10 ** 6, 10 ** 7),
                (10 ** 7, 10 ** 9), (10 ** 9, 2 ** 31), (2 ** 31, 2 ** 32), (2 ** 32, 2 ** 53), (2 ** 53, 2 ** 63 - 1)]


def make_size(kind, lo, hi):
    """the framework's Content-Length for a body of n bytes, lo <= n < hi, is the decimal numeral of n"""
    def q(n: int, mi: int):
        assume(lo <= n < hi)
        assume(0 <= mi < len(METHODS))
        method = METHODS[mi]
        app = ombott.Ombott()

        def h():
            if kind == "bytes":
                return SizedBytes(n)
            if kind == "str":
                return SizedText(n)
            if kind == "response":
                return ombott.HTTPResponse(SizedBytes(n), 201)
            if kind == "raise_response":
                raise ombott.HTTPResponse(SizedText(n), 202)
            return ombott.HTTPError(418, "x")
        app.route("/p", method=METHODS, callback=h)
        app.error_handlers[418] = lambda e: SizedBytes(n)
        env = {"REQUEST_METHOD": method, "PATH_INFO": "/p", "wsgi.errors": None, "SERVER_NAME": "h", "SERVER_PORT": "80",
               "wsgi.url_scheme": "http", "QUERY_STRING": "", "SERVER_PROTOCOL": "HTTP/1.1"}
        calls = []
        result = app(env, lambda st, hd, ei=None: calls.append((st, hd)))
        total = 0
        for c in result:
            if not isinstance(c, bytes):
                return "body item %r is not bytes" % (c,)
            total += len(c)
        if len(calls) != 1:
            return "start_response called %d times" % len(calls)
        cl = [v for k, v in calls[0][1] if k.lower() == "content-length"]
        if len(cl) != 1 or type(cl[0]) is not str:
            return "Content-Length headers of a %d byte body: %r" % (n, cl)
        if method == "HEAD":
            if total:
                return "HEAD response carries %d bytes" % total
            if cl[0] != str(n):
                return "Content-Length %r for HEAD, the GET response has %d bytes" % (cl[0], n)
            cover("head")
            return None
        if total != n:
            return "%d bytes returned for a body of %d bytes" % (total, n)
        if cl[0] != str(n):
            return "Content-Length %r but %d bytes returned" % (cl[0], total)
        cover("content-length-checked")
        return None
    return q


def queries(tier):
    T = tier == "thorough"
    out = []
    for kind in (SIZE_KINDS if T else ["bytes", "raise_response"]):
        for lo, hi in SIZE_CLASSES:
            out.append(Q("size/%s/%d-%d" % (kind, lo, hi), make_size(kind, lo, hi),
                         "handler result kind %r with a body of n bytes, every n with %d <= n < %d (content opaque: only the "
                         "length is used), method in %r" % (kind, lo, hi, METHODS), timeout=100, family="size",
                         expect_cover=["content-length-checked", "head"], config={"kind": kind}))
    for shape in SHAPES:
        if shape in USES_STATUS and shape not in ERROR_PAGE and (not T or shape in SHARED):     # (shared_*: two requests per path)
            fn = make_status_quick(shape)
            bound = "status in %r (source-derived); body <= 1 code point, <= 1 leading empty item, no failing hook" % (STATUSES,)
        elif shape in ERROR_PAGE:
            fn = make_error_page(shape)
            bound = "status in %r (source-derived); body text one of %r" % (STATUSES, ERROR_BODIES)
        elif shape in USES_STATUS:
            fn = make(shape)
            bound = "status in %r (source-derived)" % (STATUSES,)
        else:
            fn = make_fixed_status(shape)
            bound = "status fixed by the shape"
        out.append(Q("shape/%s" % shape, fn,
                     "handler shape %r; method in %r, body text <= 2 code points (any; error-page shapes: from a fixed list), 0..2 leading empty items, failing "
                     "before-hook none/1st/2nd; %s" % (shape, METHODS, bound),
                     timeout=250 if not T else 800, per_path_timeout=60, family="shape", config={"shape": shape}))
    # hooks registered through the other public spellings (app.on as a call / as a decorator)
    for style in ("on-call", "on-decorator"):
        for shape in (["str", "raise_exc"] if not T else ["str", "raise_exc", "gen_str", "raise_response", "no_route", "wrong_method"]):
            base = next(q for q in out if q.qid == "shape/" + shape)
            out.append(Q("hooks-%s/%s" % (style, shape), with_hook_style(style, base.fn), base.bound + "; hooks registered through "
                         + ("app.on(name, f)" if style == "on-call" else "@app.on(name)"), timeout=base.timeout,
                         per_path_timeout=base.per_path_timeout, family="hook-style", config={"shape": shape, "style": style}))
    # the configuration dimension: the same effective settings reached through app.setup / two setup calls
    from vf import appconfigs
    out += appconfigs.variants(list(out), ["setup", "setup-twice"], lambda q: q.qid in ("shape/raise_exc", "shape/ret_error", "shape/wrong_method", "shape/custom_500", "shape/file"))
    return out


def selftest(tier):
    return [
        ("shape/str", dict(mi=0, body="hi", k=0, fail=0), "ok"),
        ("shape/gen_str", dict(mi=1, body="hi", k=1, fail=0), "ok"),
        ("shape/raise_exc", dict(mi=0, body="", k=0, fail=0), "ok"),
    ]
