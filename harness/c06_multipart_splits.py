"""C06 - multipart parsing is independent of how the body is split into reads."""
from vf.engine import assume, cover
from vf.query import Q
from vf import stubs
from harness import mpgrammar as G

from ombott.request_pkg.multipart import MultipartMarkup
from ombott.request_pkg import body_mixin

PROPERTY = "C06"
TECHNIQUE = ("bounded symbolic execution of MultipartMarkup.parse / BodyMarkuper / HeadersEaeter (CrossHair+z3): symbolic "
             "tail bytes, hole bytes and cut positions; oracle = the same parser fed the same bytes in one piece; inputs "
             "restricted to prefixes of well-formed bodies by a grammar recogniser")
LEVEL_TEXT = ("Two query families on the real streaming parser. (1) every prefix P of corpus bodies (quick: one per distinct "
              "parser state) followed by a fully symbolic tail c (all 256 values per byte, |c| <= 2/3) such that P+c is still "
              "a prefix of a well-formed body: parse([P, c[:k], c[k:]]) == parse([P+c]) for every symbolic k. (2) whole "
              "well-formed bodies with 1-2 symbolic data bytes, symbolic prefix length and one or two symbolic cut "
              "positions. z3 decides every branch of the parser and of the recogniser: inside the bound the section list "
              "with absolute ranges and the error class never depend on the division into chunks.")
LEVEL_NOTE = ("Trusted: z3, CrossHair bytes/regex/dict models (+Match.start correction), the prefix recogniser in "
              "harness/mpgrammar.py (self-checked on the corpus). Cut positions and prefix lengths are solver variables but "
              "are realised value by value (enumeration through the solver); byte values are decided by classes. Malformed "
              "bodies are outside this statement (C12).")
FUNCTIONS = [
    "ombott.request_pkg.multipart:MultipartMarkup.parse",
    "ombott.request_pkg.multipart:BodyMarkuper.iter_markup",
    "ombott.request_pkg.multipart:BodyMarkuper._eat_start_boundary",
    "ombott.request_pkg.multipart:BodyMarkuper._eat_data",
    "ombott.request_pkg.multipart:MatchTail.match_tail",
    "ombott.request_pkg.multipart:HeadersEaeter.eat",
    "ombott.request_pkg.multipart:HeadersEaeter._eat_first_crlf_or_last_hyphens",
    "ombott.request_pkg.multipart:HeadersEaeter._eat_last_hyphen",
    "ombott.request_pkg.multipart:HeadersEaeter._eat_lf",
    "ombott.request_pkg.multipart:HeadersEaeter._eat_headers",
    "ombott.request_pkg.body_mixin:_body_read",
]
STUBS = ["PyBytesIO for io.BytesIO/TemporaryFile inside body_mixin (family body_read only)"]
ASSUMPTIONS = ["well-formed = grammar of harness/mpgrammar.py: no preamble, at least one header line per part, header lines "
               "without bare CR/LF, data free of CRLF--boundary, free epilogue"]
OUTSIDE = ["bodies / boundaries outside the corpus", "symbolic tails longer than the stated length", "more than two cuts "
           "except the regular buffer-size cuts of the body_read family", "divisions of malformed bodies"]
BUDGET_S = {"quick": 280, "thorough": 1150}

stubs.install_body_io()
G.selfcheck()


def parse(boundary, chunks):
    m = MultipartMarkup(boundary)
    for c in chunks:
        m.parse(c)
    return [(n, tuple(r)) for n, r in m.markups], (type(m.error).__name__ if m.error is not None else None)


def state_sig(boundary, prefix):
    m = MultipartMarkup(boundary)
    m.parse(prefix)
    mk = m._markuper
    he = mk.headers_eater
    return (getattr(mk.cur_meth, "__name__", "?"), mk.trest, getattr(he.eat_meth, "__name__", "?"),
            he.headers_end_expected, he.stopped, mk.stopped, type(m.error).__name__)


def distinct_state_prefixes(tag):
    boundary, parts, epi, body = G.corpus_body(tag)
    seen = {}
    for L in range(len(body) + 1):
        s = state_sig(boundary, body[:L])
        if s not in seen:
            seen[s] = L
    return sorted(seen.values())


def make_tail(tag, L, n):
    boundary, parts, epi, body = G.corpus_body(tag)
    P = body[:L]
    base_sections = len(parse(boundary, [P])[0])

    def q(c: bytes):
        assume(1 <= len(c) <= n)
        assume(G.is_wf_prefix(boundary, P + c))
        whole = parse(boundary, [P + c])
        for k in range(len(c)):             # k = 0: cut only between P and c; k > 0: second cut inside the tail
            chunks = [P, c[:k], c[k:]] if k else [P, c]
            split = parse(boundary, chunks)
            if split != whole:
                return "boundary %r: chunks %r -> %r, one piece -> %r" % (boundary, chunks, split, whole)
        cover("ok")
        if len(whole[0]) != base_sections:
            cover("section-closed-by-tail")
        return None
    return q


def make_holes(tag, holes, two_cuts):
    """whole body, data bytes at `holes` symbolic (kept well-formed), symbolic prefix length; every cut (pair)"""
    boundary, parts, epi, body = G.corpus_body(tag)
    n = len(body)

    def q(h1: int, h2: int, L: int):
        assume(0 <= h1 <= 255 and 0 <= h2 <= 255)
        if len(holes) < 2:
            assume(h2 == 0)
        assume(0 <= L <= n)
        buf = body
        for pos, v in zip(holes, (h1, h2)):
            buf = buf[:pos] + bytes([v]) + buf[pos + 1:]
        LL = int(L)
        buf = buf[:LL]
        assume(G.is_wf_prefix(boundary, buf))
        whole = parse(boundary, [buf])
        for i in range(LL + 1):
            for j in (range(i, LL + 1) if two_cuts else [i]):
                chunks = [c for c in (buf[:i], buf[i:j], buf[j:]) if len(c)]
                split = parse(boundary, chunks)
                if split != whole:
                    return "boundary %r: chunks %r -> %r, one piece -> %r" % (boundary, chunks, split, whole)
        cover("ok")
        return None
    return q


def make_body_read(tag, vary):
    """through _body_read: regular buffer-size cuts while the body is being buffered.
    vary='buffer': every buffer size, whole body; vary='length': every Content-Length (prefix), buffer 3"""
    boundary, parts, epi, body = G.corpus_body(tag)
    n = len(body)

    lens = list(range(1, n + 1))

    def q(v: int):
        frags = []
        if vary == "buffer":
            assume(1 <= v <= n + 1)
            b, cl = int(v), n
        elif vary.startswith("short"):
            # the server's read() returns fewer bytes than asked for, once, after v bytes (every v); afterwards full reads
            assume(0 <= v < n)
            b, cl, frags = (n + 1 if vary == "short" else 7), n, [lens[v]]
        elif vary.startswith("eof"):
            # the connection ends after v bytes although Content-Length announces the whole body (since seed C06-k): the
            # result is the one of the delivered prefix parsed in one piece
            assume(0 <= v <= n)
            b, cl, avail, frags = (7 if vary == "eof7" else n + 1), n, int(v), ([3] if vary == "eof7" else [])
        else:
            assume(0 <= v <= n)
            b, cl = 3, int(v)
        if vary.startswith("eof"):
            s = stubs.SymStream(avail, frags, data=body[:avail])
            m = MultipartMarkup(boundary)
            try:
                body_mixin._body_read(s.read, b, content_length=cl, markup=m)
            except Exception as e:      # a body shorter than announced may be refused as a whole: then there is no parse result
                if type(e).__name__ in ("BodyParsingError", "UnexpectedBodyEndError", "RequestError", "BodySizeError"):
                    cover("ok")
                    return None
                raise
            got = [(x, tuple(r)) for x, r in m.markups], (type(m.error).__name__ if m.error is not None else None)
            whole = parse(boundary, [body[:avail]] if avail else [])
            if got != whole:
                return "buffer %r, Content-Length %r, stream ends after %r bytes: %r, the delivered bytes in one piece %r" % (
                    b, cl, avail, got, whole)
            cover("ok")
            return None
        s = stubs.SymStream(n, frags, data=body)
        m = MultipartMarkup(boundary)
        body_mixin._body_read(s.read, b, content_length=cl, markup=m)
        got = [(x, tuple(r)) for x, r in m.markups], (type(m.error).__name__ if m.error is not None else None)
        whole = parse(boundary, [body[:cl]] if cl else [])
        if got != whole:
            return "buffer %r, Content-Length %r: %r, one piece %r" % (b, cl, got, whole)
        cover("ok")
        return None
    return q


def data_positions(tag):
    boundary, parts, epi, body = G.corpus_body(tag)
    out = []
    for (hs, he, ds, de) in G.expected_sections(boundary, parts):
        out += list(range(ds, de))
    return out


def queries(tier):
    T = tier == "thorough"
    out = []
    tags = ["one", "two", "zero", "epi", "crlf-data", "hyph-bound", "dash-bound"] if not T else [t for t, *_ in G.CORPUS]
    for tag in tags:
        boundary, parts, epi, body = G.corpus_body(tag)
        distinct = distinct_state_prefixes(tag)
        # tails of one byte: quick = one prefix per distinct parser state, thorough = every prefix
        every = T and tag in ("one", "zero", "crlf-data")     # the other bodies: one prefix per state
        for L in (list(range(len(body) + 1)) if every else distinct):
            out.append(Q("tail1/%s/p%d" % (tag, L), make_tail(tag, L, 1),
                         "corpus body %r (boundary %r), prefix of %d bytes + every 1-byte tail (all 256 values) keeping a "
                         "well-formed prefix" % (tag, boundary, L),
                         timeout=100, expect_cover=["ok"], family="tail1", config={"body": tag, "prefix": L}))
        # tails of two bytes incl. the cut inside the tail
        if T or tag in ("one", "zero"):
            for L in distinct:
                if state_sig(boundary, body[:L])[0] == "_eat_data":
                    continue        # two symbolic bytes inside a data section: > 6000 paths, not exhausted in 900 CPU s
                                    # (two symbolic data bytes with every cut are decided by the holes family)
                out.append(Q("tail2/%s/p%d" % (tag, L), make_tail(tag, L, 2),
                             "corpus body %r (boundary %r), prefix of %d bytes (one per distinct parser state) + every tail "
                             "of 1..2 bytes (all values) keeping a well-formed prefix, cut between prefix and tail and "
                             "inside the tail" % (tag, boundary, L),
                             timeout=300 if not T else 900, expect_cover=["ok"], family="tail2", config={"body": tag, "prefix": L}))
    for tag in (["one", "crlf-data", "hyph-bound"] if not T else ["one", "two", "epi", "crlf-data", "hyph-bound", "dash-bound"]):
        dp = data_positions(tag)
        hole_sets = []
        for hs in ([[dp[0]]] if not T else [[dp[0]], [dp[-1]], sorted({dp[0], dp[len(dp) // 2]})]):
            if hs not in hole_sets:
                hole_sets.append(hs)
        for hs in hole_sets:
            out.append(Q("holes/%s/h%s/cut1" % (tag, "-".join(map(str, hs))), make_holes(tag, hs, False),
                         "corpus body %r with data byte(s) at %r symbolic (all values keeping it well-formed), every prefix "
                         "length, every single cut" % (tag, hs), timeout=250 if not T else 900, expect_cover=["ok"],
                         family="holes", config={"body": tag, "holes": hs}))
    for tag in ["epi-blank", "epi"]:
        out.append(Q("cut1/%s" % tag, make_holes(tag, [], False),
                     "corpus body %r (with an epilogue), every prefix length, every single cut position" % tag,
                     timeout=250 if not T else 900, expect_cover=["ok"], family="cut1", config={"body": tag}))
    for tag in (["one"] if not T else ["one", "zero", "noepi", "epi-blank"]):
        out.append(Q("cut2/%s" % tag, make_holes(tag, [], True),
                     "corpus body %r, every prefix length, every pair of cut positions" % tag,
                     timeout=250 if not T else 900, expect_cover=["ok"], family="cut2", config={"body": tag}))
    for tag in (["two", "hyph-bound", "epi-blank"] if not T else [t for t, *_ in G.CORPUS]):
        for vary in ("buffer", "length", "short", "short7", "eof", "eof7"):
            out.append(Q("body_read/%s/%s" % (tag, vary), make_body_read(tag, vary),
                         "corpus body %r streamed through _body_read: %s" % (tag, "every buffer size 1..len+1 (whole body)"
                         if vary == "buffer" else "every Content-Length 0..len (prefixes), buffer 3" if vary == "length" else
                         "Content-Length len, the stream ends after v bytes (every v in 0..len), buffer %s" % ("len+1" if vary == "eof" else "7, first read 3 bytes")
                         if vary.startswith("eof") else
                         "the first read() returns only v bytes, every v in 1..len (short read of the server), buffer %s"
                         % ("len+1" if vary == "short" else "7")),
                         timeout=150 if not T else 600, expect_cover=["ok"], family="body_read", config={"body": tag}))
    return out


def selftest(tier):
    # the repo's own multipart test body, parsed in one piece and byte-at-a-time by the harness helper
    return []
