"""C15 - cookies round-trip; forged signed cookies are never deserialised."""
import http.cookies
import types

from vf.engine import assume, cover
from vf.query import Q
from vf import stubs_c15 as S

import ombott
import ombott.common_helpers as ch
from ombott.request_pkg import Request
from ombott.request_pkg.helpers import CookieDict
from ombott.response import Response, HTTPResponse

PROPERTY = "C15"
TECHNIQUE = ("bounded symbolic execution of set_cookie/headerlist/cookies/get_cookie/cookie_encode/cookie_decode (CrossHair+z3): "
             "tamper operators with solver-chosen positions/characters on an emitted signed cookie, HMAC as a random-oracle stub "
             "and a recording unpickler; symbolic plain values through the real http.cookies; oracle = the cookie that was set")
LEVEL_TEXT = ("A signed cookie is emitted by the real set_cookie/cookie_encode; every operator of the quantifier (substitute, "
              "insert, delete, truncate, cut/extend signature or payload, move the '?', splice with another signed cookie, read "
              "with another secret) is applied with symbolic position and symbolic Latin-1 character and the result is read back "
              "through cookie_decode, Request.get_cookie on a parsed jar and (integer-parameter operators) the full Cookie header "
              "parser; plus every cookie text up to 4 (thorough: 5) characters and every signature/payload field up to 3 (4). z3 "
              "decides every branch, so inside the bound: the unpickler is reached only for the exact emitted text (then with the emitted "
              "payload), everything else reads as the default. Round trip: plain values with a symbolic character (all code "
              "points) in enumerated contexts, pairs/triples over a class-representative alphabet, all one-character names; "
              "signed values with symbolic secrets and opaque symbolic leaves; real hmac/pickle/base64 on enumerated nested "
              "values. Bounded, modulo unforgeability of HMAC-MD5.")
LEVEL_NOTE = ("Trusted: z3, CrossHair models of str/bytes/int/re (+ the bytes `in`/split corrections in vf/stubs_c15.py, validated "
              "by the model/* queries), OracleHmac and TagPickle stubs (contracts validated against the real modules in selftest "
              "and by the real/* queries), the user-agent model (cookie-pair = Set-Cookie text before the first ';'). Tolerances: "
              "an empty plain value reads as the default (get_cookie's `value or default`, also what delete_cookie writes); "
              "set_cookie may refuse a name (CookieError); strings with lone surrogates are not text. Cookie names are hashed "
              "by the cookie jar (dict), so names are enumerated by the solver value by value, not explored by class.")
FUNCTIONS = [
    "ombott.common_helpers:cookie_encode",
    "ombott.common_helpers:cookie_decode",
    "ombott.common_helpers:tob",
    "ombott.common_helpers:touni",
    "ombott.response:BaseResponse.set_cookie",
    "ombott.response:BaseResponse.headerlist",
    "ombott.request_pkg.props_mixin:PropsMixin.get_cookie",
    "ombott.request_pkg.props_mixin:PropsMixin.cookies",
    "ombott.request_pkg.helpers:CookieDict",
]
STUBS = [
    "OracleHmac for `hmac` inside ombott.common_helpers: deterministic 16-byte digest per (key, msg); pairs signed while the "
    "application emits cookies get distinct known digests, any other pair gets a digest no emitted cookie contains",
    "TagPickle for `pickle` inside ombott.common_helpers: dumps -> concrete token, loads records its argument and inverts tokens",
    "RecordingPickle (real/* queries): the real pickle module with loads() calls recorded",
    "CrossHair model corrections: `bytes in symbolic bytes`, symbolic bytes.split(sep, n) via find()/partition()",
]
ASSUMPTIONS = [
    "HMAC-MD5 is unforgeable: an attacker cannot produce the digest of a (key, msg) pair the application did not sign",
    "pickle.loads(pickle.dumps(x)) == x for the values an application stores; the pickled form is opaque to ombott",
    "the user agent returns each cookie-pair exactly as it appeared before the first ';' of the Set-Cookie header",
    "request header text is Latin-1 (PEP 3333): tampered characters range over code points 0..255",
]
OUTSIDE = [
    "cryptographic strength of HMAC-MD5", "cookie texts produced by more than one tamper step",
    "plain values longer than 3 characters outside the enumerated contexts; alphabets of the pair/triple queries are class "
    "representatives", "names longer than 2 characters other than the listed ones", "secrets longer than 2 characters",
    "Set-Cookie attributes other than the enumerated option set; CookieDict attribute access / getunicode (not get_cookie)",
]
BUDGET_S = {"quick": 270, "thorough": 1150}

Response(), Request({})                       # warm module level state before analysis
DEFAULT = "<default>"
NAME, VALUE, SECRET = "sid", ("user", 7), "k3y"
OTHER_VALUE = ("user", 8)
OPTIONS = dict(path="/", max_age=3600, httponly=True, secure=True, domain="h.example", expires=0)


# ---------------------------------------------------------------- user agent and scenario
def browser(headerlist):
    """Cookie header a user agent sends back: the cookie-pair of every Set-Cookie header."""
    return "; ".join(v.split(";", 1)[0] for k, v in headerlist if k == "Set-Cookie")


def emit_signed(value, secret=SECRET, name=NAME, options=None):
    """one signed cookie set on a fresh response -> its text as carried inside name="..." """
    rs = Response()
    rs.set_cookie(name, value, secret=secret, **(options or {}))
    pair = browser(rs.headerlist)
    text = pair[len(name) + 2:-1]
    if pair != name + '="' + text + '"':
        raise AssertionError("unexpected cookie-pair %r for a signed cookie" % (pair,))
    return text


def read(level, text, secret=SECRET, name=NAME):
    """read cookie `name` whose (tampered) text is `text`; returns what the application sees, DEFAULT if absent"""
    if level == "decode":
        dec = ch.cookie_decode(text, secret)
        if dec is None:
            return DEFAULT
        return dec[1] if dec[0] == name else ("wrong name", dec)
    if level == "jar":
        rq = Request({"ombott.request.cookies": CookieDict({name: text})})
    elif level == "rewritten":
        # a long-lived request object: it carried a genuine cookie (LAST_GENUINE, looked at once), has a listener on
        # env_changed that looks at the cookies whenever the environ changes, and is then given the (tampered) header
        rq = Request({"HTTP_COOKIE": name + '="' + LAST_GENUINE[0] + '"'})
        rq.cookies
        rq.on("env_changed", lambda *a: a[0].cookies)
        rq["HTTP_COOKIE"] = name + '="' + text + '"'
    else:
        rq = Request({"HTTP_COOKIE": name + '="' + text + '"'})
    return rq.get_cookie(name, DEFAULT, secret=secret)


def verdict(pick, text, got, genuine):
    """genuine: {emitted cookie text: (value, token)}.  The property: only a genuine text is deserialised / read."""
    for c in genuine:
        if text == c:
            cover("valid")
            value, token = genuine[c]
            if got != value or pick.loads_calls != [token]:
                return "genuine cookie %r read as %r, unpickler calls %r" % (text, got, pick.loads_calls)
            return None
    cover("forged")
    if pick.loads_calls:
        return "forged cookie %r (genuine: %r) reached the unpickler with %r" % (text, list(genuine), pick.loads_calls)
    if got != DEFAULT:
        return "forged cookie %r (genuine: %r) read as %r instead of the default" % (text, list(genuine), got)
    return None


def latin1(s):
    for c in s:
        assume(ord(c) <= 255)


# ---------------------------------------------------------------- forgery: tamper operators
def op_trunc(c, c2, k):
    assume(0 <= k <= len(c))
    return c[:k]


def op_delete(c, c2, k):
    assume(0 <= k < len(c))
    return c[:k] + c[k + 1:]


def op_sigcut(c, c2, k):
    q = c.index("?")
    sig = c[1:q]
    assume(0 <= k <= 2 * len(sig))
    return "!" + (sig + sig)[:k] + c[q:]


def op_msgcut(c, c2, k):
    q = c.index("?")
    msg = c[q + 1:]
    assume(0 <= k <= 2 * len(msg))
    return c[:q + 1] + (msg + msg)[:k]


def op_move(c, c2, k):
    q = c.index("?")
    d = c[:q] + c[q + 1:]
    assume(0 <= k <= len(d))
    return d[:k] + "?" + d[k:]


def op_splice(c, c2, k):
    assume(0 <= k <= len(c))
    return c[:k] + c2[k:]


def op_splice2(c, c2, k):
    assume(0 <= k <= len(c))
    return c2[:k] + c[k:]


INT_OPS = {"trunc": op_trunc, "delete": op_delete, "sigcut": op_sigcut, "msgcut": op_msgcut, "move": op_move,
           "splice": op_splice, "splice2": op_splice2}
INT_OP_TEXT = {
    "trunc": "prefix of length k (k symbolic, 0..len)", "delete": "character k deleted (k symbolic)",
    "sigcut": "signature field replaced by the first k characters of signature+signature (k symbolic, 0..48)",
    "msgcut": "payload field replaced by the first k characters of payload+payload (k symbolic)",
    "move": "the '?' moved to position k (k symbolic)",
    "splice": "first k characters of the cookie + rest of another cookie signed with the same secret (k symbolic; k='?'+1 is the signature swap)",
    "splice2": "first k characters of another genuinely signed cookie + rest of this one (k symbolic)",
}


LAST_GENUINE = [""]


def scenario():
    """fresh stubs; two cookies signed with SECRET as an attacker may have observed them"""
    mac, pick = S.install()
    c = emit_signed(VALUE)
    c2 = emit_signed(OTHER_VALUE)
    LAST_GENUINE[0] = c
    mac.signing = False
    return pick, c, c2, {c: (VALUE, pick.token(0)), c2: (OTHER_VALUE, pick.token(1))}


def make_int_op(op, level):
    def q(k: int):
        pick, c, c2, genuine = scenario()
        t = INT_OPS[op](c, c2, k)
        return verdict(pick, t, read(level, t), genuine)
    return q


def make_char_op(op, level, lo, hi):
    """substitute / insert the character chr(o) (o symbolic, 0..255) at symbolic position p, lo <= p < hi (None = end of
    cookie).  At the levels that go through the Cookie header (header, rewritten) the backslash is excluded: inside a quoted cookie-pair "\\x" is another spelling of x, so
    inserting one does not alter the cookie."""
    def q(p: int, o: int):
        pick, c, c2, genuine = scenario()
        end = len(c) + (1 if op == "insert" else 0)
        assume(lo <= p < (end if hi is None else hi))
        assume(0 <= o <= 255 and (level not in ("header", "rewritten") or o != 92))
        v = chr(o)
        pp = int(p)
        if op == "insert":
            t = c[:pp] + v + c[pp:]
        else:
            assume(v != c[pp])
            t = c[:pp] + v + c[pp + 1:]
        return verdict(pick, t, read(level, t), genuine)
    return q


def make_field(field, n, level):
    """signature (or payload) field fully symbolic, up to n characters"""
    def q(s: str):
        pick, c, c2, genuine = scenario()
        assume(len(s) <= n)
        latin1(s)
        k = c.index("?")
        t = "!" + s + c[k:] if field == "sig" else c[:k + 1] + s
        return verdict(pick, t, read(level, t), genuine)
    return q


def make_any(n, level):
    def q(t: str):
        pick, c, c2, genuine = scenario()
        assume(len(t) <= n)
        latin1(t)
        if t[:1] == "!":
            cover("bang")
        return verdict(pick, t, read(level, t), genuine)
    return q


def lscmp():
    """the closure _lscmp of cookie_decode as a function of its own (None if the source no longer has it)"""
    for const in ch.cookie_decode.__code__.co_consts:
        if isinstance(const, types.CodeType) and const.co_name == "_lscmp":
            return types.FunctionType(const, ch.cookie_decode.__globals__)
    return None


def make_lscmp(n):
    fn = lscmp()

    def q(a: bytes, b: bytes):
        assume(len(a) <= n and len(b) <= n)
        same = len(a) == len(b)
        if same:
            for i in range(len(a)):
                if a[i] != b[i]:
                    same = False
        if same:
            cover("equal")
        got = fn(a, b)
        if bool(got) != same:
            return "_lscmp(%r, %r) = %r" % (a, b, got)
        return None
    return q


# ---------------------------------------------------------------- signed round trip
SHAPES = {
    "str": lambda s, i: s, "int": lambda s, i: i, "none": lambda s, i: None, "empty": lambda s, i: "", "zero": lambda s, i: 0,
    "tuple": lambda s, i: (s, i, None, (s,)), "dict": lambda s, i: {"k": [i, {"s": (i, s)}], "n": None},
}       # picklable values; leaves s (str) and i (int) are symbolic and opaque to ombott (never dict keys: hashing realises)


SIGNED_NAMES = ["sid", "a", "S-1.x"]


def make_signed(shape, options, smax, via="direct"):
    def q(sw: str, sr: str, s: str, i: int, ni: int):
        assume(1 <= len(sw) <= smax and 1 <= len(sr) <= smax)
        for c in sw + sr:
            assume(not 0xD800 <= ord(c) <= 0xDFFF)
        assume(0 <= ni < len(SIGNED_NAMES) and len(s) <= 2)
        name = SIGNED_NAMES[ni]
        value = SHAPES[shape](s, i)
        mac, pick = S.install()
        rs = Response()
        rs.set_cookie(name, value, secret=sw, **options)
        mac.signing = False
        if via == "copy":
            rs = rs.copy(cls=HTTPResponse)
        rq = Request({"HTTP_COOKIE": browser(rs.headerlist)})
        got = rq.get_cookie(name, DEFAULT, secret=sr)
        if sw == sr:
            cover("same-secret")
            if type(got) is not type(value) or got != value or pick.loads_calls != [pick.token(0)]:
                return "%s=%r signed with %r read as %r (unpickler calls %r)" % (name, value, sw, got, pick.loads_calls)
            return None
        cover("other-secret")
        if pick.loads_calls or got != DEFAULT:
            return "cookie signed with %r read with %r gives %r, unpickler calls %r" % (sw, sr, got, pick.loads_calls)
        return None
    return q


class RecordingPickle:
    """the real pickle module, loads() calls recorded"""

    def __init__(self):
        self.loads_calls = []

    def dumps(self, obj, protocol=None):
        return S.real_pickle.dumps(obj, protocol)

    def loads(self, data):
        self.loads_calls.append(data)
        return S.real_pickle.loads(data)


REAL_VALUES = {
    "small": ("u", 1), "text": "h\xe9llo; € \"q\"", "int": -12345678901234567890, "nested": ("a", [1, 2.5, None, {"k": (True, b"\x00\xff")}]),
    "dict": {"user": "bob", "roles": ["x", "y"], "n": {"deep": [(), {}]}}, "falsy": (0, "", None, False), "big": "x" * 600,
}
REAL_NAMES = ["sid", "a", "S-1.x", "~t|k"]
# secrets may be given as bytes (tob passes them through); since seed C15-k: byte secrets sharing a first byte / one holding
# the other's first byte
REAL_SECRETS = ["k", "s3cr\xe9t €", "\x00", "?!", "k" * 80, b"k1", b"k2", b"\x01\x02\x03", b"\x03\x04"]
REAL_ALPHABET = ["", "A", "=", "?", "\x00", "\xe9"]      # "" = deletion


def real_modules():
    S.uninstall()
    pick = RecordingPickle()
    ch.pickle = pick
    return pick


def make_real_roundtrip(shape):
    value = REAL_VALUES[shape]

    def q(ni: int, si: int, ri: int):
        assume(0 <= ni < len(REAL_NAMES) and 0 <= si < len(REAL_SECRETS) and 0 <= ri < len(REAL_SECRETS))
        name, sw, sr = REAL_NAMES[ni], REAL_SECRETS[si], REAL_SECRETS[ri]
        pick = real_modules()
        rs = Response()
        rs.set_cookie(name, value, secret=sw, **OPTIONS)
        rq = Request({"HTTP_COOKIE": browser(rs.headerlist)})
        got = rq.get_cookie(name, DEFAULT, secret=sr)
        if si == ri:
            cover("same-secret")
            if type(got) is not type(value) or got != value or len(pick.loads_calls) != 1:
                return "%s=%r signed with %r read as %r" % (name, value, sw, got)
            return None
        cover("other-secret")
        if pick.loads_calls or got != DEFAULT:
            return "cookie signed with %r read with %r gives %r, unpickler calls %r" % (sw, sr, got, pick.loads_calls)
        return None
    return q


def make_real_tamper(shape, level):
    value = REAL_VALUES[shape]

    def q(vi: int):
        assume(0 <= vi < len(REAL_ALPHABET))
        v = REAL_ALPHABET[vi]
        pick = real_modules()
        c = emit_signed(value)
        for p in range(len(c)):             # concrete loop: with the real HMAC every tampered text is concrete anyway
            if v == c[p]:
                continue
            t = c[:p] + v + c[p + 1:]
            got = read(level, t)
            if pick.loads_calls or got != DEFAULT:
                return "forged %r (genuine %r) read as %r, unpickler calls %r" % (t, c, got, pick.loads_calls)
        cover("forged")
        got = read(level, c)
        if got != value or len(pick.loads_calls) != 1:
            return "genuine cookie %r read as %r" % (c, got)
        return None
    return q


# ---------------------------------------------------------------- plain round trip
def plain_roundtrip(cookies, options=None, via="direct"):
    """cookies: [(name, value)] set on one response and read back from the next request; None or the failure text.
    set_cookie may refuse (CookieError) exactly the attribute names http.cookies reserves."""
    S.uninstall()
    rs = Response()
    for name, value in cookies:
        try:
            rs.set_cookie(name, value, **(options or {}))
        except http.cookies.CookieError as e:
            if name.lower() not in http.cookies.Morsel._reserved:
                return "set_cookie(%r, %r) refused: %s" % (name, value, e)
            cover("name-refused")
            return None
    if via == "copy":                # what redirect() does with the response the handler has been writing to
        rs = rs.copy(cls=HTTPResponse)
    header = browser(rs.headerlist)
    rq = Request({"HTTP_COOKIE": header})
    for name, value in cookies:
        got = rq.get_cookie(name, DEFAULT)
        if type(got) is not str or got != value:
            return "set %r=%r, user agent returns %r, get_cookie gives %r" % (name, value, header, got)
    cover("read-back")
    return None


def latin1_char(o):
    """the character with (symbolic) code point o, 0..255.  Beyond Latin-1 plain cookies do not round-trip (finding,
    witnessed by plain/char/any); chr(symbolic int) is several times cheaper for the engine than a symbolic str."""
    assume(0 <= o <= 255)
    return chr(o)


ATTR_POINTS = [0x21, 0x41, 0x7e, 0x7f, 0x80, 0xa0, 0xe9, 0xff, 0x100, 0x17f, 0x7ff, 0x800, 0x20ac, 0x65e5, 0xd7ff, 0xe000, 0xefff,
               0xfffd, 0xffff, 0x10000, 0x1f600, 0x10ffff]


def make_plain_attr():
    """the recoding accessors of the request's cookie container (attribute access, getunicode): documented to return the
    text in the input encoding, i.e. what set_cookie was given also above U+00FF"""
    def q(i: int, via_getunicode: bool):
        # class representatives picked by a solver index (the engine's model of decoding utf-8 out of latin-1 text differs
        # from CPython for symbolic code points in some ranges: counterexamples there do not reproduce)
        assume(0 <= i < len(ATTR_POINTS))
        o = ATTR_POINTS[i]
        value = "v" + chr(o)
        S.uninstall()
        rs = Response()
        rs.set_cookie("c", value)
        rq = Request({"HTTP_COOKIE": browser(rs.headerlist)})
        got = rq.cookies.getunicode("c") if via_getunicode else rq.cookies.c      # (the builtin getattr is patched by the engine)
        if got != value:
            return "set c=%r, request.cookies.%s gives %r" % (value, "getunicode('c')" if via_getunicode else "c", got)
        cover("read-back-wide" if o > 255 else "read-back")
        return None
    return q


def make_plain_any():
    def q(o: int):
        assume(0 <= o <= 0x10FFFF and not 0xD800 <= o <= 0xDFFF)
        return plain_roundtrip([("c", chr(o))])
    return q


CONTEXTS = {"mid": ("ab", "cd"), "spaces": (" ", " "), "quotes": ('"', '"'), "escape": ("\\", "12"), "octal": ("\\0", "1"),
            "separators": ("x;", ",y"), "equals": ("=", "=="), "bang": ("!", "?x"), "quoted": ('"a', ""), "tail": ("a", "\\")}


def make_plain_ctx(ctx, options, via="direct"):
    pre, post = CONTEXTS[ctx]

    def q(o: int):
        return plain_roundtrip([("c", pre + latin1_char(o) + post)], options, via)
    return q


def make_plain_two(first_symbolic):
    def q(o: int):
        pair = [("a", latin1_char(o)), ("b", "x;y z")]
        return plain_roundtrip(pair if first_symbolic else pair[::-1])
    return q


REP = ["a", "7", " ", '"', "\\", ";", ",", "=", "?", "!", "\n", "\x00", "\x7f", "\xe9", "\xff"]


def rep_char(i, optional):
    assume((-1 if optional else 0) <= i < len(REP))
    return (REP + [""])[i]          # i == -1: no character


def make_plain_rep(n):
    """value = 1..n characters, each one of REP (indices enumerated by the solver, -1 = no character)"""
    def q(ia: int, ib: int, ic: int):
        assume(ic == -1 or (n == 3 and ib >= 0))
        return plain_roundtrip([("c", rep_char(ia, False) + rep_char(ib, True) + rep_char(ic, True))])
    return q


def make_plain_free_rep(free_first):
    """two characters: one any Latin-1 character, the other one of REP"""
    def q(o: int, ri: int):
        v, r = latin1_char(o), rep_char(ri, False)
        return plain_roundtrip([("c", v + r if free_first else r + v)])
    return q


def make_plain_digits():
    def q(d1: str, d2: str, d3: str):
        for d in (d1, d2, d3):
            assume(len(d) == 1 and 48 <= ord(d) <= 57)
        return plain_roundtrip([("c", "\\" + d1 + d2 + d3)])
    return q


ASCII = [chr(i) for i in range(128)]       # indexing a list with a symbolic int makes the solver enumerate it


def make_name1():
    def q(c: int):
        assume(33 <= c <= 126)
        name = ASCII[c]
        assume(name in http.cookies._LegalChars)
        return plain_roundtrip([(name, "v;1")])
    return q


NAME_REP = list("aZ9!#$%&'*+-.^_`|~:")


def make_name2():
    def q(i1: int, i2: int):
        assume(0 <= i1 < len(NAME_REP) and 0 <= i2 < len(NAME_REP))
        name = NAME_REP[i1] + NAME_REP[i2]
        assume(name[0] != "$")          # a leading '$' does not round-trip (finding, witnessed by plain/name1)
        return plain_roundtrip([(name, "v;1")])
    return q


NAMES = ["sid", "session_id", "a.b-c", "Path", "expires", "X", "_ga", "1st"]


def make_names():
    def q(ni: int):
        assume(0 <= ni < len(NAMES))
        return plain_roundtrip([(NAMES[ni], "t;1")])
    return q


# ---------------------------------------------------------------- through Ombott.__call__
def call(app, path):
    got = []
    env = {"REQUEST_METHOD": "GET", "PATH_INFO": path, "SERVER_NAME": "h", "SERVER_PORT": "80", "wsgi.url_scheme": "http",
           "wsgi.errors": None, "wsgi.input": None}
    return env, got, (lambda status, headers, exc_info=None: got.append((status, headers)))


# how the request that sets the cookie ends: the handler returns; it aborts / raises / returns a response object of its own
# after setting the cookie on app.response; the cookie is set in a before_request hook and the request ends in a 404 / 405
ENDINGS = ["return", "abort", "raise-response", "return-response", "redirect", "hook-404", "hook-405"]


def make_wsgi(signed, endings=("return",)):
    def q(o: int, sw: str, sr: str, end: int = 0):
        assume(0 <= end < len(endings))
        ending = endings[end]
        v = latin1_char(o)
        if signed:
            assume(len(sw) == 1 and len(sr) == 1)
            latin1(sw + sr)
            mac, pick = S.install()
            value = (v, 1)
        else:
            assume(len(sw) == 0 and len(sr) == 0)
            S.uninstall()
            value = "w" + v
        app = ombott.Ombott()
        seen = []

        def set_cookie():
            app.response.set_cookie("c", value, secret=sw or None, path="/")

        @app.route("/set")
        def set_():
            set_cookie()
            if ending == "abort":
                ombott.abort(403, "no")
            if ending == "raise-response":
                raise ombott.HTTPResponse("later", 202)
            if ending == "return-response":
                return ombott.HTTPResponse("later", 201, X_A="b")
            if ending == "redirect":
                ombott.redirect("/get")
            return "ok"

        @app.route("/only-put", method="PUT")
        def only_put():
            return "put"
        if ending.startswith("hook"):
            app.add_hook("before_request", set_cookie)

        @app.route("/get")
        def get_():
            seen.append(app.request.get_cookie("c", DEFAULT, secret=sr or None))
            return "ok"
        env, got, start = call(app, {"hook-404": "/nowhere", "hook-405": "/only-put"}.get(ending, "/set"))
        b"".join(app(env, start))
        want_status = {"return": "200", "abort": "403", "raise-response": "202", "return-response": "201", "redirect": "303",
                       "hook-404": "404", "hook-405": "405"}[ending]
        if len(got) != 1 or got[0][0][:3] not in (want_status, "302"):
            return "setting the cookie (%s) answered %r" % (ending, got)
        if ending != "return":
            cover("ended-" + ending)
        if signed:
            mac.signing = False
        env, got2, start = call(app, "/get")
        env["HTTP_COOKIE"] = browser(got[0][1])
        b"".join(app(env, start))
        if len(seen) != 1:
            return "reading handler ran %d times: %r" % (len(seen), got2)
        if signed and sw != sr:
            cover("other-secret")
            if seen[0] != DEFAULT or pick.loads_calls:
                return "cookie signed with %r read with %r gives %r" % (sw, sr, seen[0])
            return None
        cover("read-back")
        if seen[0] != value or type(seen[0]) is not type(value):
            return "handler set %r (request ended by %s), next request reads %r (Cookie: %r)" % (value, ending, seen[0], env["HTTP_COOKIE"])
        return None
    return q


# ---------------------------------------------------------------- engine-model validation
def make_model_contains():
    def q(b: bytes, x: int, y: int):
        assume(len(b) <= 3 and 0 <= x <= 255 and 0 <= y <= 255)
        one = False
        two = False
        for i in range(len(b)):
            if b[i] == x:
                one = True
                if i + 1 < len(b) and b[i + 1] == y:
                    two = True
        if (bytes([x]) in b) != one or (bytes([x, y]) in b) != two:
            return "`in` on %r for %r / %r" % (b, bytes([x]), bytes([x, y]))
        if two:
            cover("found-2")
        return None
    return q


def make_model_split():
    def q(b: bytes, n: int):
        assume(len(b) <= 3 and -1 <= n <= 2)
        want = []
        cur = b""
        left = n
        for i in range(len(b)):
            if b[i] == 63 and left != 0:
                want.append(cur)
                cur = b""
                left -= 1
            else:
                cur = cur + b[i:i + 1]
        want.append(cur)
        got = b.split(b"?", n)
        if len(got) != len(want):
            return "%r.split(b'?', %r) = %r, expected %r" % (b, n, got, want)
        for g, w in zip(got, want):
            if g != w:
                return "%r.split(b'?', %r) = %r, expected %r" % (b, n, got, want)
        if len(want) == 3:
            cover("three")
        return None
    return q


# ---------------------------------------------------------------- query list
def queries(tier):
    T = tier == "thorough"
    out = []

    def add(qid, fn, bound, timeout, cover_=(), config=None):
        out.append(Q(qid, fn, bound, timeout=timeout, expect_cover=list(cover_), family=qid.split("/")[0], config=config))

    add("model/bytes-contains", make_model_contains(), "corrected CrossHair model: (x in b), (xy in b) for all bytes b, |b| <= 3, "
        "all byte values x, y", 100, ["found-2"])
    add("model/bytes-split", make_model_split(), "corrected CrossHair model: b.split(b'?', n) for all bytes b, |b| <= 3, n in -1..2",
        100, ["three"])

    # ---- forgery
    base = "cookie %r=%r signed with %r emitted by the real set_cookie under OracleHmac/TagPickle; " % (NAME, VALUE, SECRET)
    for level in ("decode", "header", "rewritten"):
        for op in (INT_OPS if level != "rewritten" or T else ["trunc", "splice"]):
            add("forge/%s/%s" % (op, level), make_int_op(op, level), base + INT_OP_TEXT[op] + "; read through " + level,
                60, ["forged"] + ([] if op == "delete" else ["valid"]), config={"op": op, "level": level})
    regions = {"sig": (0, 26), "msg": (26, None)}          # '!' + 24 signature characters + '?' | payload
    char_ops = [(level, op, r) for level in ("jar", "header", "decode") for op in ("subst", "insert") for r in regions]
    if not T:       # the signature region through the header parser costs 90 CPU s per operator: thorough only
        char_ops = [x for x in char_ops if x[0] == "jar" or (x[0] == "header" and x[2] == "msg")]
    char_ops += [("rewritten", "subst", "msg")] + ([("rewritten", "insert", "msg"), ("rewritten", "subst", "sig")] if T else [])
    for level, op, rname in char_ops:
        lo, hi = regions[rname]
        add("forge/%s-%s/%s" % (op, rname, level), make_char_op(op, level, lo, hi),
            base + "%s of any Latin-1 character%s (symbolic code point) at symbolic position p in the %s region [%s, %s); "
            "read through %s" % (op, " but the backslash" if level in ("header", "rewritten") else "", rname, lo,
                                 "end" if hi is None else hi, level),
            60 if rname == "msg" else 300, ["forged"], config={"op": op, "level": level, "region": rname})
    n, m = (3, 4) if not T else (4, 5)
    for level in ("jar",) if not T else ("jar", "decode"):
        add("forge/sigfield%d/%s" % (n, level), make_field("sig", n, level),
            base + "signature field replaced by every Latin-1 string of length <= %d (symbolic); read through %s" % (n, level),
            60 if not T else 600, ["forged"])
        add("forge/msgfield%d/%s" % (n, level), make_field("msg", n, level),
            base + "payload field replaced by every Latin-1 string of length <= %d (symbolic); read through %s" % (n, level),
            60 if not T else 300, ["forged"])
        add("forge/any%d/%s" % (m, level), make_any(m, level),
            "every Latin-1 cookie text of length <= %d (symbolic) presented for a signed cookie; read through %s" % (m, level),
            60 if not T else 600, ["forged", "bang"])
    if lscmp() is not None:
        add("lscmp/len%d" % n, make_lscmp(n), "_lscmp(a, b) == (a == b) for all byte strings |a|,|b| <= %d (symbolic)" % n,
            60 if not T else 300, ["equal"])

    # ---- signed round trip
    for shape in (["tuple", "empty", "dict"] if not T else sorted(SHAPES)):
        smax = 2 if T and shape == "tuple" else 1
        add("signed/%s" % shape, make_signed(shape, OPTIONS if shape == "dict" else {}, smax),
            "set_cookie(name, <%s>, secret=sw) -> Set-Cookie -> Cookie -> get_cookie(name, secret=sr): secrets sw, sr symbolic "
            "(1..%d code points, any but surrogates), value leaves symbolic and opaque (TagPickle), name one of %r"
            % (shape, smax, SIGNED_NAMES), 60 if smax == 1 else 1200, ["same-secret", "other-secret"], config={"shape": shape})
    for shape in (["tuple"] if not T else ["tuple", "empty", "dict"]):
        add("copy/signed/%s" % shape, make_signed(shape, OPTIONS if shape == "dict" else {}, 1, "copy"),
            "as signed/%s, the response copied (Response.copy, the step redirect() performs) between set_cookie and emission"
            % shape, 60, ["same-secret", "other-secret"], config={"shape": shape})
    for ctx in (["separators", "quotes"] if not T else sorted(CONTEXTS)):
        pre, post = CONTEXTS[ctx]
        add("copy/plain/%s" % ctx, make_plain_ctx(ctx, None, "copy"),
            "as plain/ctx/%s, the response copied (Response.copy, the step redirect() performs) between set_cookie and emission"
            % ctx, 250, ["read-back"], config={"context": [pre, post]})
    for shape in (["nested", "text"] if not T else sorted(REAL_VALUES)):
        add("real/roundtrip-%s" % shape, make_real_roundtrip(shape),
            "real hmac/pickle/base64: value %s, names %r x write/read secrets %r (solver-enumerated indices), all cookie options"
            % (shape, REAL_NAMES, REAL_SECRETS), 120, ["same-secret", "other-secret"], config={"shape": shape})
    for shape, level in ([("small", "header")] if not T
                         else [(x, y) for x in ("small", "nested", "falsy") for y in ("decode", "header")]):
        add("real/tamper-%s/%s" % (shape, level), make_real_tamper(shape, level),
            "real hmac/pickle/base64: cookie with value %s, character at every position (harness loop) deleted or replaced "
            "by one of %r (solver-enumerated choice); read through %s" % (shape, REAL_ALPHABET[1:], level),
            60, ["forged"], config={"shape": shape, "level": level})

    # ---- plain round trip
    add("plain/char/any", make_plain_any(), "plain cookie c=chr(o), o any code point except surrogates (symbolic)",
        100, ["read-back"])
    add("plain/attr/any", make_plain_attr(), "plain cookie c='v'+chr(o), o one of %d class representatives from U+0021 to U+10FFFF (solver "
        "index), read through the recoding accessors request.cookies.c / request.cookies.getunicode('c')" % len(ATTR_POINTS), 150, ["read-back", "read-back-wide"])
    for ctx in (["escape", "separators", "quotes"] if not T else sorted(CONTEXTS)):
        pre, post = CONTEXTS[ctx]
        opts = OPTIONS if ctx in ("separators", "mid") else None
        add("plain/ctx/%s" % ctx, make_plain_ctx(ctx, opts),
            "plain cookie c=%r+v+%r, v any Latin-1 character (symbolic code point)%s"
            % (pre, post, ", all cookie options set" if opts else ""), 100, ["read-back"], config={"context": [pre, post]})
    for tag, first in (("first", True), ("second", False))[:2 if T else 1]:
        add("plain/two/%s" % tag, make_plain_two(first), "two cookies on one response, a=<v> %s b='x;y z', v any Latin-1 "
            "character (symbolic code point)" % ("before" if first else "after"), 100, ["read-back"])
    k = 2 if not T else 3
    add("plain/rep%d" % k, make_plain_rep(k), "plain value of 1..%d characters, each one of %r (solver-enumerated)" % (k, REP),
        60 if not T else 900, ["read-back"])
    if T:
        add("plain/free+rep", make_plain_free_rep(True), "plain value v+r, v any Latin-1 character (symbolic code point), r one "
            "of REP (solver-enumerated)", 900, ["read-back"])
        add("plain/rep+free", make_plain_free_rep(False), "plain value r+v, r one of REP (solver-enumerated), v any Latin-1 "
            "character (symbolic code point)", 900, ["read-back"])
    add("plain/digits", make_plain_digits(), "plain value backslash + three decimal digits (symbolic): looks like an octal escape",
        60, ["read-back"])
    add("plain/name1", make_name1(), "every one-character legal cookie name (code point solver-enumerated), value 'v;1'",
        60, ["read-back"])
    add("plain/name2", make_name2(), "two-character names over %r (first character not '$'; solver-enumerated), value 'v;1'"
        % "".join(NAME_REP), 60, ["read-back"])
    add("plain/names", make_names(), "names %r (solver-enumerated; reserved ones may be refused), value 't;1'" % NAMES,
        60, ["read-back", "name-refused"])

    # ---- both directions through the application
    add("wsgi/plain", make_wsgi(False), "Ombott.__call__: handler sets c='w'+v (v any Latin-1 character, symbolic code point), the "
        "next request of the same application reads it in a handler", 120, ["read-back"])
    ends = ENDINGS[1:]
    add("wsgi/endings/plain", make_wsgi(False, ends), "as wsgi/plain; the request that sets the cookie on app.response ends by one of "
        "%r (solver index)" % (ends,), 300, ["read-back"] + ["ended-" + e for e in ends])
    add("wsgi/endings/signed", make_wsgi(True, ends), "as wsgi/signed; the request that sets the cookie on app.response ends by one "
        "of %r (solver index)" % (ends,), 200, ["read-back", "other-secret"] + ["ended-" + e for e in ends])
    add("wsgi/signed", make_wsgi(True), "Ombott.__call__: handler sets c=(v, 1) with secret sw, next request reads with secret sr "
        "(one Latin-1 character each, symbolic; OracleHmac/TagPickle)", 60, ["read-back", "other-secret"])
    out.sort(key=lambda x: -x.timeout)          # stable: the long queries start first, the pool packs better
    return out


def selftest(tier):
    S.validate()
    cases = [
        ("forge/trunc/decode", {"k": 34}, "ok"), ("forge/trunc/header", {"k": 33}, "ok"), ("forge/sigcut/decode", {"k": 0}, "ok"),
        ("forge/splice/header", {"k": 26}, "ok"), ("forge/subst-sig/jar", {"p": 0, "o": 63}, "ok"),
        ("forge/subst-sig/jar", {"p": 40, "o": 63}, "rejected"),
        ("forge/insert-msg/jar", {"p": 34, "o": 61}, "ok"), ("forge/any%d/jar" % (5 if tier == "thorough" else 4), {"t": "!?"}, "ok"),
        ("plain/ctx/escape", {"o": 48}, "ok"), ("plain/char/any", {"o": 233}, "ok"), ("plain/name1", {"c": 97}, "ok"),
        ("plain/names", {"ni": 3}, "ok"), ("wsgi/signed", {"o": 120, "sw": "a", "sr": "b"}, "ok"),
        ("wsgi/plain", {"o": 59, "sw": "", "sr": ""}, "ok"),
    ]
    return cases
