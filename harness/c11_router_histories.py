"""C11 - the router after any edit history equals a freshly built router."""
import random

from vf.engine import assume, cover
from vf.query import Q
from harness.routespec import L, W, render, positions

from ombott.router import RadiRouter
from ombott.router.radidict import KEY, IDX, PARAMS, FILTER, HOOKS, DATA, OFFSET

PROPERTY = "C11"
TECHNIQUE = ("explicit-state enumeration of router edit histories (BFS with state merging + seeded walks) and, for every "
             "distinct state, bounded symbolic execution of RadiRouter.resolve on a symbolic path (CrossHair+z3) "
             "comparing the edited router with a router freshly built from the surviving routes and hooks")
LEVEL_TEXT = ("Edit histories (add / overwrite / rejected add / remove by rule, name, prefix* / add and remove hook) are "
              "enumerated concretely against the real router and merged by tree+index signature; this dimension is explicit "
              "enumeration and reported as such. For every distinct state the solver decides: for EVERY path up to N code "
              "points and each method, the edited router and a router freshly built (by the real add/add_hook) from the "
              "reference model's survivors give the same route, parameters, 404/405 and the same hook sequence with the same "
              "prefixes; by-name, by-rule lookups and the route index agree with the model.")
LEVEL_NOTE = ("Trusted: z3, CrossHair str model, the reference model of surviving routes/hooks in this file. A rejected "
              "registration must leave no trace (the model ignores it). Tolerance: prefix removal is not applied while a hook "
              "lies at/under the prefix (unspecified by the statement).")
FUNCTIONS = [
    "ombott.router.radidict:RadiDict.get",
    "ombott.router.radidict:RadiDict._set",
    "ombott.router.radidict:RadiDict._make_route",
    "ombott.router.radidict:RadiDict._split",
    "ombott.router.radidict:RadiDict._mount",
    "ombott.router.radidict:RadiDict.remove",
    "ombott.router.radidict:RadiDict._try_merge",
    "ombott.router.radidict:RadiDict._match",
    "ombott.router.radirouter:RadiRouter._add",
    "ombott.router.radirouter:RadiRouter.remove",
    "ombott.router.radirouter:RadiRouter._remove_named_routers",
    "ombott.router.radirouter:RadiRouter.add_hook",
    "ombott.router.radirouter:RadiRouter.remove_hook",
    "ombott.router.radirouter:RadiRouter.resolve",
    "ombott.router.radirouter:RadiRouter.__getitem__",
]
STUBS = []
ASSUMPTIONS = ["edits run concretely (natively) on the real router; only the lookup is symbolic"]
OUTSIDE = ["rule universes other than the one in this file", "histories beyond the explored depth / walks",
           "differing states not selected within the tier limit (counts in harness_stats)",
           "paths longer than N", "hooks at or under a prefix removed with '*' (unspecified)", "PARTIAL (404) hooks"]
BUDGET_S = {"quick": 270, "thorough": 1150}

GET, POST = "GET", "POST"
ANYM = [GET, POST, "PUT"]     # the method tables are compared concretely in index_checks; lookups use a list that hits any surviving method

# ---------------------------------------------------------------- universe
RULES = {
    "a": [L("a")],
    "ab": [L("ab")],
    "a/b": [L("a/b")],
    "a/bc": [L("a/bc")],
    "a/:x": [L("a/"), W("x")],
    "a/:x/c": [L("a/"), W("x"), L("/c")],
    ":y": [W("y")],
    "h/k": [L("h/k")],
    "f/#n": [L("f/"), W("n", "int")],      # a filtered rule: its filter object is looked up again by every later edit of it
}
BFS_RULES = list(RULES)                   # the rules the enumerated edits draw from
# rules used by the hand-written fault/ histories only (since seed C11-k): an int-filtered rule behind a literal that has a
# wildcard sibling, so that a lookup whose conversion raises dies with a backtracking point pending
RULES["g/n/#n"] = [L("g/n/"), W("n", "int")]
RULES["g/:s/:n"] = [L("g/"), W("s"), L("/"), W("n")]
CLASH = [L("a/"), W("x", "int")]          # same pattern as a/:x, other filter -> rejected when a/:x is in the tree
SYNTAX_ERR = "/a/<x"
CHURN = 300                                # distinct filter specs created by one `churn` edit
HOOKS_U = {"H:a": [L("a")], "H:a/:x": [L("a/"), W("x")], "H:h": [L("h")], "H:a/b": [L("a/b")], "H:a/": [L("a/")]}
BFS_HOOKS = list(HOOKS_U)
HOOKS_U["H:g"] = [L("g")]
PREFIXES = ["/a/b*", "/a*", "/a/*", "/h*"]


def ops_universe():
    ops = []
    for r in BFS_RULES:
        ops.append(("add", r, GET, None, False))
        ops.append(("remove", r))
    for r in ("a/b", "a/:x", "a"):
        ops.append(("add", r, POST, None, False))
        ops.append(("add", r, GET, None, True))          # overwrite
    ops.append(("add", "a/b", GET, "n2", False))
    ops.append(("add", "a/b", POST, "m2", False))          # second name on the same route
    ops.append(("add", "a/:x", GET, "n4", False))
    ops.append(("add", "a", GET, "n2", False))             # name clash when n2 is taken by a/b
    ops.append(("add", "ab", GET, "n4", False))            # name clash with a rule that is new to the router
    ops.append(("add", "a", GET, "n2", True))              # overwrite moves the name n2 to this rule (since seed C11-i)
    ops.append(("add", "a/:x", GET, "m2", True))
    ops.append(("add", "a/b", (GET, POST), None, False))   # method lists: rejected as a whole when one method is taken
    ops.append(("add", "a/b", (POST, GET), None, False))
    ops.append(("add", "a", (POST, "PUT"), None, False))
    ops.append(("add", "f/#n", POST, None, False))
    ops.append(("add", "f/#n", GET, None, True))
    ops.append(("clash",))
    ops.append(("syntax",))
    ops.append(("churn",))
    for n in ("n2", "m2", "n4"):
        ops.append(("remove_name", n))
    for p in PREFIXES:
        ops.append(("remove_prefix", p))
    for h in BFS_HOOKS:
        ops.append(("add_hook", h))
        ops.append(("remove_hook", h))
    return ops


class Tag:
    """callable stand-in for handlers / hooks with a stable identity"""

    def __init__(self, t):
        self.t = t
        self.__module__ = "tag"
        self.__qualname__ = str(t)

    def __call__(self, *a, **kw):
        return self.t

    def __repr__(self):
        return "T%r" % (self.t,)


class Model:
    def __init__(self):
        self.routes = {}     # rule key -> {method: tag text}
        self.names = {}      # name -> rule key
        self.hooks = {}      # hook key -> tag text

    def copy(self):
        m = Model()
        m.routes = {k: dict(v) for k, v in self.routes.items()}
        m.names = dict(self.names)
        m.hooks = dict(self.hooks)
        return m

    def sig(self):
        return (tuple(sorted((k, tuple(sorted(v.items()))) for k, v in self.routes.items())),
                tuple(sorted(self.names.items())), tuple(sorted(self.hooks.items())))


def rule_text(key):
    return render(RULES[key], 0)


def hook_text(key):
    return render(HOOKS_U[key], 0)


def pattern_of(spec):
    return positions(spec)


def apply_op(router, model, op, step):
    """apply one edit to the real router and the reference model; returns a note or None if the op is not enabled"""
    kind = op[0]
    tag = "%s@%d" % ("/".join(str(x) for x in op[1:3]), step)
    if kind == "add":
        _, r, meth, name, over = op
        meths = list(meth) if isinstance(meth, tuple) else [meth]
        try:
            router.add(rule_text(r), meths if isinstance(meth, tuple) else meth, Tag(tag), name=name, overwrite=over)
            ok = True
        except Exception:
            ok = False
        # the model is the specification: a registration is refused exactly when a method of it is taken (and overwrite
        # is off) or its name belongs to another rule; a refused one leaves no trace, an accepted one is in force.
        # The router is compared with the model afterwards, so a wrong refusal / acceptance shows as a difference
        taken = not over and any(m in model.routes.get(r, {}) for m in meths)
        clash = bool(name) and not over and name in model.names and model.names[name] != r
        if not (taken or clash):
            for m in meths:
                model.routes.setdefault(r, {})[m] = tag
            if name:
                model.names[name] = r
            return "add" if ok else "add-WRONGLY-REJECTED"
        return "add-rejected" if not ok else "add-WRONGLY-ACCEPTED"
    if kind == "clash":
        try:
            router.add(render(CLASH, 0), GET, Tag(tag))
            return None if "a/:x" not in model.routes else "clash-accepted?"
        except Exception:
            return "clash-rejected"
    if kind == "churn":
        # many other rules with filters of their own come and go elsewhere in the process (another router)
        scratch = RadiRouter()
        for i in range(CHURN):
            scratch.add("/z%d/<v:re(x{%d})>" % (i, i + 1), GET, Tag("z"))
        return "churn"
    if kind == "syntax":
        try:
            router.add(SYNTAX_ERR, GET, Tag(tag))
        except Exception:
            return "syntax-rejected"
        return "syntax-accepted?"
    if kind == "remove":
        _, r = op
        router.remove(rule_text(r))
        model.routes.pop(r, None)
        for n in [n for n, k in model.names.items() if k == r]:
            del model.names[n]
        return "remove"
    if kind == "remove_name":
        _, n = op
        if n not in model.names:
            try:
                router.remove(name=n)
            except KeyError:
                return "remove-name-absent"
            return "remove-name-absent-accepted?"
        r = model.names[n]
        router.remove(name=n)
        model.routes.pop(r, None)
        for n2 in [x for x, k in model.names.items() if k == r]:
            del model.names[n2]
        return "remove-name"
    if kind == "remove_prefix":
        _, p = op
        pref = p[1:-1]
        if any(pattern_of(HOOKS_U[h]).startswith(pref) for h in model.hooks):
            return None      # unspecified for hooks: not enabled
        router.remove(p)
        for r in [r for r in model.routes if pattern_of(RULES[r]).startswith(pref)]:
            del model.routes[r]
            for n in [n for n, k in model.names.items() if k == r]:
                del model.names[n]
        return "remove-prefix"
    if kind == "add_hook":
        _, h = op
        router.add_hook(hook_text(h), Tag("hook:" + tag))
        model.hooks[h] = "hook:" + tag
        return "add-hook"
    if kind == "remove_hook":
        _, h = op
        router.remove_hook(hook_text(h))
        model.hooks.pop(h, None)
        return "remove-hook"
    if kind == "fault":
        # not an edit: a lookup that dies from an exception (the int conversion refuses a numeral of 4301 digits)
        _, r = op
        p = "".join(x.text if isinstance(x, L) else "9" * 4301 for x in RULES[r])
        try:
            router.resolve("/" + p, ANYM)
        except ValueError:
            return "lookup-raised"
        return "lookup-did-not-raise"
    raise ValueError(op)


TRAFFIC = ["a/b", "a/x", "a/x/c", "a/bc", "h/k", "ab", "f/1", "y"]


def replay(history, traffic=True):
    """the history on a new router.  A long-lived router serves requests between its edits: after every edit a few
    concrete paths are resolved (since seed C11-j; whatever a lookup leaves behind in the router must follow later edits)"""
    router, model = RadiRouter(), Model()
    notes = []
    for i, op in enumerate(history):
        n = apply_op(router, model, op, i)
        if n is None:
            return None
        notes.append(n)
        if op[0] == "fault":
            traffic = False          # no successful lookup between the aborted one and the judged one
        if traffic:
            for p in TRAFFIC:
                observe(router, p, ANYM)
    return router, model, notes


def untraced(fn):
    """run concrete set-up code outside the symbolic tracer (it is the same code either way, only faster)"""
    from crosshair.tracers import NoTracing, is_tracing
    if is_tracing():
        with NoTracing():
            return fn()
    return fn()


def fresh_from(model):
    r = RadiRouter()
    for key in sorted(model.routes):
        for meth in sorted(model.routes[key]):
            r.add(rule_text(key), meth, Tag(model.routes[key][meth]))
        if not model.routes[key]:
            r.add(rule_text(key), "X-TMP", Tag("tmp"))
            r.routes[pattern_of(RULES[key])].remove_method("X-TMP")
    for name, key in sorted(model.names.items()):
        r.named_routes[name] = r.routes[pattern_of(RULES[key])]
    for h in sorted(model.hooks):
        r.add_hook(hook_text(h), Tag(model.hooks[h]))
    return r


def tree_sig(node):
    data = node[DATA]
    d = None
    if data is not None:
        d = tuple(sorted((m, rm.handler.t) for m, rm in data.methods.items()))
    hk = node[HOOKS]
    h = None if not hk else tuple(None if x is None else x.t for x in hk)
    return (node[KEY], node[IDX] or "", tuple(node[PARAMS] or ()), node[FILTER] is not None, h, d,
            tuple(tree_sig(c) for c in node[OFFSET:]))


def router_sig(r):
    return (tree_sig(r.radidict.root), tuple(sorted(r.routes)), tuple(sorted((n, rt.pattern) for n, rt in r.named_routes.items())),
            tuple(sorted(r.hooks)))


def observe(router, path, meths):
    end_point, err = router.resolve(path, meths)
    if end_point:
        rm, params, hooks = end_point
        hk = []
        for pos, pair in hooks:
            s = pair[0]
            if s is not None:
                hk.append((pos, s.t))
        return ("ok", rm.handler.t, dict(params), hk)
    if err[0] == 404:
        return ("404",)
    return ("405", err[2])


def index_checks(router, model):
    """by-name, by-rule lookups and the route index against the model (concrete)"""
    want = {pattern_of(RULES[k]) for k in model.routes}
    if set(router.routes) != want:
        return "router.routes holds %r, survivors are %r" % (sorted(router.routes), sorted(want))
    for k, meths in model.routes.items():
        got = {m: rm.handler.t for m, rm in router.routes[pattern_of(RULES[k])].methods.items()}
        if got != meths:
            return "route %r has methods %r, survivors are %r" % (rule_text(k), got, meths)
    for n in ("n2", "m2", "n4"):
        got = router[n]
        if n in model.names:
            pat = pattern_of(RULES[model.names[n]])
            if got is None or got.pattern != pat or got is not router.routes.get(pat):
                return "router[%r] = %r, expected the surviving route %r" % (n, got, pat)
        elif got is not None:
            return "router[%r] = %r although no surviving route has that name" % (n, got)
    for k in RULES:
        got = router[{rule_text(k)}]
        if k in model.routes:
            if got is None or got is not router.routes.get(pattern_of(RULES[k])):
                return "router[{%r}] = %r, expected the surviving route" % (rule_text(k), got)
        elif got is not None:
            return "router[{%r}] = %r although the route was removed" % (rule_text(k), got)
    hk = {pattern_of(HOOKS_U[h]) for h in model.hooks}
    if set(router.hooks) != hk:
        return "router.hooks holds %r, surviving hooks are %r" % (sorted(router.hooks), sorted(hk))
    return None


def expected_hooks(model, rule_key, params):
    """independent reference for the hook clause: a hook fires for a matched route iff the route's rule extends the
    hook's rule, outermost first, with the matched path prefix (reported as its length in the slash-stripped path)"""
    spec = RULES[rule_key]
    rpos = pattern_of(spec)
    # offset in the path after consuming k pattern positions
    offs = [0]
    for seg in spec:
        if isinstance(seg, L):
            for _ in seg.text:
                offs.append(offs[-1] + 1)
        elif seg.filter is None:
            offs.append(offs[-1] + len(params[seg.name]))
        else:
            break            # the length of a converted value is not the length of its text; no hook lies behind one
    out = []
    for h in sorted(model.hooks, key=lambda h: len(pattern_of(HOOKS_U[h]))):
        hpos = pattern_of(HOOKS_U[h])
        if rpos.startswith(hpos):
            out.append((offs[len(hpos)], model.hooks[h]))
    return out


def make_query(history, N):
    built = replay(history)
    assert built is not None
    edited, model, notes = built
    fresh = fresh_from(model)

    wrong = [n for n in notes if "WRONGLY" in n]

    typed = any("#" in k for k in model.routes)        # an int-filtered rule is in force: the cost of one more character is x8 there

    def q(path: str):
        assume(len(path) <= (N - 1 if typed else N))
        if typed:
            for ch in path:
                assume(ord(ch) < 128)
        # every path is a process of its own: both routers are built again (a router may keep what a lookup leaves behind)
        edited = untraced(lambda: replay(history)[0])
        fresh = untraced(lambda: fresh_from(model))
        if wrong:
            return "history %r: %s (registration outcome per edit: %r)" % (history, wrong[0], notes)
        r = index_checks(edited, model)
        if r:
            return "after %r: %s" % (history, r)
        a = observe(edited, path, ANYM)
        b = observe(fresh, path, ANYM)
        if a != b:
            return "after history %r: path %r -> edited router %r, freshly built router %r" % (history, path, a, b)
        cover(a[0])
        if a[0] == "ok":
            want = expected_hooks(model, a[1].split("@")[0].rsplit("/", 1)[0], a[2])
            if a[3] != want:
                return "after history %r: path %r matched %r, hooks fired %r, rules that the matched rule extends give %r" % (
                    history, path, a[1], a[3], want)
            if a[3]:
                cover("hook")
        return None
    return q, notes


# ---------------------------------------------------------------- history enumeration
def A(k, m=GET, name=None, over=False):
    return ("add", k, m, name, over)


BASES = [
    [],
    [("add_hook", "H:h"), A("h/k")],                                   # hook on a prefix above a leaf route
    [("add_hook", "H:a/b"), A("a/b"), A("a/bc")],                      # hook on a route node with a longer sibling
    [A("a"), A("ab"), A("a/b")],                                       # split prefixes
    [A("a/:x"), A("a/:x/c"), A("a/b"), ("add_hook", "H:a/:x")],        # wildcard siblings + hook on the wildcard
    [A("a/b", GET, "n2"), A("a/b", POST, "m2"), A("a/:x", GET, "n4")],  # names
    [A(":y"), A("a"), ("add_hook", "H:a")],
    [A(k) for k in ("a", "ab", "a/b", "a/bc", "a/:x", "a/:x/c", ":y", "h/k")],
    [("add_hook", "H:a"), A("ab"), A("a/b")],                           # hook on a pure branch point (no route) with two literal branches
    [("add_hook", "H:a/"), A("a/b"), A("a/:x"), A("a/bc")],             # ... with a literal and a wildcard branch
    [A("f/#n"), A("a/b"), ("churn",)],                                  # a filtered rule that is older than many other filters
]
PROBES = ["", "a", "ab", "abc", "a/", "a/b", "a/bc", "a/bx", "a/x", "a/x/c", "a/b/c", "a/bc/c", "a//c", "y", "b", "h", "h/k",
          "h/kk", "a/b/", "/a", "x/c", "a/x/d", "f/1", "f/x", "f/12/"]


def probe_differs(router, fresh):
    for p in PROBES:
        if observe(router, p, ANYM) != observe(fresh, p, ANYM):
            return True
    return False


def enumerate_states(depth, walks, walk_len, seed, limit):
    """BFS from each base to `depth` with merging on (router signature, model signature), then seeded random walks.
    Only states whose tree or indexes differ structurally from the freshly built router need a solver query (a
    structurally identical router answers identically).  Selection within `limit`: states on which a fixed list of
    concrete probe paths already disagrees first (ordering heuristic only - the verdict is the solver's), then a
    seeded sample stratified by the kind of the last edit."""
    ops = ops_universe()
    seen = {}
    cand = []
    same = [0]

    def visit(hist):
        b = replay(hist)
        if b is None:
            return False
        router, model, notes = b
        s = (router_sig(router), model.sig())
        if s in seen:
            return False
        seen[s] = True
        fresh = fresh_from(model)
        if router_sig(router) == router_sig(fresh) and index_checks(router, model) is None and not probe_differs(router, fresh):
            same[0] += 1
        else:
            bad = index_checks(router, model) is not None or probe_differs(router, fresh)
            cand.append((0 if bad else 1, hist))
        return True

    for base in BASES:
        frontier = [list(base)]
        visit(list(base))
        for d in range(depth):
            nxt = []
            for h in frontier:
                for op in ops:
                    h2 = h + [op]
                    if visit(h2):
                        nxt.append(h2)
            frontier = nxt
    rnd = random.Random(seed)
    for w in range(walks):
        h = list(rnd.choice(BASES))
        for _ in range(walk_len):
            h2 = h + [rnd.choice(ops)]
            if replay(h2) is None:
                continue
            h = h2
            visit(h)
    first = [h for pr, h in cand if pr == 0]
    rest = [h for pr, h in cand if pr == 1]
    by_kind = {}
    for h in rest:
        by_kind.setdefault(h[-1][0] if h else "-", []).append(h)
    for v in by_kind.values():
        rnd.shuffle(v)
    picked = []
    while len(picked) + len(first) < limit and any(by_kind.values()):
        for k in sorted(by_kind):
            if by_kind[k] and len(picked) + len(first) < limit:
                picked.append(by_kind[k].pop())
    return (first + picked)[:max(limit, len(first))], same[0], len(cand)


FAULT_HISTS = [
    [A("g/n/#n"), A("g/:s/:n"), ("add_hook", "H:g"), ("fault", "g/n/#n"), ("remove_hook", "H:g"), ("remove_prefix", "/g/*")],
    [A("g/n/#n"), A("g/:s/:n"), ("fault", "g/n/#n")],
    [A("g/n/#n"), A("g/:s/:n"), A("a/b"), A("a/:x"), ("fault", "g/n/#n"), ("remove", "g/:s/:n")],
    [A("f/#n"), A(":y"), A("a/b"), ("fault", "f/#n"), ("remove", ":y")],
]

_cache = {}
STATS = {}


def _hid(h):
    import hashlib
    return hashlib.sha1(repr(h).encode()).hexdigest()[:10]


def queries(tier):
    T = tier == "thorough"
    key = tier
    if key not in _cache:
        _cache[key] = enumerate_states(depth=2, walks=100 if not T else 1500, walk_len=6 if not T else 9,
                                       seed=20260929, limit=110 if not T else 800)
    out = []
    N = 5
    hists, n_same, n_cand = _cache[key]
    STATS.update(states_structurally_equal_to_fresh=n_same, states_differing=n_cand, states_selected=len(hists))
    for i, h in enumerate(FAULT_HISTS):
        fn, notes = make_query(h, N)
        assert "lookup-raised" in notes, notes
        out.append(Q("fault/%d" % i, fn, "history %r (a lookup that raises ValueError inside the int conversion, no successful lookup "
                     "after it); every path with <= %d code points (%d code points < 128 while an int-filtered rule is registered)"
                     % (notes, N, N - 1), timeout=150 if not T else 250, family="fault", config=[list(map(str, op)) for op in h]))
    for h in hists:
        fn, notes = make_query(h, N)
        out.append(Q("state/%s" % _hid(h), fn, "history of %d edits (last: %s); every path with <= %d code points" % (
            len(h), ",".join(notes[-3:]), N) + " (4 code points < 128 while the int-filtered rule is registered)", timeout=150 if not T else 250, family="state", config=[list(map(str, op)) for op in h]))
    return out
