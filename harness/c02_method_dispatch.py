"""C02 - method dispatch: verb, HEAD->GET and ANY fallbacks, 405 with exact Allow, 404/405 split."""
from vf.engine import assume, cover
from vf.query import Q

import ombott

PROPERTY = "C02"
TECHNIQUE = ("bounded symbolic execution of Ombott.__call__/to_route/handler and RadiRouter.add/resolve, Route method "
             "tables (CrossHair+z3): method bitmaps, verb, edit choice and path are solver variables; differential "
             "against a reference dispatch rule and a segment matcher written for the enumerated rule shapes")
LEVEL_TEXT = ("For every enumerated route-set shape the real application is built inside the query from symbolic method "
              "bitmaps (each route receives every subset of GET/HEAD/POST/PUT/ANY; registration spelled upper/lower/mixed "
              "case, through route(), add_route() and the verb shortcuts), optionally edited (per-method removal, "
              "RouteMethod.remove, overwrite=True and plain re-registration) and then asked with a symbolic verb and path. "
              "z3 decides every branch, so inside the bounds: the handler that ran is the one registered for the verb, "
              "else GET's for HEAD, else ANY's; otherwise the answer is 405 and Allow names exactly the registered methods "
              "of the selected route; 404 is given exactly for the paths no rule matches. Bounded: routes <= 3, "
              "path length <= 4-5, verb spellings from a fixed list or ASCII-letter strings of length <= 3-4.")
LEVEL_NOTE = ("Trusted: z3, CrossHair's str/bool/int/dict models, CPython for concrete steps, the reference matcher and "
              "dispatch rule in this file. Route-set shapes, registration style and edit mode are enumerated, not "
              "symbolic. Route selection by filters (int/re/path) is left to C01: shapes use literal and plain wildcard "
              "segments only. Allow is compared as a set of names, ignoring order, blanks and letter case.")
FUNCTIONS = [
    "ombott.ombott:Ombott.to_route",
    "ombott.ombott:Ombott.handler",
    "ombott.ombott:Ombott.add_route",
    "ombott.ombott:Ombott.route",
    "ombott.ombott:Ombott._handle",
    "ombott.ombott:Ombott.wsgi",
    "ombott.router.radirouter:RadiRouter.add",
    "ombott.router.radirouter:RadiRouter._add",
    "ombott.router.radirouter:RadiRouter.resolve",
    "ombott.router.radirouter:Route.__getitem__",
    "ombott.router.radirouter:Route.set_method",
    "ombott.router.radirouter:Route.add_method",
    "ombott.router.radirouter:Route.remove_method",
    "ombott.router.radirouter:RouteMethod.remove",
    "ombott.router.radidict:RadiDict.get",
    "ombott.request_pkg.props_mixin:PropsMixin.method",
    "ombott.request_pkg.request:BaseRequest.__setitem__",
    "ombott.request_pkg.request:BaseRequest._on_env_changed",
]
STUBS = []
ASSUMPTIONS = [
    "which route a path selects among several matching rules follows the C01 priority (literal segment beats wildcard "
    "at the first differing position); a wildcard binding the empty string is accepted either way",
    "a request verb spelled ANY reaches the ANY handler (the statement does not forbid it)",
    "a route whose methods were all removed still is a route: 405 with an empty (or absent) Allow",
    "when a before_request hook replaces REQUEST_METHOD (request[...] setter or request.environ), the request's method "
    "is the one in force when routing happens, whether or not request.method was read before",
    "handlers accept **kwargs, so the C01 finding about CR in a path (parameters dropped) does not turn into a 500 here",
]
OUTSIDE = [
    "rules with int/float/re/path filters or wildcards mixed with text inside one segment (C01)",
    "paths longer than the stated bound; through WSGI only code points < 128 (PATH_INFO transcoding is not the subject)",
    "request verbs outside the spelling list / ASCII-letter strings of the stated length (non-ASCII case mappings)",
    "Route.remove_method called with a lower-case name (a no-op in ombott; the statement speaks about request matching)",
    "more than 3 routes per application, removal of whole routes (C11), partial-404 hooks",
    "joint assignments of unrelated subsets to several routes: the routes of one application hold the symbolic "
    "subset, its complement and a rotation of it (every route sees every subset)",
    "the default error page with a symbolic URL (custom 404/405 pages in the `split` queries; C20)",
]
BUDGET_S = {"quick": 270, "thorough": 1150}

UNIVERSE = ("GET", "HEAD", "POST", "PUT", "ANY")
SPELLINGS = ("GET", "get", "Get", "HEAD", "head", "POST", "PUT", "put", "DELETE", "ANY", "any", "FOO")
MIXED = {"GET": "Get", "HEAD": "hEAD", "POST": "post", "PUT": "pUt", "ANY": "Any"}
W = None   # wildcard segment in a rule spec


# ---------------------------------------------------------------- reference semantics (independent of ombott)
def fold(name):
    """ASCII case folding, written out (no str.upper)."""
    return "".join(chr(ord(c) - 32) if 97 <= ord(c) <= 122 else c for c in name)


def dispatch(table, verb):
    """table: folded method name -> handler tag of one route; verb: folded. Tag of the handler that must run, or None (405)."""
    if verb in table:
        return table[verb]
    if verb == "HEAD" and "GET" in table:
        return table["GET"]
    return table.get("ANY")


def match(spec, path):
    """0 = the rule spec does not match the whole path, 1 = it does, 2 = it does only if a wildcard binds the empty
    string. A spec is a tuple of segments, each a literal text or W (any text without '/'); () is the rule '/'.
    Slashes at both ends of the path do not count."""
    i, end = 0, len(path)
    while i < end and path[i] == "/":
        i += 1
    while end > i and path[end - 1] == "/":
        end -= 1
    verdict = 1
    for k, seg in enumerate(spec):
        if k:
            if i >= end or path[i] != "/":
                return 0
            i += 1
        if seg is W:
            j = i
            while j < end and path[j] != "/":
                j += 1
            if j == i:
                verdict = 2
            i = j
        else:
            j = i + len(seg)
            if j > end or path[i:j] != seg:
                return 0
            i = j
    return verdict if i == end else 0


def verdicts(specs, live, path):
    return [match(spec, path) if live[k] else 0 for k, spec in enumerate(specs)]


def select(specs, matched, empty_ok):
    """Index of the rule spec the path selects, or None: among the registered specs matching the whole path
    (matched = verdicts(...)) the one with a literal at the first position where they differ."""
    best, best_key = None, None
    for k, spec in enumerate(specs):
        m = matched[k]
        if m == 1 or (m == 2 and empty_ok):
            key = [seg is W for seg in spec]
            if best is None or key < best_key:
                best, best_key = k, key
    return best


def expected(tables, sel, verb):
    """('404',) | ('200', tag of the handler that must run) | ('405', sorted names registered on the selected route)"""
    if sel is None:
        return ("404",)
    tag = dispatch(tables[sel], verb)
    if tag is not None:
        return ("200", tag)
    return ("405", sorted(tables[sel]))


# ---------------------------------------------------------------- route-set shapes (enumerated configurations)
def shapes(tier):
    out = [
        dict(tag="lit-wild", rules=[("a",), (W,)], hooks=[], flavour="<>",
             paths=["/a", "/b", "/a/b", "a/", "//b//", ""]),
        dict(tag="split-root", rules=[("abc",), ("a", W), ()], hooks=[], flavour=":",
             paths=["/abc", "/a/b", "/", "/ab", "abc/", "/a/abc/"]),
        dict(tag="deep-hook", rules=[("a", "b"), (W, "b")], hooks=[("a",)], flavour="{}",
             paths=["/a/b", "/c/b", "/a", "/b", "/a/b/", "/a/c"]),
        # two literal siblings sharing text past the branch point (a split node that holds no route) + a wildcard sibling
        dict(tag="split-wild", rules=[("abc",), ("abd",), (W,)], hooks=[], flavour=":",
             paths=["/ab", "/abc", "/abd", "/a", "/abe", "/x"]),
    ]
    if tier == "thorough":
        out += [
            dict(tag="wild-only", rules=[(W,)], hooks=[], flavour=":", paths=["/x", "/", "/x/y", "x"]),
            dict(tag="lit-split3", rules=[("ab",), ("ac",), ("a",)], hooks=[], flavour="<>",
                 paths=["/ab", "/ac", "/a", "/ad", "/abc", "/"]),
            dict(tag="two-level", rules=[("a",), ("a", "b"), ("a", W)], hooks=[], flavour="{}",
                 paths=["/a", "/a/b", "/a/c", "/a/b/c", "/b", "/a/"]),
            dict(tag="wild-wild", rules=[(W,), (W, W)], hooks=[], flavour="<>", paths=["/x", "/x/y", "/x/y/z", "/"]),
            dict(tag="cross", rules=[(W, "b"), ("a", W)], hooks=[], flavour=":",
                 paths=["/a/b", "/c/b", "/a/c", "/c/d", "/a"]),
            dict(tag="root-wild", rules=[(), (W,)], hooks=[], flavour="{}", paths=["/", "", "/x", "//", "/x/y"]),
            dict(tag="hook-on-route", rules=[("a",), ("a", "b")], hooks=[("a",), ()], flavour="<>",
                 paths=["/a", "/a/b", "/a/c", "/", "/b"]),
            dict(tag="hook-wild", rules=[("a", "b")], hooks=[(W,), ("c",)], flavour="<>",
                 paths=["/a/b", "/c", "/a", "/d", "/c/b"]),
            dict(tag="long-lit", rules=[("abc",), ("abd",), ("ab", W)], hooks=[], flavour=":",
                 paths=["/abc", "/abd", "/ab", "/ab/c", "/abe", "/abcd"]),
        ]
    return out


def render(spec, flavour):
    segs = []
    for i, s in enumerate(spec):
        if s is W:
            segs.append({"<>": "<x%d>", ":": ":x%d", "{}": "{x%d}"}[flavour] % i)
        else:
            segs.append(s)
    return "/" + "/".join(segs)


def derived_bits(bits, r):
    """Every route gets every subset while the routes of one application always differ: route 0 = the bitmap,
    route 1 = its complement, route 2 = the bitmap rotated by one and complemented at GET."""
    if r == 0:
        return list(bits)
    if r == 1:
        return [not b for b in bits]
    rot = list(bits[1:]) + [bits[0]]
    return [not rot[0]] + rot[1:]


# ---------------------------------------------------------------- building the application with the real API
def make_handler(tag, calls):
    def handler(**kw):
        calls.append(tag)
        return tag
    return handler


def register(app, rule, verb, handler, style, **kw):
    if style == "upper":
        app.route(rule, method=verb, callback=handler, **kw)
    elif style == "lower":
        app.route(rule, verb.lower(), handler, **kw)
    elif style == "mixed":
        app.route(rule, method=MIXED[verb], **kw)(handler)
    elif style == "list1":
        app.add_route(rule, [verb.lower()], handler, **kw)
    elif verb == "ANY":    # style "shortcut"
        app.route(rule, "any", handler, **kw)
    else:
        # app.get / app.head / ...: the functools.partial is unpacked here, CrossHair's tracer cannot call partial objects
        shortcut = getattr(app, verb.lower())
        shortcut.func(rule, *shortcut.args, callback=handler, **shortcut.keywords, **kw)


# how the application object comes about: the configurations an application may run under (enumerated)
def _via_setup(cfg):
    app = ombott.Ombott()
    app.setup(cfg)
    return app


APP_CONFIGS = {
    "default": lambda: ombott.Ombott(),
    "debug": lambda: ombott.Ombott({"debug": True}),
    "nocatchall": lambda: ombott.Ombott({"catchall": False}),
    "setup-debug": lambda: _via_setup({"debug": True}),
    "setup-none": lambda: _via_setup(None),
    "limits": lambda: ombott.Ombott({"max_body_size": 0, "max_memfile_size": 1, "app_name_header": "X-App"}),
}
APP_FACTORY = [APP_CONFIGS["default"]]


def under_config(name, fn):
    """the query `fn` with every application built under configuration `name`"""
    def q(*a, **kw):
        APP_FACTORY[0] = APP_CONFIGS[name]
        try:
            return fn(*a, **kw)
        finally:
            APP_FACTORY[0] = APP_CONFIGS["default"]
    q.__signature__ = __import__("inspect").signature(fn)
    q.__annotations__ = dict(fn.__annotations__)
    return q


NAMING = [None]


def with_naming(naming, fn):
    """the query `fn` with the routes named (on every registration / on a later one only) and edited through the
    by-name lookup router[name]"""
    def q(*a, **kw):
        NAMING[0] = naming
        try:
            return fn(*a, **kw)
        finally:
            NAMING[0] = None
    q.__signature__ = __import__("inspect").signature(fn)
    q.__annotations__ = dict(fn.__annotations__)
    return q


def build(shape, bitmaps, style, calls):
    """bitmaps[r][i] tells whether UNIVERSE[i] is registered on route r. Returns (app, tables, live); a rule no
    method was registered for does not exist (live[r] is False)."""
    app = APP_FACTORY[0]()
    tables = []
    for r, spec in enumerate(shape["rules"]):
        rule = render(spec, shape["flavour"])
        table = {}
        for i, name in enumerate(UNIVERSE):
            if bitmaps[r][i]:
                tag = "r%d:%s" % (r, name)
                kw = {}
                if NAMING[0] == "every" or (NAMING[0] == "later" and table):
                    kw["name"] = "route%d" % r          # the route's name, given on every / on a later registration only
                register(app, rule, name, make_handler(tag, calls), style, **kw)
                table[name] = tag
        tables.append(table)
    for spec in shape["hooks"]:
        app.on_route(render(spec, shape["flavour"]), lambda prefix: None)
    return app, tables, [bool(t) for t in tables]


def edit(app, rule, table, r, i, mode, calls):
    """Second phase on one method of one route; updates the reference table."""
    name = UNIVERSE[i]
    tag = "r%d:%s'" % (r, name)
    if mode == "overwrite":
        register(app, rule, name, make_handler(tag, calls), "lower", overwrite=True)
        table[name] = tag
    elif mode == "again":
        try:
            register(app, rule, name, make_handler(tag, calls), "upper")
        except Exception:
            cover("refused")
            return None if name in table else "registration of a free method refused"
        table[name] = tag
    elif name in table:      # removal of a registered method (removing an unregistered one is not the subject)
        route = app.router[{rule}]
        if NAMING[0] and app.router["route%d" % r] is not None:
            route = app.router["route%d" % r]           # the same route looked up by its name
        if mode == "remove":
            route.remove_method(name)
        elif mode == "remove-list":      # together with the next method of the universe if that is registered too
            names = [name] + [n for n in UNIVERSE[i + 1:i + 2] if n in table]
            route.remove_method(names)
            for n in names[1:]:
                del table[n]
        else:                            # mode "handle"
            route.methods[name].remove()
        del table[name]
    return None


# ---------------------------------------------------------------- observation
class _Errors:
    @staticmethod
    def write(text):
        pass


def request(app, verb, path_info):
    got = []
    env = {"REQUEST_METHOD": verb, "PATH_INFO": path_info, "SERVER_NAME": "h", "SERVER_PORT": "80",
           "wsgi.url_scheme": "http", "wsgi.errors": _Errors, "SERVER_PROTOCOL": "HTTP/1.1"}
    body = app(env, lambda status, headers, exc_info=None: got.append((status, headers)))
    for _ in body:
        pass
    return got


def allow_names(value):
    return sorted({fold(n.strip()) for n in value.split(",") if n.strip()})


def judge_wsgi(got, calls, want):
    if len(got) != 1:
        return "start_response called %d times" % len(got)
    status, headers = got[0]
    code = status[:3]
    if code != want[0]:
        return "answered %r, expected %s %r (handlers run: %r)" % (status, want[0], want[1:], calls)
    if want[0] == "200":
        cover("200")
        if calls != [want[1]]:
            return "handler(s) %r ran, expected %r" % (calls, want[1])
        return None
    if calls:
        return "%s although handler(s) %r ran" % (code, calls)
    if want[0] == "405":
        cover("405")
        allow = [v for k, v in headers if fold(k) == "ALLOW"]
        if len(allow) > 1 or (not allow and want[1]):
            return "405 with %d Allow headers, registered %r" % (len(allow), want[1])
        if allow_names(allow[0] if allow else "") != want[1]:
            return "405 with Allow %r, registered %r" % (allow, want[1])
    else:
        cover("404")
    return None


def judge_router(app, path, verb, want):
    end_point, err = app.to_route(path, verb)
    if want[0] == "200":
        cover("200")
        if not end_point or err:
            return "to_route gave %r, expected handler %r" % (err and err[:2], want[1])
        got = end_point[0].handler()
        if got != want[1]:
            return "resolved to handler %r, expected %r" % (got, want[1])
        return None
    if end_point or not err:
        return "resolved to %r, expected %s" % (end_point and end_point[0], want[0])
    if str(err[0]) != want[0]:
        return "error %r, expected %s %r" % (err[:2], want[0], want[1:])
    if want[0] == "405":
        cover("405")
        if allow_names(err[2]) != want[1]:
            return "405 with allowed %r, registered %r" % (err[2], want[1])
    else:
        cover("404")
    return None


def judge(app, shape, tables, live, calls, verb, path, level, wire=None):
    """Compare with the expected outcome for `verb` (the request is sent with `wire` if the application itself
    replaces the verb before routing); where the outcome depends on a wildcard binding the empty string either is
    accepted."""
    matched = verdicts(shape["rules"], live, path)
    strict = expected(tables, select(shape["rules"], matched, False), fold(verb))
    lenient = expected(tables, select(shape["rules"], matched, True), fold(verb))
    if level == "wsgi":
        got = request(app, verb if wire is None else wire, path)
        r = judge_wsgi(got, calls, strict)
        if r and lenient != strict:
            cover("empty-wildcard-tolerated")
            r = judge_wsgi(got, calls, lenient)
    else:
        r = judge_router(app, path, fold(verb), strict)
        if r and lenient != strict:
            cover("empty-wildcard-tolerated")
            r = judge_router(app, path, fold(verb), lenient)
    return r and "%s %r (%s): %s" % (verb, path, level, r)    # formatted on failure only: repr of a symbolic str is costly


# ---------------------------------------------------------------- query makers
def make_table(shape, paths, verbs, style, level):
    """Symbolic: the method bitmap (all routes derive theirs from it), verb index, path index."""
    nroutes = len(shape["rules"])

    def q(get: bool, head: bool, post: bool, put: bool, any_: bool, vi: int, pi: int):
        assume(0 <= vi < len(verbs) and 0 <= pi < len(paths))
        bits = [get, head, post, put, any_]
        calls = []
        app, tables, live = build(shape, [derived_bits(bits, r) for r in range(nroutes)], style, calls)
        return judge(app, shape, tables, live, calls, verbs[vi], paths[pi], level)
    return q


def make_override(shape, paths, wire_verbs, new_verbs, read_first, via):
    """Symbolic: the method bitmap, the verb on the wire, the verb a before_request hook puts in its place (the
    X-HTTP-Method-Override recipe) and the path index. The hook first reads request.method if read_first, then sets
    the verb through the documented setter request[...] (via "setitem") or in request.environ (via "environ").
    Dispatch must follow the verb in force when routing happens, i.e. the new one."""
    nroutes = len(shape["rules"])

    def q(get: bool, head: bool, post: bool, put: bool, any_: bool, wi: int, vi: int, pi: int):
        assume(0 <= wi < len(wire_verbs) and 0 <= vi < len(new_verbs) and 0 <= pi < len(paths))
        bits = [get, head, post, put, any_]
        calls = []
        app, tables, live = build(shape, [derived_bits(bits, r) for r in range(nroutes)], "upper", calls)
        seen = []

        def hook():
            if read_first:
                seen.append(app.request.method)
            if via == "setitem":
                app.request["REQUEST_METHOD"] = new_verbs[vi]
            else:
                app.request.environ["REQUEST_METHOD"] = new_verbs[vi]
        app.add_hook("before_request", hook)
        if fold(wire_verbs[wi]) != fold(new_verbs[vi]):
            cover("verb-changed")
        r = judge(app, shape, tables, live, calls, new_verbs[vi], paths[pi], "wsgi", wire=wire_verbs[wi])
        return r and "sent as %s, verb set to %s by a before_request hook (%s): %s" % (
            wire_verbs[wi], new_verbs[vi], "after reading request.method = %r" % (seen,) if read_first else "unread", r)
    return q


def make_edit(shape, r, path, verbs, mode, level, full):
    """Symbolic: bitmap of route r, then a second bitmap (full) or one method index of methods that are edited
    in the given mode, verb index. The other routes hold the complement bitmap and are not edited."""
    nroutes = len(shape["rules"])
    rule = render(shape["rules"][r], shape["flavour"])

    def q(get: bool, head: bool, post: bool, put: bool, any_: bool,
          e0: bool, e1: bool, e2: bool, e3: bool, e4: bool, j: int, vi: int):
        assume(0 <= vi < len(verbs))
        if full:
            assume(j == 0)
            second = [e0, e1, e2, e3, e4]
        else:
            assume(0 <= j < 5 and not (e0 or e1 or e2 or e3 or e4))
            second = [k == j for k in range(5)]
        bits = [get, head, post, put, any_]
        calls = []
        bitmaps = [bits if k == r else [not b for b in bits] for k in range(nroutes)]
        app, tables, live = build(shape, bitmaps, "upper", calls)
        # serve the request (and one with an unregistered verb, i.e. 405 unless ANY) BEFORE the edit as well: anything
        # derived from the method table and cached at first use (e.g. the Allow string) must follow later edits
        for probe in (verbs[vi], "BREW"):
            pre = judge(app, shape, tables, live, calls, probe, path, level)
            if pre:
                return "before the edit: " + pre
            del calls[:]
        for i in range(5):
            if second[i]:
                failed = edit(app, rule, tables[r], r, i, mode, calls)
                if failed:
                    return failed
        if tables[r]:
            live[r] = True      # the rule may have been created by the second registration
        elif live[r]:
            cover("emptied")
        return judge(app, shape, tables, live, calls, verbs[vi], path, level)
    return q


def fixed_bitmaps(nroutes):
    """route 0: POST+PUT, route 1: GET, route 2: HEAD+ANY"""
    return [[False, False, True, True, False], [True, False, False, False, False],
            [False, True, False, False, True]][:nroutes]


def make_split(shape, verbs, n, level, strip_mode):
    """Symbolic: the whole path and the verb index; `strip` empties route 0 by removing its methods
    (strip_mode: "no", "yes", or "any" = symbolic)."""
    nroutes = len(shape["rules"])
    rule0 = render(shape["rules"][0], shape["flavour"])

    def q(p: str, vi: int, strip: bool):
        assume(len(p) <= n and 0 <= vi < len(verbs) and (strip_mode == "any" or strip == (strip_mode == "yes")))
        if level == "wsgi":
            for c in p:
                assume(ord(c) < 128)
        calls = []
        app, tables, live = build(shape, fixed_bitmaps(nroutes), "mixed", calls)
        if level == "wsgi":      # keep the error page (html escaping of the symbolic URL, subject of C20) off the path
            app.error(404)(lambda err: "not found")
            app.error(405)(lambda err: "not allowed")
        if strip:
            app.router[{rule0}].remove_method(["POST", "PUT"])
            tables[0].clear()
        if match(shape["rules"][0], p) == 1:
            cover("route0")
        return judge(app, shape, tables, live, calls, verbs[vi], p, level)
    return q


def make_verb(shape, path, bitmap, n):
    """Symbolic: the request verb as a string of ASCII letters, through REQUEST_METHOD."""
    nroutes = len(shape["rules"])

    def q(v: str):
        assume(len(v) <= n)
        for c in v:
            assume(65 <= ord(c) <= 90 or 97 <= ord(c) <= 122)
        calls = []
        app, tables, live = build(shape, [bitmap] + fixed_bitmaps(nroutes)[1:], "lower", calls)
        if fold(v) != v and fold(v) in tables[0]:
            cover("case-folded-hit")
        return judge(app, shape, tables, live, calls, v, path, "wsgi")
    return q


# extension methods: any RFC 7230 token is a method name (M-SEARCH, VERSION-CONTROL and BASELINE-CONTROL are registered with
# IANA); since seed C02-k
EXT = ("M-SEARCH", "VERSION-CONTROL", "PATCH", "X_Y", "PROP.FIND", "BASELINE-CONTROL", "R2D2", "A+B")


def _ext_requests():
    out = []
    for name in EXT:
        parts = []
        cur = ""
        for c in name:
            if 65 <= ord(c) <= 90:
                cur += c
            else:
                if cur:
                    parts.append(cur)
                cur = ""
        if cur:
            parts.append(cur)
        for v in [name, name.lower(), name.capitalize(), "".join(parts)] + parts:
            if v not in out:
                out.append(v)
    return out + ["GET", "HEAD", "POST", "ANY"]


EXT_REQUESTS = _ext_requests()
EXT_STYLES = ("string", "lower-string", "decorator", "list", "list-with-post", "add_route-string")


def make_ext(style):
    """one route holding an extension method (name by solver index) registered in the given style, optionally GET / ANY
    next to it; request verb by solver index from the names, their other spellings, their letter runs and the usual verbs"""
    def q(i: int, j: int, with_get: bool, with_any: bool):
        assume(0 <= i < len(EXT))
        assume(0 <= j < len(EXT_REQUESTS))
        name, verb = EXT[i], EXT_REQUESTS[j]
        calls = []
        app = ombott.Ombott()
        h = make_handler("ext", calls)
        table = {name: "ext"}
        if style == "string":
            app.route("/e", method=name, callback=h)
        elif style == "lower-string":
            app.route("/e", name.lower(), h)
        elif style == "decorator":
            app.route("/e", method=name.capitalize())(h)
        elif style == "list":
            app.add_route("/e", [name], h)
        elif style == "list-with-post":
            app.add_route("/e", [name.lower(), "POST"], h)
            table["POST"] = "ext"
        else:
            app.add_route("/e", name, h)
        if with_get:
            app.route("/e", method="GET", callback=make_handler("get", calls))
            table["GET"] = "get"
        if with_any:
            app.route("/e", method="ANY", callback=make_handler("any", calls))
            table["ANY"] = "any"
        if fold(verb) == name:
            cover("ext-hit")
        return judge_wsgi(request(app, verb, "/e"), calls, expected([table], 0, fold(verb)))
    return q


def ext_queries(tier):
    out = []
    for style in (EXT_STYLES[:4] if tier == "quick" else EXT_STYLES):
        out.append(Q("ext/%s" % style, make_ext(style),
                     "route /e with one extension method of %r registered as %s, with / without GET and ANY next to it (solver "
                     "choices); REQUEST_METHOD one of %d spellings (the names, lower case, capitalised, their letter runs, "
                     "GET/HEAD/POST/ANY; solver index)" % (list(EXT), style, len(EXT_REQUESTS)),
                     timeout=200, expect_cover=["200", "405", "ext-hit"], family="ext", config={"style": style}))
    return out


# ---------------------------------------------------------------- query list
def table_queries(tier):
    T = tier == "thorough"
    styles = ["upper", "lower", "mixed", "list1", "shortcut"]
    groups = [SPELLINGS[0:4], SPELLINGS[4:8], SPELLINGS[8:12]]
    out = []
    for si, sh in enumerate(shapes(tier)):
        paths = sh["paths"][:5] if T else sh["paths"][:len(sh["rules"])]      # quick: one path per route
        for gi, verbs in enumerate(groups):
            style = styles[(si + gi) % len(styles)]
            level = "router" if T and gi == 2 and si % 2 else "wsgi"
            out.append(Q("table/%s/v%d" % (sh["tag"], gi), make_table(sh, paths, verbs, style, level),
                         "rules %s: every subset of %s on route 0 (symbolic bitmap; route 1 = complement, route 2 = rotated), "
                         "registered %s-style; verb in %s, path in %s (symbolic indices); observed at %s"
                         % ([render(s, sh["flavour"]) for s in sh["rules"]], "/".join(UNIVERSE), style, list(verbs), paths,
                            "Ombott.__call__" if level == "wsgi" else "Ombott.to_route"),
                         timeout=150 if not T else 500, expect_cover=["200", "405"], family="table",
                         config={"shape": sh["tag"], "verbs": list(verbs), "paths": paths, "style": style}))
    return out


def config_queries(tier):
    T = tier == "thorough"
    sh = shapes(tier)[0]
    out = []
    for name in APP_CONFIGS:
        if name == "default":
            continue
        for gi, verbs in enumerate([SPELLINGS[0:4], SPELLINGS[4:8], SPELLINGS[8:12]][:3 if T else 1]):
            paths = sh["paths"][:5] if T else sh["paths"][:len(sh["rules"]) + 1]
            out.append(Q("config/%s/%s/v%d" % (name, sh["tag"], gi), under_config(name, make_table(sh, paths, verbs, "upper", "wsgi")),
                         "as table/%s/v%d with the application built under configuration %r; verb in %s, path in %s"
                         % (sh["tag"], gi, name, list(verbs), paths),
                         timeout=150 if not T else 500, expect_cover=["200", "405"], family="config",
                         config={"shape": sh["tag"], "app": name, "verbs": list(verbs), "paths": paths}))
    return out


def edit_queries(tier):
    sh = shapes(tier)[0]
    verbs = ("GET", "head", "put", "FOO")
    out = []
    for mi, mode in enumerate(["remove", "overwrite", "handle", "again", "remove-list"]):
        if tier == "quick":
            out.append(Q("edit/%s/one" % mode, make_edit(sh, 0, "/a", verbs, mode, "wsgi", False),
                         "route /a of [/a, /<x0>]: every subset registered (symbolic bitmap), then one method (symbolic index) "
                         "edited by %r; verb in %s (symbolic index); path /a" % (mode, list(verbs)),
                         timeout=150, expect_cover=["200", "405"], family="edit", config={"mode": mode}))
            continue
        for vi, verb in enumerate(("GET", "head", "FOO")):
            r = (mi + vi) % 2
            level = "wsgi" if vi % 2 == 0 else "router"
            out.append(Q("edit/%s/full/%s" % (mode, verb), make_edit(sh, r, ["/a", "/b"][r], [verb], mode, level, True),
                         "route %d of [/a, /<x0>]: every subset registered, then every subset edited by %r (two symbolic "
                         "bitmaps); verb %s; path %s; observed at %s" % (r, mode, verb, ["/a", "/b"][r], level),
                         timeout=400, expect_cover=["200", "405"], family="edit", config={"mode": mode, "verb": verb}))
    # the same edits through the by-name lookup, the name given on every registration / on a later registration only
    for naming in ("every", "later"):
        for mode in (["remove", "handle"] if tier == "quick" else ["remove", "handle", "remove-list", "overwrite"]):
            out.append(Q("edit-named-%s/%s/one" % (naming, mode), with_naming(naming, make_edit(sh, 0, "/a", verbs, mode, "wsgi", False)),
                         "as edit/%s/one, route r registered with name='route<r>' on %s, the edit made through router[name]"
                         % (mode, "every registration" if naming == "every" else "the second and later registrations only"),
                         timeout=150, expect_cover=["200", "405"], family="edit-named", config={"mode": mode, "naming": naming}))
    return out


def split_queries(tier):
    few = ("GET", "put", "FOO")
    if tier == "quick":
        plan = [("wsgi", 4, few, "no"), ("router", 4, few, "yes")]
    else:
        plan = [("wsgi", 4, ("GET", "head", "put", "FOO"), "any"), ("router", 5, few, "any")]
    out = []
    for si, sh in enumerate(shapes(tier)[:9]):
        for level, n, verbs, strip_mode in plan[:2 if si < 5 else 1]:
            out.append(Q("split/%s/%s/n%d" % (sh["tag"], level, n), make_split(sh, verbs, n, level, strip_mode),
                         "rules %s with fixed method sets (POST+PUT | GET | HEAD+ANY; methods of route 0 removed again: %s); "
                         "path = any string of length <= %d (%s), verb in %s (symbolic index); observed at %s"
                         % ([render(s, sh["flavour"]) for s in sh["rules"]], strip_mode, n,
                            "code points < 128" if level == "wsgi" else "any code point", list(verbs),
                            "Ombott.__call__" if level == "wsgi" else "Ombott.to_route"),
                         timeout=200 if tier == "quick" else 900, expect_cover=["200", "405", "404", "route0"],
                         family="split", config={"shape": sh["tag"], "n": n, "level": level, "verbs": list(verbs)}))
    return out


def verb_queries(tier):
    sh = shapes(tier)[0]
    if tier == "quick":
        plan = [("get-put", [True, False, False, True, False], 3)]
    else:
        plan = [("get-any", [True, False, False, False, True], 4), ("head-put", [False, True, False, True, False], 4),
                ("get-post", [True, False, True, False, False], 4)]
    out = []
    for tag, bitmap, n in plan:
        out.append(Q("verb/%s/n%d" % (tag, n), make_verb(sh, "/a", bitmap, n),
                     "route /a with %s registered in lower case; REQUEST_METHOD = any string of ASCII letters of length <= %d "
                     "(symbolic); path /a" % ([m for m, b in zip(UNIVERSE, bitmap) if b], n),
                     timeout=250 if tier == "quick" else 900,
                     expect_cover=["200", "case-folded-hit"] + (["405"] if not bitmap[4] else []),
                     family="verb", config={"table": tag, "n": n}))
    return out


def override_queries(tier):
    T = tier == "thorough"
    wire = ("GET", "head", "FOO") if not T else ("GET", "head", "POST", "FOO")
    new = ("get", "HEAD", "put", "FOO") if not T else ("get", "HEAD", "put", "DELETE", "any", "FOO")
    plan = [(0, True, "setitem"), (1, False, "environ")]
    if T:
        plan = [(0, True, "setitem"), (0, True, "environ"), (0, False, "setitem"), (0, False, "environ"),
                (1, True, "setitem"), (2, True, "environ")]
    out = []
    for si, read_first, via in plan:
        sh = shapes(tier)[si]
        paths = sh["paths"][:2]
        out.append(Q("override/%s/%s-%s" % (sh["tag"], "read" if read_first else "unread", via),
                     make_override(sh, paths, wire, new, read_first, via),
                     "rules %s: every subset on route 0 (symbolic bitmap, other routes derived as in `table`); request sent "
                     "with a verb in %s; a before_request hook %s and sets the verb to one in %s through %s (symbolic "
                     "indices); path in %s; dispatch must follow the verb set by the hook; observed at Ombott.__call__"
                     % ([render(s, sh["flavour"]) for s in sh["rules"]], list(wire),
                        "reads request.method" if read_first else "does not read request.method", list(new),
                        "request['REQUEST_METHOD'] = v" if via == "setitem" else "request.environ['REQUEST_METHOD'] = v",
                        paths),
                     timeout=200 if not T else 500, expect_cover=["200", "405", "verb-changed"], family="override",
                     config={"shape": sh["tag"], "read_first": read_first, "via": via}))
    return out


def queries(tier):
    """Families interleaved, so that a run cut by the wall budget still holds queries of each family."""
    families = [table_queries(tier), edit_queries(tier), split_queries(tier), verb_queries(tier), override_queries(tier),
                config_queries(tier), ext_queries(tier)]
    out = []
    while any(families):
        for fam in families:
            if fam:
                out.append(fam.pop(0))
    return out


# warm the module-level caches of ombott (error page template) before any analysis starts
def _warm():
    sh = shapes("quick")[0]
    calls = []
    app = build(sh, fixed_bitmaps(2), "upper", calls)[0]
    for verb, path in (("PUT", "/a"), ("PUT", "/b"), ("GET", "/a/b")):
        request(app, verb, path)


_warm()


def selftest(tier):
    # the reference matcher and dispatch rule on hand-computed cases
    rules = [("a", "b"), (W, "b"), ()]
    for path, want in (("/a/b", 0), ("c/b/", 1), ("//", 2), ("", 2), ("/a", None), ("/a/b/c", None), ("a//b", None)):
        assert select(rules, verdicts(rules, [True] * 3, path), False) == want, (path, want)
    assert select(rules, verdicts(rules, [False, True, True], "/a/b"), False) == 1
    assert verdicts([("a", W, "b")], [True], "/a//b") == [2]
    assert dispatch({"GET": 1, "ANY": 2}, "HEAD") == 1 and dispatch({"GET": 1, "ANY": 2, "HEAD": 3}, "HEAD") == 3
    assert dispatch({"GET": 1, "ANY": 2}, "POST") == 2 and dispatch({"GET": 1}, "POST") is None
    assert fold("gEt") == "GET" and all(fold(s) == s.upper() for s in SPELLINGS)
    qs = {q.qid: q for q in queries(tier)}
    first = next(k for k in qs if k.startswith("table/lit-wild/v0"))
    cases = [(first, dict(get=True, head=False, post=False, put=False, any_=False, vi=1, pi=0), "ok"),
             (first, dict(get=False, head=False, post=True, put=False, any_=False, vi=0, pi=0), "ok"),
             (first, dict(get=False, head=False, post=False, put=False, any_=False, vi=9, pi=0), "rejected")]
    # the repo's own test: GET and POST on one route, GET removed -> 405 for GET
    if tier == "quick":
        cases.append(("edit/remove/one", dict(get=True, head=False, post=True, put=False, any_=False, e0=False, e1=False,
                                              e2=False, e3=False, e4=False, j=0, vi=0), "ok"))
    return cases
