"""C10 - application objects in one process are independent of each other."""
from vf.engine import assume, cover
from vf.query import Q
from vf import stubs
from vf import instrument

import io

instrument.install("ombott")     # scheduling points in front of every ombott statement (used by the stmt/ family only)
import ombott                    # noqa: E402

PROPERTY = "C10"
TECHNIQUE = ("bounded symbolic execution of Ombott.__call__ / ts_props accessors / Request.copy (CrossHair+z3) over symbolic "
             "request data and handler writes, for enumerated arrangements of 2-3 applications (nested, alternating, copy, "
             "construction while serving, default app, simulated-thread interleaving)")
LEVEL_TEXT = ("For each enumerated arrangement the real framework code is executed with symbolic request data of every party "
              "(path segment, query string, cookie, header; <= 2 code points each) and symbolic handler writes (status from a "
              "small list, header value). Inside application A's handler the request/response views are recorded before and "
              "after the foreign activity (another app serving a request in the same or in another simulated thread, "
              "Request.copy() and edits of the copy, construction of a new Ombott); z3 decides every branch. Inside the "
              "bound: the views are unchanged and A's complete WSGI response equals the one A produces alone.")
LEVEL_NOTE = ("Trusted: z3, CrossHair str models, SimLocal/SimThreads stub for threading.local (contract: one namespace per "
              "object and simulated thread) in the interleaved arrangements, real threading.local elsewhere. Cross-thread "
              "arrangements preempt only at handler-callback boundaries, LIFO.")
FUNCTIONS = [
    "ombott.common_helpers:ts_props", "ombott.request_pkg.request:BaseRequest.__init__", "ombott.request_pkg.request:BaseRequest.copy",
    "ombott.request_pkg.request:BaseRequest.__setitem__", "ombott.response:BaseResponse.__init__", "ombott.ombott:Ombott.__init__",
    "ombott.ombott:Ombott._handle", "ombott.ombott:Ombott.wsgi", "ombott.ombott:Ombott._cast",
    "ombott.common_helpers:HeaderDict.__init__",
]
STUBS = ["SimLocal/SimThreads for `threading` inside ombott.common_helpers (arrangement 'threads' and family stmt/ only)",
         "vf.instrument: ombott compiled from its current source with a scheduling point in front of every statement of "
         "every function body (no-op except in family stmt/)"]
ASSUMPTIONS = ["the reference 'A alone' is computed on a separate, freshly built application before the arrangement starts"]
OUTSIDE = ["arrangements other than the enumerated ones", "request text longer than 2 code points / non-ASCII path text",
           "thread switches inside one statement, non-LIFO interleavings (see C08)"]
BUDGET_S = {"quick": 240, "thorough": 1000}

STATUS = [200, 404]
COOKIES = ["", "v1"]
QUERIES = ["", "q=1&r=%20"]
ombott.error_render.render(ombott.HTTPError(500, "x"), "http://h/", False)


def env_for(path, qs, cookie, hdr, method="GET"):
    return {"REQUEST_METHOD": method, "PATH_INFO": path, "QUERY_STRING": qs, "HTTP_COOKIE": "c=" + cookie, "HTTP_X_IN": hdr,
            "SERVER_NAME": "h", "SERVER_PORT": "80", "wsgi.url_scheme": "http", "wsgi.errors": _Err(), "SERVER_PROTOCOL": "HTTP/1.1"}


class _Err:
    def __init__(self):
        self.buf = []

    def write(self, t):
        self.buf.append(t)


def call(app, env):
    got = []
    body = b"".join(app(env, lambda s, h, e=None: got.append((s, sorted(h)))))
    return got, body


def view(app):
    r = app.request
    return (r.path, r.query_string, r.method, r.get_cookie("c"), r.headers.get("X-In"), r.environ.get("PATH_INFO"),
            dict(r.query), r.url_args)


def rview(app):
    p = app.response
    return (p.status_code, p.headers.get("X-Out"), p.status_line, sorted((k, str(v)) for k, v in p.headers.items()),
            None if p._cookies is None else sorted(p._cookies))


def text_ok(*vals):
    """letters and digits only: URL / cookie / header syntax is the subject of C01, C15, C18, not of C10"""
    for v in vals:
        assume(len(v) <= 2)
        for ch in v:
            o = ord(ch)
            assume(48 <= o <= 57 or 97 <= o <= 122)


def build_A(foreign, obs, sA, hv, body="A-body", app=None):
    A = app or ombott.Ombott()
    if app is not None:                      # the module-level default application: drop routes of earlier paths
        A.router.__init__()

    @A.route("/a/:x")
    def hA(x):
        if stubs.SimThreads.cur != "T0":          # the same application entered from the other simulated thread
            A.response.headers["X-Out"] = "other-thread"
            return "A-in-T1:" + x
        obs.append(("before", view(A), x))
        A.response.status = sA
        A.response.headers["X-Out"] = hv
        obs.append(("rbefore", rview(A)))
        foreign(A)
        obs.append(("after", view(A), x))
        obs.append(("rafter", rview(A)))
        return body
    return A


def build_B(tag="B"):
    B = ombott.Ombott()

    @B.route("/b/:y")
    def hB(y):
        B.response.status = 201
        B.response.headers["X-Out"] = "from-" + tag
        B.response.set_cookie("kb", "vb")
        return tag + ":" + y + ":" + B.request.query_string
    return B


def check_obs(obs, want_view, want_r):
    """views recorded in A's handler before/after the foreign activity"""
    got = dict((k, v) for k, *v in obs)
    if "before" not in got or "after" not in got:
        return "handler of A did not complete: %r" % (obs,)
    if got["before"][0] != got["after"][0]:
        return "A.request changed under A's handler: before %r after %r" % (got["before"][0], got["after"][0])
    if got["before"][0][:6] != want_view:
        return "A.request shows %r, request was %r" % (got["before"][0][:6], want_view)
    if got["rbefore"][0] != got["rafter"][0]:
        return "A.response changed under A's handler: before %r after %r" % (got["rbefore"][0], got["rafter"][0])
    if got["rbefore"][0][:2] != want_r:
        return "A.response shows %r, handler wrote %r" % (got["rbefore"][0][:2], want_r)
    return None


def make(arrangement, wide=False):
    inner = _make(arrangement)
    if wide:      # thorough tier: B's path segment and A's query text symbolic as well
        def q(pa: str, qa: str, pb: str, si: int, hv: str):
            text_ok(pa, qa, pb, hv)
            assume(len(pa) == 1 and len(pb) == 1 and len(qa) <= 1 and len(hv) <= 1)
            return inner(pa, "q=" + qa, COOKIES[1], pb, si, hv)
    else:
        def q(pa: str, qi: int, ci: int, si: int, hv: str):
            text_ok(pa, hv)
            assume(len(pa) == 1 and len(hv) <= 1)
            assume(0 <= ci < len(COOKIES) and 0 <= qi < len(QUERIES))
            # (SimpleCookie's regexes on symbolic text cost ~100 paths per character: cookies come from a list)
            return inner(pa, QUERIES[qi], COOKIES[ci], "y", si, hv)
    return q


def _make(arrangement):
    def q(pa, qa, ca, pb, si, hv):
        ha, qb = "h" + ca, qa + "b"
        assume(0 <= si < len(STATUS))
        sA = STATUS[si]
        envA = lambda: env_for("/a/" + pa, qa, ca, ha)
        envB = lambda: env_for("/b/" + pb, qb, "cb", "hb")
        if arrangement.endswith("_json_error"):     # the foreign party produces a framework error page for a JSON client
            envB = lambda: dict(env_for("/nope/" + pb, qb, "cb", "hb"), HTTP_ACCEPT="application/json")
        want_view = ("/a/" + pa, qa, "GET", ca or None, ha, "/a/" + pa)
        if arrangement == "threads":
            stubs.install_sim_threads()
        # reference: A alone (no foreign activity), B alone
        ref_obs = []
        refA = call(build_A(lambda A: None, ref_obs, sA, hv), envA())
        refB = call(build_B(), envB())
        obs = []
        foreign_result = []

        if arrangement in ("nested", "nested_json_error"):
            B = build_B()
            foreign = lambda A: foreign_result.append(call(B, envB()))
        elif arrangement == "default_app":
            B = ombott.default_app()
            if not B.router.resolve("/b/x"):
                B.route("/b/:y", callback=lambda y: "D:" + y)
            foreign = lambda A: foreign_result.append(call(B, envB())[0][0][0])
        elif arrangement == "copy":
            def foreign(A):
                c = A.request.copy()
                c["PATH_INFO"] = "/zz"
                c["QUERY_STRING"] = "z=1"
                c["HTTP_COOKIE"] = "c=zz"
                foreign_result.append((c.path, c.query_string))
        elif arrangement == "construct":
            def foreign(A):
                foreign_result.append(ombott.Ombott())
        elif arrangement == "construct_request":
            def foreign(A):
                foreign_result.append((ombott.Request({"PATH_INFO": "/new"}), ombott.Response()))
        elif arrangement == "threads":
            B = build_B()

            def foreign(A):
                stubs.SimThreads.cur = "T1"
                try:
                    foreign_result.append(call(B, envB()))
                    foreign_result.append(call(A, env_for("/a/" + pb, qb, "cb", "hb"))[0][0][0][:3])   # same app, other thread
                finally:
                    stubs.SimThreads.cur = "T0"
        elif arrangement in ("alternating", "shared_errors_map", "status_phrase", "signed_cookies") or arrangement.startswith("default_outer"):
            foreign = lambda A: None         # (default_outer*: set below, the default application is the outer party)
        else:
            raise ValueError(arrangement)

        if arrangement == "status_phrase":
            # application A answers with a status code unknown to http.client and a reason phrase of its own; application
            # B then answers with the same code as a bare int: B's status line is what B alone shows for such a code
            # (reference: the neighbouring unknown code on an application of its own, served BEFORE A's phrase exists)
            def status_app(value):
                app = ombott.Ombott()

                def h():
                    app.response.status = value
                    return (app.response.status_line or "") + "|" + str(app.response.status_code)
                app.route("/s", callback=h)
                return app
            code, other = (520, 521) if si == 0 else (598, 597)
            ref = call(status_app(other), env_for("/s", "", "c", "h"))
            ra = call(status_app("%d Phrase-of-A-%s" % (code, pa)), env_for("/s", "", "c", "h"))
            rb = call(status_app(code), env_for("/s", "", "c", "h"))
            want = (ref[0][0][0].replace(str(other), str(code)), ref[1].replace(str(other).encode(), str(code).encode()))
            if (rb[0][0][0], rb[1]) != want:
                return "application B set status %d and shows %r / %r after application A used a phrase of its own; alone %r" % (
                    code, rb[0][0][0], rb[1], want)
            if not ra[0][0][0].startswith("%d Phrase-of-A-" % code):
                return "application A lost its own reason phrase: %r" % (ra[0][0][0],)
            cover("ok")
            return None
        if arrangement == "signed_cookies":
            # two applications keep signed cookies under secrets of their own; a client sends the cookie one of them issued
            # to both (same host, other port): the issuer reads its value, the other one - which cannot verify it - reads
            # what it reads when it is alone in the process (the default), in whatever order they are asked
            secA, secB = [("sec-A", "sec-B"), ("k", "kk")][si]

            def cookie_app(secret):
                app = ombott.Ombott()

                def issue(v):
                    app.response.set_cookie("s", v, secret=secret)
                    return "issued"

                def read(z):
                    return repr((app.request.get_cookie("s", "nothing", secret=secret), app.request.get_cookie("s")))
                app.route("/issue/:v", callback=issue)
                app.route("/read/:z", callback=read)
                return app

            def cookie_from(result):
                for k, v in result[0][0][1]:
                    if k == "Set-Cookie":
                        return v.split(";")[0]
                return None

            def read(app, cookie):
                env = env_for("/read/" + pa, qa, "", ha)
                env["HTTP_COOKIE"] = cookie
                return call(app, env)
            value = "val" + ca
            issuedA = cookie_from(call(cookie_app(secA), env_for("/issue/" + value, "", "", "")))
            issuedB = cookie_from(call(cookie_app(secB), env_for("/issue/" + value, "", "", "")))
            if not issuedA or not issuedB:
                return "no cookie issued"
            # (the readers that cannot verify come first: nothing in the process has verified either cookie by then)
            ref = {("B", "A"): read(cookie_app(secB), issuedA), ("A", "B"): read(cookie_app(secA), issuedB),
                   ("A", "A"): read(cookie_app(secA), issuedA), ("B", "B"): read(cookie_app(secB), issuedB)}
            if b"nothing" in ref["A", "A"][1] or b"nothing" in ref["B", "B"][1] or b"nothing" not in ref["B", "A"][1]:
                return "alone: %r" % (ref,)
            apps = {"A": cookie_app(secA), "B": cookie_app(secB)}
            order = [[("A", "A"), ("B", "A"), ("B", "B"), ("A", "B")], [("B", "A"), ("A", "A"), ("A", "B"), ("B", "B")]][len(hv) % 2]
            for who, whose in order + order:
                got = read(apps[who], issuedA if whose == "A" else issuedB)
                if got != ref[who, whose]:
                    return "application %s was sent the cookie issued by application %s and answered %r; alone in the process %r" % (
                        who, whose, got, ref[who, whose])
            cover("ok")
            return None
        if arrangement == "shared_errors_map":
            # two applications with the default configuration: DefaultConfig.errors_map (and the HTTPError objects in it)
            # is shared by every application of the process; A answers a malformed body for a JSON client, then B for a browser
            def body_app(cfg=None):
                app = ombott.Ombott(cfg)
                app.route("/up/:z", method="POST", callback=lambda z: app.request.body.read())
                return app

            def bad(seg, accept):
                import io
                env = env_for("/up/" + seg, "", "c", "h", method="POST")
                env.update({"HTTP_TRANSFER_ENCODING": "chunked", "wsgi.input": io.BytesIO(b"zz\r\n")})
                if accept:
                    env["HTTP_ACCEPT"] = accept
                return env
            ref = call(body_app(), bad(pb, None))
            ref_json = call(body_app(), bad(pb, "application/json"))
            # A runs with default settings or in debug mode (status index picks): what A's error handling notes about
            # its own failure (traceback, exception) must not show in B's answers
            ra = call(body_app({"debug": True} if si else None), bad(pa + qa + hv + "-longer", "application/json"))
            rb = call(body_app(), bad(pb, None))
            rb_json = call(body_app(), bad(pb, "application/json"))
            if rb != ref:
                return "application B answered %r after application A served a malformed body; alone %r" % (rb, ref)
            if rb_json != ref_json:
                return "application B answered a JSON client %r after application A (debug %r) served a malformed body; alone %r" % (
                    rb_json, bool(si), ref_json)
            for got, body in (ra, rb):
                st, hd = got[0]
                for k, v in hd:
                    if k == "Content-Length" and int(v) != len(body):
                        return "Content-Length %s for %d body bytes (%s)" % (v, len(body), st)
            if ref[0][0][0][:3] != "400":
                return "malformed chunked body answered %r" % (ref[0],)
            cover("ok")
            return None
        if arrangement == "alternating":
            A = build_A(foreign, obs, sA, hv)
            B = build_B()
            r1 = call(A, envA())
            r2 = call(B, envB())
            r3 = call(A, envA())
            if r1 != refA or r3 != refA:
                return "alternating A,B,A: A's responses %r / %r, alone %r" % (r1, r3, refA)
            if r2 != refB:
                return "alternating A,B,A: B's response %r, alone %r" % (r2, refB)
            cover("ok")
            return None
        outer = ombott.default_app() if arrangement.startswith("default_outer") else None
        if outer is not None:
            B = build_B()
            foreign = lambda A: foreign_result.append(call(B, envB()))
            refA = call(build_A(lambda A: None, [], sA, hv, app=outer), envA())
        A = build_A(foreign, obs, sA, hv, app=outer)
        got = call(A, envA())
        r = check_obs(obs, want_view, (sA, hv))
        if r:
            return "%s: %s" % (arrangement, r)
        if got != refA:
            return "%s: A's response %r, A alone %r" % (arrangement, got, refA)
        if arrangement in ("nested", "threads", "nested_json_error", "default_outer", "default_outer_json_error") \
                and foreign_result[0] != refB:
            return "%s: B's response %r, B alone %r" % (arrangement, foreign_result[0], refB)
        cover("ok")
        return None
    return q


# ---------------------------------------------------------------- request bodies of two applications
MP_HEAD = b'--b\r\nContent-Disposition: form-data; name="f"; filename="f.bin"\r\n\r\n'
MP_TAIL = b"\r\n--b--\r\n"


def make_bodies(kind, threshold):
    """application A reads its request body (raw / an uploaded file), serves a request with a body of its own through
    application B (nested call, same thread) and reads its own body again: both lengths are solver variables on either
    side of the in-memory threshold"""
    def q(la: int, lb: int, chunked_b: bool):
        assume(0 <= la <= 12 and 0 <= lb <= 12)
        for k in range(13):             # one path per length (slicing by a symbolic int makes bytes of symbolic length)
            if la == k:
                la = k
            if lb == k:
                lb = k
        chunked_b = bool(chunked_b)
        dataA, dataB = b"AAAAAAAAAAAA"[:la], b"bbbbbbbbbbbb"[:lb]
        A = ombott.Ombott({"max_memfile_size": threshold})
        B = ombott.Ombott({"max_memfile_size": threshold})
        seen = []

        def post(path, payload, upload, chunked=False):
            body = MP_HEAD + payload + MP_TAIL if upload else payload
            env = env_for(path, "", "c", "h", "POST")
            if upload:
                env["CONTENT_TYPE"] = "multipart/form-data; boundary=b"
            if chunked:
                env["HTTP_TRANSFER_ENCODING"] = "chunked"
                body = (b"%x\r\n" % len(body) + body + b"\r\n" if body else b"") + b"0\r\n\r\n"
            else:
                env["CONTENT_LENGTH"] = str(len(body))
            env["wsgi.input"] = io.BytesIO(body)
            return env

        def read(app):
            if kind == "raw":
                return app.request.body.read()
            f = app.request.files["f"]
            f.file.seek(0)
            return f.file.read()

        B.route("/b", method="POST", callback=lambda: read(B))

        def hA():
            first = read(A)
            inner = call(B, post("/b", dataB, kind == "upload", bool(chunked_b)))
            seen.append((first, inner[1], read(A)))
            return seen[0][2]
        A.route("/a", method="POST", callback=hA)
        got, out = call(A, post("/a", dataA, kind == "upload"))
        if len(seen) != 1:
            return "handler of A ran %d times: %r" % (len(seen), got)
        first, inner, second = seen[0]
        if first != dataA or second != dataA:
            return "A sent %r: its handler read %r before and %r after B served a request with body %r" % (dataA, first, second, dataB)
        if inner != dataB:
            return "B was sent %r and returned %r" % (dataB, inner)
        if out != dataA:
            return "A's response body %r, its request body was %r" % (out, dataA)
        extra = len(MP_HEAD) + len(MP_TAIL) if kind == "upload" else 0
        cover("spilled-both" if la + extra > threshold and lb + extra > threshold else "other")
        return None
    return q


# ---------------------------------------------------------------- another application gets settings of its own
def make_other_config(when):
    """application A runs with default settings; another application is constructed / set up with settings of its own
    (own errors_map entries, limits, debug) before A serves or while A's handler runs: A's answers to good and bad request
    bodies are those of A alone"""
    from ombott.request_pkg.errors import BodySizeError, BodyParsingError, RequestError
    own = [
        {"errors_map": {BodySizeError: ombott.HTTPError(507, "B: quota"), BodyParsingError: ombott.HTTPError(422, "B: unreadable"),
                        RequestError: ombott.HTTPError(409, "B: no")}},
        {"errors_map": {BodySizeError: ombott.HTTPError(507, "B: quota")}, "max_body_size": 0, "debug": True},
        {"max_body_size": 1, "max_memfile_size": 1, "catchall": False, "debug": True, "app_name_header": "X-B",
         "domain_map": lambda host: "b"},
    ]

    def q(li: int, ci: int, chunked: bool, via_setup: bool):
        assume(0 <= li <= 5 and 0 <= ci < len(own))
        for k in range(6):
            if li == k:
                li = k
        data = b"abcde"[:li]

        def make_A():
            A = ombott.Ombott({"max_body_size": 3})
            seen = []

            def h():
                if when == "while":
                    configure()
                seen.append(A.request.body.read())
                return b"got:" + seen[-1]
            A.route("/a", method="POST", callback=h)
            return A, seen

        def configure():
            if via_setup:
                B = ombott.Ombott()
                B.setup(own[ci])
            else:
                B = ombott.Ombott(own[ci])
            return B

        def send(A):
            env = env_for("/a", "", "c", "h", "POST")
            if chunked:
                env["HTTP_TRANSFER_ENCODING"] = "chunked"
                env["wsgi.input"] = io.BytesIO((b"%x\r\n" % len(data) + data + b"\r\n" if data else b"") + b"0\r\n" + (b"\r\n" if li != 4 else b""))
            else:
                env["CONTENT_LENGTH"] = str(len(data))
                env["wsgi.input"] = io.BytesIO(data)
            return call(A, env)
        skip, configure_real = configure, configure
        configure = lambda: None                    # reference: A alone
        A0, seen0 = make_A()
        ref = send(A0), list(seen0)
        configure = configure_real
        if when == "before":
            configure()
        A, seen = make_A()
        got = send(A), list(seen)
        if got != ref:
            return ("another application was %s with settings of its own %s: application A answered %r (handler saw %r), "
                    "alone %r (%r)" % ("constructed" if not via_setup else "set up", "before A served" if when == "before" else
                                       "while A's handler ran", got[0], got[1], ref[0], ref[1]))
        cover(got[0][0][0][0][:3])
        return None
    return q


# ---------------------------------------------------------------- another application in another thread, any statement
class StmtSched:
    """in front of statement k that thread T0 executes inside ombott (while application A serves), thread T1 serves a
    whole request with another application"""

    def __init__(self, k, B, envB):
        self.k, self.B, self.envB = k, B, envB
        self.count = 0
        self.result = None

    def __call__(self):
        if stubs.SimThreads.cur != "T0":
            return
        self.count += 1
        if self.count == self.k:
            stubs.SimThreads.cur = "T1"
            try:
                self.result = call(self.B, self.envB)
            finally:
                stubs.SimThreads.cur = "T0"


def stmt_run(kindB, k):
    stubs.install_sim_threads()
    obs = []
    A = build_A(lambda A: None, obs, 404, "hv")
    B = build_B()
    envB = env_for("/b/y", "q=b", "cb", "hb")
    if kindB == "json_error":
        envB = dict(env_for("/nope/y", "q=b", "cb", "hb"), HTTP_ACCEPT="application/json")
    st = StmtSched(k, B, envB)
    instrument.set_hook(st)
    try:
        resA = call(A, env_for("/a/x", "q=1&r=%20", "v1", "hv1"))
    finally:
        instrument.set_hook(None)
    return resA, obs, st


def make_stmt(kindB):
    refA, ref_obs, st0 = stmt_run(kindB, 0)
    n0 = st0.count
    refB = stmt_run(kindB, 1)[2].result               # B served before A's first statement: B alone, as far as B can tell
    assert 0 < n0 < 2 ** 11 and refB is not None

    def q(b0: bool, b1: bool, b2: bool, b3: bool, b4: bool, b5: bool, b6: bool, b7: bool, b8: bool, b9: bool, b10: bool):
        k = 0
        for i, b in enumerate((b0, b1, b2, b3, b4, b5, b6, b7, b8, b9, b10)):
            if b:
                k += 1 << i
        assume(1 <= k <= n0)
        resA, obs, st = stmt_run(kindB, k)
        if st.result is None:
            return "statement %d of %d not reached" % (k, n0)
        cover("ok")
        if resA != refA or obs != ref_obs:
            return ("application B served a request in thread T1 in front of statement %d of %d of A's request: A answered %r "
                    "and its handler saw %r; alone %r and %r" % (k, n0, resA, obs, refA, ref_obs))
        if st.result != refB:
            return "application B (thread T1, in front of statement %d of A's request) answered %r, alone %r" % (k, st.result, refB)
        return None
    return q, n0


ARR = ["nested", "nested_json_error", "copy", "construct", "construct_request", "default_app", "default_outer",
       "default_outer_json_error", "alternating", "shared_errors_map", "status_phrase", "signed_cookies", "threads"]


def queries(tier):
    out = []
    for a in ARR:
        out.append(Q("arr/%s" % a, make(a),
                     "arrangement %r; A's path segment (1 character) and the header value written by A's handler (<= 1 "
                     "character): every ASCII letter or digit; A's cookie from %r, query string from %r, status written from %r; "
                     "B's request derived from A's" % (a, COOKIES, QUERIES, STATUS),
                     timeout=200 if tier == "quick" else 600, per_path_timeout=40, expect_cover=["ok"], family="arrangement"))
    for kindB in ("ok", "json_error"):
        fn, n0 = make_stmt(kindB)
        out.append(Q("stmt/%s" % kindB, fn,
                     "application A serves a concrete request in thread T0; in front of statement k of the ombott code it "
                     "executes (every k in 1..%d; scheduling points inserted from the current source) application B serves a "
                     "%s request in simulated thread T1" % (n0, "routed" if kindB == "ok" else "404 (JSON client)"),
                     timeout=500, per_path_timeout=40, expect_cover=["ok"], family="stmt", config={"statements": n0}))
    for when in ("before", "while"):
        out.append(Q("otherconfig/%s" % when, make_other_config(when),
                     "application A (default settings but max_body_size 3) is sent bodies of 0..5 bytes (Content-Length or chunked, "
                     "one of them truncated): another application is constructed / set up (solver bool) with one of 3 own "
                     "settings (own errors_map entries, limits, debug, domain_map) %s" % ("before A serves" if when == "before" else "inside A's handler"),
                     timeout=200, per_path_timeout=40, expect_cover=["200", "413"], family="otherconfig"))
    for kind in ("raw", "upload"):
        th = 8 if kind == "raw" else len(MP_HEAD) + len(MP_TAIL) + 5
        out.append(Q("bodies/%s" % kind, make_bodies(kind, th),
                     "nested call with request bodies on both sides (%s): payload lengths of A and B 0..12 each with "
                     "max_memfile_size %d (both sides of the in-memory threshold), B's body with Content-Length or chunked" % (kind, th),
                     timeout=200, per_path_timeout=40, expect_cover=["spilled-both", "other"], family="bodies"))
    if tier == "thorough":
        for a in ARR:
            out.append(Q("wide/%s" % a, make(a, wide=True),
                         "arrangement %r; path segments of A and B (1 character each), A's query value and the header value "
                         "written by A's handler (<= 1 character): every ASCII letter or digit; status written from %r" % (a, STATUS),
                         timeout=1000, per_path_timeout=60, expect_cover=["ok"], family="arrangement-wide"))
    return out


def selftest(tier):
    args = dict(pa="x", qi=1, ci=1, si=1, hv="v")
    return [("arr/alternating", args, "ok")]
