"""C17 - Range and conditional requests describe exactly the bytes delivered."""
import inspect
import os
import time
from email.utils import formatdate

from vf.engine import assume, cover
from vf.query import Q
from vf import stubs_c17

import mimetypes
from ombott.static_stream import static_file, get_first_range, _file_iter_range
from ombott.common_helpers import WSGIFileWrapper
from ombott.ombott import Globals

PROPERTY = "C17"
TECHNIQUE = ("bounded symbolic execution of get_first_range/_file_iter_range/static_file (CrossHair+z3) over symbolic file "
             "length, Range digits / free header text, method; differential against RFC 7233 first-range integer arithmetic")
LEVEL_TEXT = ("The real parser, streaming loop and header assembly are executed path-exhaustively: file length is a solver "
              "variable (0..3 MiB+2 at unit level; small files and files around 1..3 streaming buffers at static_file level), the "
              "Range header is 'bytes=A-B[,..]' with symbolic digit strings up to 7 digits and free ASCII text of bounded "
              "length, GET/HEAD is a solver boolean; If-Modified-Since dates are concrete (before/equal/after; three formats and "
              "a second process time zone in the thorough tier; the same "
              "instants also written with zone designators +0200/-0500/+0530/EST/+0000). "
              "On every path the answer is 416 or a 206 whose Content-Range, Content-Length and delivered chunks are the "
              "RFC 7233 slice of the first range, no chunk above the buffer; no Range: whole file, true length; date not older: "
              "304 without body; HEAD: same headers, no body. Bounded, not a proof.")
LEVEL_NOTE = ("Trusted: z3, CrossHair's str/int models, vf/chmodels int(text) model, the format(int) model and FakeFS/FakeFile "
              "in vf/stubs_c17 (validated against a real directory / digit arithmetic in the selftest), the reference arithmetic "
              "in this file. Exact demand (satisfiable => 206) only for canonical headers (lower-case 'bytes=', strict specs, no "
              "white space); other spellings (OWS around commas, empty list elements, 'Bytes=') count as near misses: 416 or a "
              "self-consistent 206 both pass. ombott answers 416 to some of those although RFC 7233 calls them valid.")
FUNCTIONS = [
    "ombott.static_stream:get_first_range",
    "ombott.static_stream:_file_iter_range",
    "ombott.static_stream:static_file",
    "ombott.common_helpers:parse_date",
    "ombott.common_helpers:WSGIFileWrapper.__iter__",
    "ombott.common_helpers:_hval",
    "ombott.response:BaseResponse.__init__",
]
STUBS = [
    "FakeFS (vf/stubs_c17): os.path.exists/isfile, os.access, os.stat, open, time.time as seen from ombott.static_stream; one "
    "regular readable file /srv/www/f.txt of symbolic length, concrete mtime",
    "FakeFile: read(k) returns min(k, rest) bytes as an opaque SizedPart(offset, len) (or real bytes in the wsgi family), "
    "b'' at EOF; seek(absolute)",
    "format(int, '') model (vf/stubs_c17): f-string of a symbolic int without realising it",
    "vf.chmodels int(text) model for the digits of the Range header (ASCII only)",
]
ASSUMPTIONS = [
    "a regular file returns exactly min(k, remaining) bytes per read(k); its length does not change between stat and read",
    "file content is opaque to static_file (only len()/truthiness of chunks are used) - SizedPart raises on anything else",
    "parse_date goes through time.mktime/time.timezone: the process time zone is set by each query (UTC, EST5EDT)",
    "mimetypes.guess_type / email.utils.formatdate run concretely on the fixed file name and mtime",
]
OUTSIDE = [
    "digit strings longer than 7, free header text longer than the stated length, non-ASCII characters in the header",
    "file lengths above 3*buffer+2; at static_file level the lengths between the two stated windows",
    "If-Modified-Since as a solver variable (concrete dates mtime-1s/mtime/mtime+1s only); time zones other than UTC/EST5EDT",
    "short reads from special files, files changing during the request, the server's own wsgi.file_wrapper",
    "non-canonical but RFC-valid spellings are only required to give 416 or a self-consistent 206",
    "an empty Range header value (treated by static_file like an absent header)",
]
BUDGET_S = {"quick": 270, "thorough": 1150}

mimetypes.init()                       # system tables are read once, outside the analysis
ROOT, NAME = "/srv/www", "f.txt"
PATH = ROOT + "/" + NAME
mimetypes.guess_type(PATH)
MAXREAD = inspect.signature(_file_iter_range).parameters["maxread"].default   # the streaming buffer
NMAX = 3 * MAXREAD + 2
MTIME_S = 1700000000


# ---------------------------------------------------------------- running the real code
def serve(n, method, rng=None, ims=None, mtime=float(MTIME_S)):
    stubs_c17.FakeFS({PATH: (n, mtime, None)}).install()
    env = {"REQUEST_METHOD": method}
    if rng is not None:
        env["HTTP_RANGE"] = rng
    if ims is not None:
        env["HTTP_IF_MODIFIED_SINCE"] = ims
    Globals.request.__init__(env)
    return static_file(NAME, ROOT)


# ---------------------------------------------------------------- reference semantics (RFC 7233 2.1, 4.4)
def digits_value(s):
    """value of a non-empty string of ASCII digits, else None"""
    if len(s) == 0:
        return None
    v = 0
    for ch in s:
        c = ord(ch)
        if not 48 <= c <= 57:
            return None
        v = v * 10 + (c - 48)
    return v


def clip(first, last, n):
    """first/last: int or None as in `first-last`, `first-`, `-last`.
    -> ('slice', a, b) half open | ('unsat',) | ('junk',)"""
    if first is None and last is None:
        return ("junk",)
    if first is None:                      # suffix-byte-range-spec: the last `last` bytes
        if last == 0 or n == 0:
            return ("unsat",)
        return ("slice", n - last if last < n else 0, n)
    if last is not None and last < first:  # "invalid if the last-byte-pos value is present and less than the first"
        return ("junk",)
    if first >= n:
        return ("unsat",)
    if last is None or last >= n:
        return ("slice", first, n)
    return ("slice", first, last + 1)


def spec_of(elem):
    """strict byte-range-spec / suffix-byte-range-spec -> (first, last) else None"""
    dash = -1
    for i, ch in enumerate(elem):
        if ch == "-":
            dash = i
            break
    if dash < 0:
        return None
    a, b = elem[:dash], elem[dash + 1:]
    first = digits_value(a)
    last = digits_value(b)
    if (first is None and len(a) > 0) or (last is None and len(b) > 0):
        return None
    if first is None and last is None:
        return None
    return first, last


def reference(range_set, n):
    """range_set: the text after 'bytes='.  The exact demand (satisfiable => 206 with the clipped slice, unsatisfiable
    => 416) is made for canonical headers only: every comma separated element is a strict spec, no white space.
    Anything else is a near miss ('junk'): 416 and a self-consistent 206 are both accepted."""
    first = None
    start = 0
    for i in range(len(range_set) + 1):
        if i == len(range_set) or range_set[i] == ",":
            sp = spec_of(range_set[start:i])
            if sp is None:
                return ("junk",)
            if first is None:
                first = sp
            start = i + 1
    return clip(first[0], first[1], n)


# ---------------------------------------------------------------- oracles
def judge_parse(got, n, want):
    """get_first_range alone: static_file answers 416 iff the result is falsy, else serves [start, end)"""
    if not got:
        if want[0] == "slice":
            return "satisfiable range (bytes %r..%r of %r) reported unsatisfiable" % (want[1], want[2] - 1, n)
        cover("none")
        return None
    a, b = got
    if want[0] == "unsat":
        return "unsatisfiable range parsed as [%r,%r) of %r" % (a, b, n)
    if want[0] == "slice":
        cover("slice")
        if (a, b) != (want[1], want[2]):
            return "parsed [%r,%r), RFC 7233 slice is [%r,%r) of %r" % (a, b, want[1], want[2], n)
    elif not 0 <= a < b <= n:
        return "near-miss header parsed as [%r,%r) outside a file of %r bytes" % (a, b, n)
    return None


def delivered(body):
    """-> (chunks, problem): the body as a WSGI server consumes it: iterate, or read the file object to its end"""
    if isinstance(body, str):
        return [], (None if body == "" else "text body %r" % (body,))
    if hasattr(body, "read"):
        if body.pos != 0:
            return [], "file object handed over at position %r" % (body.pos,)
        part = body.read()
        return ([part] if part else []), None
    return list(body), None


def check_chunks(parts, limit):
    """contiguity and the buffer bound; -> (a, b, problem)"""
    a = parts[0].start
    off = a
    for p in parts:
        if p.start != off:
            return a, off, "delivered bytes not contiguous: chunk at %r, expected %r" % (p.start, off)
        if len(p) > limit:
            return a, off, "chunk of %r bytes exceeds the streaming buffer %r" % (len(p), limit)
        off = off + len(p)
    return a, off, None


def judge_range(resp, n, want):
    code = resp.status_code
    if code == 416:
        if want[0] == "slice":
            return "satisfiable range (bytes %r..%r of %r) answered 416" % (want[1], want[2] - 1, n)
        cover("416")
        return None
    if code != 206:
        return "Range request answered %r" % (code,)
    parts, bad = delivered(resp.body)
    if bad:
        return bad
    if not parts:
        return "206 without any delivered byte"
    a, b, bad = check_chunks(parts, MAXREAD)
    if bad:
        return bad
    if not 0 <= a < b <= n:
        return "206 delivers bytes [%r,%r) of a file of %r bytes" % (a, b, n)
    if want[0] == "unsat":
        return "unsatisfiable range answered 206 with bytes [%r,%r)" % (a, b)
    if want[0] == "slice":
        cover("206-exact")
        if (a, b) != (want[1], want[2]):
            return "delivered bytes [%r,%r), RFC 7233 slice is [%r,%r) of %r" % (a, b, want[1], want[2], n)
    else:
        cover("206-near-miss")
    hdr = resp._headers
    cr = "bytes " + str(a) + "-" + str(b - 1) + "/" + str(n)
    if hdr.get("Content-Range") != cr:
        return "Content-Range %r, delivered bytes are %r" % (hdr.get("Content-Range"), cr)
    if hdr.get("Content-Length") != str(b - a):
        return "Content-Length %r, delivered %r bytes" % (hdr.get("Content-Length"), b - a)
    if len(parts) > 1:
        cover("multi-chunk")
    return None


def judge_whole(resp, n):
    if resp.status_code != 200:
        return "request without Range answered %r" % (resp.status_code,)
    parts, bad = delivered(resp.body)
    if bad:
        return bad
    got = sum(len(p) for p in parts)
    if got != n or (parts and parts[0].start != 0):
        return "whole-file response delivers %r bytes of %r" % (got, n)
    if resp._headers.get("Content-Length") != str(n):
        return "Content-Length %r for a file of %r bytes" % (resp._headers.get("Content-Length"), n)
    if "Content-Range" in resp._headers:
        return "Content-Range on a 200"
    cover("200")
    return None


def judge_304(resp):
    if resp.status_code != 304:
        return "If-Modified-Since not older than the file answered %r" % (resp.status_code,)
    parts, bad = delivered(resp.body)
    if bad or parts:
        return "304 with a body: %r" % (bad or parts,)
    cover("304")
    return None


def judge_head(get_resp, head_resp):
    if head_resp.status_code != get_resp.status_code:
        return "HEAD status %r, GET status %r" % (head_resp.status_code, get_resp.status_code)
    cover("head")
    if head_resp.status_code == 416:
        return None
    if head_resp._headers != get_resp._headers:
        return "HEAD headers %r differ from GET headers %r" % (head_resp._headers, get_resp._headers)
    parts, bad = delivered(head_resp.body)
    if bad or parts:
        return "HEAD response has a body: %r" % (bad or parts,)
    return None


def run_case(n, rng, want, head, ims=None, not_older=False, mtime=float(MTIME_S)):
    resp = serve(n, "GET", rng, ims, mtime)
    if not_older:
        r = judge_304(resp)
    elif rng is None:
        r = judge_whole(resp, n)
    else:
        r = judge_range(resp, n, want)
    if r or not head:
        return r
    return judge_head(resp, serve(n, "HEAD", rng, ims, mtime))


# ---------------------------------------------------------------- bounds
def assume_digits(s, lens):
    """bound: s is a string of ASCII digits whose length is in `lens`"""
    assume(min(lens) <= len(s) <= max(lens))
    for k in range(min(lens), max(lens)):
        if k not in lens:
            assume(len(s) != k)
    assume(digits_value(s) is not None or len(s) == 0)


def lens_text(lens):
    if tuple(lens) == (0,):
        return "empty"
    return "any digit string of length in %s" % (list(lens),)


def tail_want(tail):
    """a concrete continuation ',...' keeps the header canonical or turns it into a near miss"""
    return reference("0-0" + tail, 1)[0] != "junk"


# ---------------------------------------------------------------- query makers: get_first_range alone
def make_parse_digits(lens_a, lens_b, tail):
    canonical = tail_want(tail)

    def q(n: int, A: str, B: str):
        assume(0 <= n <= NMAX)
        assume_digits(A, lens_a)
        assume_digits(B, lens_b)
        want = clip(digits_value(A), digits_value(B), n) if canonical else ("junk",)
        return judge_parse(get_first_range("bytes=" + A + "-" + B + tail, n), n, want)
    return q


def make_parse_text(lo, hi, prefix):
    def q(n: int, t: str):
        assume(0 <= n <= NMAX)
        assume(lo <= len(t) <= hi)
        for ch in t:
            assume(ord(ch) < 128)
        return judge_parse(get_first_range("bytes=" + prefix + t, n), n, reference(prefix + t, n))
    return q


UNITS = ["Bytes=", "BYTES=", "bytes =", "bytes:", "bytes", "byte=", "xbytes=", " bytes=", "bytes==", "bytes=bytes=",
         "items=", "", "="]


def make_parse_units(lens):
    def q(n: int, u: int, A: str, B: str):
        assume(0 <= n <= NMAX)
        assume(0 <= u < len(UNITS))
        assume_digits(A, lens)
        assume_digits(B, lens)
        got = get_first_range(UNITS[int(u)] + A + "-" + B, n)
        if got:
            cover("accepted")
        return judge_parse(got, n, ("junk",))
    return q


# ---------------------------------------------------------------- query makers: _file_iter_range alone
def make_stream(sym_buffer):
    def q(n: int, off: int, ln: int, m: int):
        assume(0 <= off and 1 <= ln and off + ln <= n <= NMAX)
        if sym_buffer:
            assume(1 <= m <= MAXREAD and ln <= 3 * m + 2)
            limit = m
            fp = stubs_c17.FakeFile(n)
            parts = list(_file_iter_range(fp, off, ln, m))
        else:
            assume(m == MAXREAD)
            limit = MAXREAD
            fp = stubs_c17.FakeFile(n)
            parts = list(_file_iter_range(fp, off, ln))
        if not parts:
            return "no chunk for a slice of %r bytes" % (ln,)
        a, b, bad = check_chunks(parts, limit)
        if bad:
            return bad
        if (a, b) != (off, off + ln):
            return "streamed [%r,%r), slice is [%r,%r)" % (a, b, off, off + ln)
        for k in fp.asked:
            if not 0 <= k <= limit:
                return "read(%r) with buffer %r" % (k, limit)
        if len(parts) > 2:
            cover("3-chunks")
        return None
    return q


# ---------------------------------------------------------------- query makers: static_file
def make_static_digits(nlo, nhi, lens_a, lens_b, tail="", pre_a="", pre_b=""):
    """bytes=<pre_a>A-<pre_b>B<tail>: concrete leading digits pre_*, symbolic digit strings A, B"""
    canonical = tail_want(tail)

    def q(n: int, A: str, B: str, head: bool):
        assume(nlo <= n <= nhi)
        assume_digits(A, lens_a)
        assume_digits(B, lens_b)
        want = clip(digits_value(pre_a + A), digits_value(pre_b + B), n) if canonical else ("junk",)
        return run_case(n, "bytes=" + pre_a + A + "-" + pre_b + B + tail, want, head)
    return q


def make_replaced(nhi, lens_a, lens_b):
    """the file is served, then replaced in place by content of another length with the same modification time (rsync -t,
    cp -p, a rewrite within one timestamp tick), then served again: the second answer describes the file as it is now"""
    def q(n1: int, n2: int, A: str, B: str, ranged: bool, first_head: bool, head: bool):
        assume(0 <= n1 <= nhi and 0 <= n2 <= nhi and n1 != n2)
        assume_digits(A, lens_a)
        assume_digits(B, lens_b)
        rng = "bytes=" + A + "-" + B if ranged else None
        if first_head:
            serve(n1, "HEAD", rng)
        else:
            r = run_case(n1, rng, clip(digits_value(A), digits_value(B), n1) if ranged else None, False)
            if r:
                return "first version (%r bytes): %s" % (n1, r)
        r = run_case(n2, rng, clip(digits_value(A), digits_value(B), n2) if ranged else None, head)
        if r:
            return "file of %r bytes served, replaced by %r bytes with the same mtime, served again: %s" % (n1, n2, r)
        cover("replaced")
        return None
    return q


def make_static_text(nhi, lo, hi, cls):
    """bytes=<t>, t free ASCII text; cls restricts the first character (partition of the space into queries)"""
    def q(n: int, t: str, head: bool):
        assume(0 <= n <= nhi)
        assume(lo <= len(t) <= hi)
        for ch in t:
            assume(ord(ch) < 128)
        if cls == "digit":
            assume(48 <= ord(t[0]) <= 57)
        elif cls == "dash":
            assume(t[0] == "-")
        elif cls == "other":
            assume(not 48 <= ord(t[0]) <= 57 and t[0] != "-")
        return run_case(n, "bytes=" + t, reference(t, n), head)
    return q


def make_static_free(nhi, lo, hi):
    """the whole header value is free text, too short to contain 'bytes=': nothing can be served but 416"""
    def q(n: int, h: str, head: bool):
        assume(0 <= n <= nhi)
        assume(lo <= len(h) <= hi)
        for ch in h:
            assume(ord(ch) < 128)
        return run_case(n, h, ("junk",), head)
    return q


def make_whole(nhi, wrapper):
    def q(n: int, head: bool):
        assume(0 <= n <= nhi)
        if not wrapper:
            return run_case(n, None, None, head)
        resp = serve(n, "GET")
        if resp.status_code != 200 or not hasattr(resp.body, "read"):
            return "request without Range answered %r with body %r" % (resp.status_code, resp.body)
        w = WSGIFileWrapper(resp.body)          # what Ombott._cast puts around a file body
        parts = list(w)
        if n == 0:
            return "chunks %r from an empty file" % (parts,) if parts else None
        if not parts:
            return "nothing delivered of %r bytes" % (n,)
        a, b, bad = check_chunks(parts, w.buffer_size)
        if bad or (a, b) != (0, n):
            return bad or "delivered [%r,%r) of a file of %r bytes" % (a, b, n)
        if len(parts) > 2:
            cover("3-chunks")
        return None
    return q


# conditional requests: concrete dates (email.utils / time.mktime are C and time-zone state)
def http_dates(ts):
    g = time.gmtime(ts)
    return {
        "rfc1123": formatdate(ts, usegmt=True),
        "rfc850": time.strftime("%A, %d-%b-%y %H:%M:%S GMT", g),
        "asctime": time.strftime("%a %b %d %H:%M:%S %Y", g),
        "rfc1123;length": formatdate(ts, usegmt=True) + "; length=4",
    }


ZONES = {"+0000": 0, "+0200": 7200, "-0500": -18000, "+0530": 19800, "EST": -18000}


def zoned_date(instant, zone):
    """the instant (epoch seconds) written as rfc1123 local time of `zone` followed by the zone designator"""
    return time.strftime("%a, %d %b %Y %H:%M:%S ", time.gmtime(instant + ZONES[zone])) + zone


def set_zone(tz):
    """process time zone for parse_date (time.mktime / time.timezone); every query that sends a date sets its own"""
    os.environ["TZ"] = tz
    time.tzset()


def make_cond(ims, not_older, mtime, tz):
    """ims: concrete If-Modified-Since text; not_older: whether the instant it names is >= the file's mtime second"""
    def q(n: int, A: str, B: str, ranged: bool, head: bool):
        set_zone(tz)
        assume(0 <= n <= 12)
        assume_digits(A, (0, 1))
        assume_digits(B, (0, 1))
        if not ranged:
            assume(len(A) == 0 and len(B) == 0)
            return run_case(n, None, None, head, ims, not_older, mtime)
        return run_case(n, "bytes=" + A + "-" + B, clip(digits_value(A), digits_value(B), n), head, ims, not_older, mtime)
    return q


# the whole way: default application -> route -> static_file -> Ombott._cast / wsgi(), real bytes
WSGI_DATA = b"abcdefgh"


@Globals.app.route("/c17/file")
def _file_route():
    return static_file(NAME, ROOT)


def wsgi_call(n, method, rng, ims):
    stubs_c17.FakeFS({PATH: (n, float(MTIME_S), WSGI_DATA)}).install()
    env = {"REQUEST_METHOD": method, "PATH_INFO": "/c17/file", "SCRIPT_NAME": "", "SERVER_NAME": "h", "SERVER_PORT": "80",
           "SERVER_PROTOCOL": "HTTP/1.1", "wsgi.url_scheme": "http", "wsgi.errors": stubs_c17.ErrorLog()}
    if rng is not None:
        env["HTTP_RANGE"] = rng
    if ims is not None:
        env["HTTP_IF_MODIFIED_SINCE"] = ims
    started = []
    out = Globals.app(env, lambda status, headers, exc_info=None: started.append((status, headers)))
    body = b"".join(out)
    if len(started) != 1 or env["wsgi.errors"].lines:
        return None, None, None, "start_response called %d times, wsgi.errors %r" % (len(started), env["wsgi.errors"].lines)
    return started[0][0][:3], started[0][1], body, None


def make_wsgi(delta, nmax):
    ims = None if delta is None else http_dates(MTIME_S + delta)["rfc1123"]

    def q(n: int, A: str, B: str, ranged: bool, head: bool):
        set_zone("UTC")
        assume(0 <= n <= nmax)
        assume_digits(A, (0, 1))
        assume_digits(B, (0, 1))
        if ranged:
            rng = "bytes=" + A + "-" + B
            want = clip(digits_value(A), digits_value(B), n)
        else:
            assume(len(A) == 0 and len(B) == 0)
            rng = None
            want = ("slice", 0, n)
        code, headers, body, bad = wsgi_call(n, "GET", rng, ims)
        if bad:
            return bad
        hd = dict(headers)
        if len(hd) != len(headers):
            return "repeated header in %r" % (headers,)
        if delta is not None and delta >= 0:
            cover("304")
            if code != "304" or body != b"":
                return "If-Modified-Since not older than the file answered %s with body %r" % (code, body)
        elif want[0] == "slice":
            a, b = want[1], want[2]
            if code != ("206" if ranged else "200"):
                return "answered %s, expected bytes [%r,%r) of %r" % (code, a, b, n)
            cover(code)
            if body != WSGI_DATA[a:b]:
                return "%s delivers %r, bytes [%r,%r) of the file are %r" % (code, body, a, b, WSGI_DATA[a:b])
            if hd.get("Content-Length") != str(b - a):
                return "Content-Length %r with a body of %r bytes" % (hd.get("Content-Length"), b - a)
            if ranged and hd.get("Content-Range") != "bytes " + str(a) + "-" + str(b - 1) + "/" + str(n):
                return "Content-Range %r for bytes [%r,%r) of %r" % (hd.get("Content-Range"), a, b, n)
        elif want[0] == "unsat":
            cover("416")
            if code != "416":
                return "unsatisfiable range answered %s" % (code,)
        elif code != "416":
            return "reversed range answered %s" % (code,)
        if head:
            hcode, hheaders, hbody, bad = wsgi_call(n, "HEAD", rng, ims)
            if bad:
                return bad
            cover("head")
            if hcode != code or hbody != b"":
                return "HEAD answered %s with body %r, GET answered %s" % (hcode, hbody, code)
            if code != "416" and hheaders != headers:
                return "HEAD headers %r, GET headers %r" % (hheaders, headers)
        return None
    return q


class FailingFile(stubs_c17.FakeFile):
    """a file that opens and seeks but whose first read() fails (EIO, stale handle)"""
    def read(self, k=-1):
        self.asked.append(k)
        raise OSError(5, "Input/output error")


def make_wsgi_readfail(nmax):
    """the file can be opened but not read: whatever is answered, its Content-Range / Content-Length / delivered bytes
    describe the same thing (a 206 for a slice that is not delivered is not an answer)"""
    def q(n: int, A: str, B: str, ranged: bool):
        set_zone("UTC")
        assume(1 <= n <= nmax)
        assume_digits(A, (0, 1))
        assume_digits(B, (0, 1))
        if not ranged:
            assume(len(A) == 0 and len(B) == 0)
        fs = stubs_c17.FakeFS({PATH: (n, float(MTIME_S), WSGI_DATA)})
        real_open = fs.open

        def failing_open(p, mode="r"):
            f = real_open(p, mode)
            f.__class__ = FailingFile
            return f
        fs.open = failing_open
        fs.install()
        env = {"REQUEST_METHOD": "GET", "PATH_INFO": "/c17/file", "SCRIPT_NAME": "", "SERVER_NAME": "h", "SERVER_PORT": "80",
               "SERVER_PROTOCOL": "HTTP/1.1", "wsgi.url_scheme": "http", "wsgi.errors": stubs_c17.ErrorLog()}
        if ranged:
            env["HTTP_RANGE"] = "bytes=" + A + "-" + B
        started = []
        failed = None
        try:
            body = b"".join(Globals.app(env, lambda status, headers, exc_info=None: started.append((status, headers))))
        except OSError as e:        # the read fails while the SERVER iterates the body: the server's business
            failed, body = e, b""
        if len(started) != 1:
            return "start_response called %d times" % len(started)
        status, headers = started[0]
        hd = dict(headers)
        if failed is not None:
            cover("failed-while-streaming")
            return None
        cover("answered-" + status[:1] + "xx")
        if "Content-Range" in hd and status[:3] != "206":
            return "%s carries Content-Range %r (nothing of the file was delivered)" % (status, hd["Content-Range"])
        if "Content-Length" in hd and hd["Content-Length"] != str(len(body)):
            return "%s announces Content-Length %r and delivers %d bytes" % (status, hd["Content-Length"], len(body))
        if status[:3] in ("200", "206") and body != b"":
            return "%s delivers %r although the file cannot be read" % (status, body)
        return None
    return q


# ---------------------------------------------------------------- query list
L7 = (1, 2, 3, 4, 5, 6, 7)


def queries(tier):
    T = tier == "thorough"
    out = []

    def add(qid, fn, bound, cost, cover_labels, family, config=None):
        """cost = (quick, thorough) CPU seconds measured on the unchanged tree; the timeout leaves > 3x margin"""
        c = cost[1] if T else cost[0]
        out.append(Q(qid, fn, bound, timeout=max(30, int(3.5 * c)), per_path_timeout=40, expect_cover=cover_labels,
                     family=family, config=config))

    nfull = "file length n in [0, %d] (3 buffers + 2)" % NMAX
    both = "GET/HEAD symbolic"
    # --- static_file, small files: 'bytes=A-B' with short digit strings, multi-range / junk continuations
    nsmall = 12 if not T else 120
    sl = (1, 2) if not T else (1, 2, 3)
    for tag, la, lb, cost in (("closed", sl, sl, (68, 340)), ("open", sl, (0,), (11, 40)), ("suffix", (0,), (0,) + sl, (12, 40))):
        add("static/small/%s" % tag, make_static_digits(0, nsmall, la, lb),
            "static_file, n in [0, %d], Range 'bytes=A-B' with A %s, B %s, %s" % (nsmall, lens_text(la), lens_text(lb), both),
            cost, ["416", "206-exact", "head"], "static/small")
    tails = [",5-6", ",x"] + ([",", ",-1,0-", ", 3-4", ",,", ",5", ",9-1", " ,1-2", "\t"] if T else [])
    for i, tail in enumerate(tails):
        add("static/small/multi%d" % i, make_static_digits(0, nsmall, (0, 1), (0, 1), tail),
            "static_file, n in [0, %d], Range 'bytes=A-B' + %r with A, B empty or one digit, %s" % (nsmall, tail, both),
            (20, 30), ["416", "206-exact" if tail_want(tail) else "206-near-miss", "head"], "static/small", {"tail": tail})
    # --- static_file, files around 1..3 streaming buffers: positions = concrete leading digits + symbolic low digits
    big = (MAXREAD - 2, NMAX)
    k = 2 if not T else 3
    b1, b2, b3 = (str(m * MAXREAD)[:7 - k] for m in (1, 2, 3))
    shapes = [("1buf-to-2buf", b1, (k,), b2, (k,), (50, 50)), ("last-1buf", "", (0,), b1, (k,), (28, 30)),
              ("from-2buf", b2, (k,), "", (0,), (19, 20)), ("last-3buf", "", (0,), b3, (k,), (12, 15)),
              ("from-d", "", (1,), "", (0,), (7, 7))]
    if T:
        shapes += [("1buf-to-3buf", b1, (k,), b3, (k,), (0, 55)), ("2buf-to-3buf", b2, (k,), b3, (k,), (0, 50)),
                   ("d-to-1buf", "", (1,), b1, (k,), (0, 25)), ("from-1buf", b1, (k,), "", (0,), (0, 20)),
                   ("last-2buf", "", (0,), b2, (k,), (0, 30))]
    for tag, pa, la, pb, lb, cost in shapes:
        add("static/big/%s" % tag, make_static_digits(big[0], big[1], la, lb, "", pa, pb),
            "static_file, n in [%d, %d] (buffer-2 .. 3 buffers+2), Range 'bytes=%sA-%sB' with A %s, B %s, %s"
            % (big[0], big[1], pa, pb, lens_text(la), lens_text(lb), both),
            cost, ["206-exact", "multi-chunk", "head"], "static/big", {"pre_a": pa, "pre_b": pb})
    add("static/replaced", make_replaced(nsmall, (0, 1), (0, 1)),
        "static_file twice on one path: file of n1 bytes (GET or HEAD), then n2 != n1 bytes with the same mtime, n1, n2 in [0, %d], "
        "no Range or 'bytes=A-B' with A, B of 0..1 digits, %s" % (nsmall, both), (60, 60), ["replaced", "206-exact", "416"], "static/replaced")
    # --- static_file, free header text after 'bytes='
    ntext = 9 if not T else 12
    add("static/text/le2", make_static_text(ntext, 0, 2, "any"),
        "static_file, n in [0, %d], Range 'bytes=' + every ASCII string of length <= 2, %s" % (ntext, both),
        (12, 12), ["416", "206-exact", "head"], "static/text")
    classes = [("digit", "a digit", (20, 20)), ("dash", "'-'", (46, 46))] + ([("other", "neither digit nor '-'", (0, 35))] if T else [])
    for cls, what, cost in classes:
        add("static/text/3/%s" % cls, make_static_text(ntext, 3, 3, cls),
            "static_file, n in [0, %d], Range 'bytes=' + every ASCII string of length 3 whose first character is %s, %s"
            % (ntext, what, both), cost, ["416", "head"] + (["206-exact"] if cls != "other" else []), "static/text")
    add("static/text/free", make_static_free(ntext, 1, 5),
        "static_file, n in [0, %d], Range = every ASCII string of length 1..5 (too short for a unit), %s" % (ntext, both),
        (1, 1), ["416", "head"], "static/text")
    # --- static_file without Range
    add("static/whole", make_whole(NMAX, False), "static_file without Range, %s, %s" % (nfull, both),
        (2, 2), ["200", "head"], "static/whole")
    add("static/whole/wrapper", make_whole(3 * 65536 + 2, True),
        "static_file without Range, body iterated through WSGIFileWrapper, n in [0, 3*64KiB+2]", (1, 1), ["3-chunks"], "static/whole")
    # --- conditional requests: concrete dates x date formats x integral / fractional mtime x process time zone
    summer = 1690000000.0                              # a date inside daylight saving time of the non-UTC zone
    conds = [("rfc1123", d, float(MTIME_S), "UTC") for d in (-1, 0, 1)] + [("rfc1123", 0, MTIME_S + 0.5, "UTC")]
    conds += [("rfc1123", d, float(MTIME_S), "EST5EDT") for d in (-1, 0)]
    # modification times at the borders of the time scale (the Unix epoch itself - build systems and OSTree-style checkouts
    # stamp files with 0 or 1 -, the 32-bit border): since seed C17-k
    conds += [("rfc1123", 0, 0.0, "UTC"), ("rfc1123", 1, 0.0, "UTC"), ("rfc1123", -1, 1.0, "UTC"), ("rfc1123", 0, 1.0, "UTC"),
              ("rfc1123", 0, 2.0 ** 31, "UTC"), ("rfc1123", -1, 2.0 ** 31, "UTC")]
    if T:
        conds += [("rfc1123", 0, 0.5, "UTC"), ("rfc1123", 0, 0.0, "EST5EDT"), ("rfc850", 0, 0.0, "UTC"), ("asctime", 0, 0.0, "UTC"),
                  ("rfc1123", 0, 2.0 ** 32, "UTC"), ("rfc1123", 0, 253402300799.0, "UTC")]
    if T:
        conds += [("rfc1123", d, MTIME_S + 0.5, "UTC") for d in (-1, 1)] + [("rfc1123", 1, float(MTIME_S), "EST5EDT")]
        conds += [(f, d, m, "UTC") for f in ("rfc850", "asctime", "rfc1123;length") for d in (-1, 0, 1)
                  for m in (float(MTIME_S), MTIME_S + 0.5)]
        conds += [(f, d, summer, "EST5EDT") for f in ("rfc1123", "asctime") for d in (-1, 0, 1)]
    for fmt, delta, mtime, tz in conds:
        add("cond/%s/%+d/%s/%s" % (fmt, delta, ("frac" if mtime % 1 else "summer" if mtime == summer else "int") if mtime in (
            float(MTIME_S), MTIME_S + 0.5, summer) else "mtime%g" % mtime, tz),
            make_cond(http_dates(int(mtime) + delta)[fmt], delta >= 0, mtime, tz),
            "static_file, If-Modified-Since = mtime%+ds in %s format (concrete), mtime %r, process time zone %s, n in [0, 12], "
            "with and without Range 'bytes=A-B' (A, B empty or one digit), %s" % (delta, fmt, mtime, tz, both),
            (17, 17) if delta < 0 else (3, 3), ["304", "head"] if delta >= 0 else ["200", "206-exact", "416", "head"],
            "cond", {"ims": http_dates(int(mtime) + delta)[fmt], "mtime": mtime, "tz": tz})
    # --- the same instants written with a zone designator: the answer goes by the instant named, not by the clock reading
    zoned = [("+0200", -1, "UTC"), ("+0530", -3600, "UTC"), ("-0500", 0, "UTC"), ("-0500", 3600, "UTC"), ("EST", 1, "UTC"),
             ("+0000", 0, "UTC")]
    if T:
        zoned = [(z, d, "UTC") for z in ZONES for d in (-3600, -1, 0, 1, 3600)]
        zoned += [("+0200", -1, "EST5EDT"), ("-0500", 0, "EST5EDT"), ("EST", 3600, "EST5EDT")]
    for zone, delta, tz in zoned:
        ims = zoned_date(MTIME_S + delta, zone)
        add("cond/zone%s/%+d/%s" % (zone, delta, tz), make_cond(ims, delta >= 0, float(MTIME_S), tz),
            "static_file, If-Modified-Since %r = mtime%+ds written in zone %s (concrete), process time zone %s, n in [0, 12], "
            "with and without Range 'bytes=A-B' (A, B empty or one digit), %s" % (ims, delta, zone, tz, both),
            (17, 17) if delta < 0 else (3, 3), ["304", "head"] if delta >= 0 else ["200", "206-exact", "416", "head"],
            "cond", {"ims": ims, "instant": MTIME_S + delta, "tz": tz})
    # --- through the application
    nw = 3 if not T else len(WSGI_DATA)
    for tag, delta in (("plain", None), ("equal", 0)) + ((("older", -1), ("newer", 1)) if T else ()):
        add("wsgi/%s" % tag, make_wsgi(delta, nw),
            "default app -> route -> static_file -> WSGI output with real bytes, n in [0, %d], with and without Range "
            "'bytes=A-B' (A, B empty or one digit), If-Modified-Since %s, %s"
            % (nw, "absent" if delta is None else "mtime%+ds" % delta, both),
            (2, 2) if delta is not None and delta >= 0 else (30, 160),
            ["304", "head"] if delta is not None and delta >= 0 else ["200", "206", "416", "head"], "wsgi")
    add("wsgi-readfail/range", make_wsgi_readfail(nw),
        "default app -> route -> static_file of a file (n in [1, %d]) that opens but whose first read() raises OSError, with and "
        "without Range 'bytes=A-B' (A, B empty or one digit): the answer is self-consistent (no Content-Range without a 206, "
        "Content-Length = bytes delivered)" % nw, (20, 100), ["answered-5xx"], "wsgi")
    # --- get_first_range alone: long digit strings, free text, unit near misses
    pl = (1, 2, 7) if not T else L7
    for tag, la, lb, cost in (("closed", pl, pl, (39, 195)), ("open", L7, (0,), (7, 7)), ("suffix", (0,), (0,) + L7, (12, 12))):
        add("parse/%s" % tag, make_parse_digits(la, lb, ""),
            "get_first_range('bytes=A-B', n), %s, A %s, B %s" % (nfull, lens_text(la), lens_text(lb)),
            cost, ["none", "slice"], "parse")
    add("parse/text/le3", make_parse_text(0, 3, ""), "get_first_range('bytes=' + every ASCII string of length <= 3, n), " + nfull,
        (34, 34), ["none", "slice"], "parse")
    if T:
        add("parse/text/4", make_parse_text(4, 4, ""), "get_first_range('bytes=' + every ASCII string of length 4, n), " + nfull,
            (0, 180), ["none", "slice"], "parse")
    for prefix in ["3-5,", "-4,"] + (["7-,", "2-1,"] if T else []):
        add("parse/text/after:%s" % prefix, make_parse_text(0, 2 if not T else 3, prefix),
            "get_first_range('bytes=%s' + every ASCII string of length <= %d, n), %s" % (prefix, 2 if not T else 3, nfull),
            (2, 7), ["none"] if reference(prefix, 9)[0] == "junk" else ["slice"], "parse")
    ul = (0, 1) if not T else (0, 1, 2)
    add("parse/units", make_parse_units(ul),
        "get_first_range(u + A + '-' + B, n) for %d near-miss spellings u of the unit, A, B %s, %s" % (len(UNITS), lens_text(ul), nfull),
        (15, 35), ["none", "accepted"], "parse")
    # --- _file_iter_range alone
    add("stream/default", make_stream(False),
        "_file_iter_range(file of n bytes, off, len) with the default buffer, all 0 <= off, 1 <= len, off+len <= n <= %d" % NMAX,
        (1, 1), ["3-chunks"], "stream")
    add("stream/buffer", make_stream(True),
        "_file_iter_range with symbolic buffer m in [1, %d], len <= 3m+2, off+len <= n <= %d" % (MAXREAD, NMAX),
        (1, 1), ["3-chunks"], "stream")
    # cheap queries first (a defect in the streaming loop or the 304 rule shows within seconds), then longest first
    out.sort(key=lambda q: (q.timeout > 60, -q.timeout))
    return out


def selftest(tier):
    from vf import engine
    # FakeFS / FakeFile against a real directory and real file objects
    dates = http_dates(MTIME_S)
    cases = [(b"", {"REQUEST_METHOD": "GET"}), (b"", {"REQUEST_METHOD": "GET", "HTTP_RANGE": "bytes=0-"}),
             (b"x", {"REQUEST_METHOD": "GET", "HTTP_RANGE": "bytes=-5"}), (b"0123456789", {"REQUEST_METHOD": "HEAD"}),
             (b"0123456789", {"REQUEST_METHOD": "GET", "HTTP_RANGE": "bytes=2-4,7-"}),
             (b"0123456789", {"REQUEST_METHOD": "HEAD", "HTTP_RANGE": "bytes=9-20"}),
             (b"0123456789", {"REQUEST_METHOD": "GET", "HTTP_RANGE": "bytes=10-"}),
             (b"0123456789", {"REQUEST_METHOD": "GET", "HTTP_RANGE": "lines=1-2"}),
             (b"0123456789", {"REQUEST_METHOD": "GET", "HTTP_IF_MODIFIED_SINCE": dates["rfc1123"]}),
             (b"0123456789", {"REQUEST_METHOD": "GET", "HTTP_IF_MODIFIED_SINCE": dates["rfc850"], "HTTP_RANGE": "bytes=1-"}),
             (b"0123456789" * 3, {"REQUEST_METHOD": "GET", "HTTP_IF_MODIFIED_SINCE": "junk", "HTTP_RANGE": "bytes=-7"})]
    diffs = stubs_c17.differential("/tmp/c17_selftest_%d" % os.getpid(), cases)
    assert not diffs, diffs
    # the format(int) model, decided by the engine itself for every |n| <= 10^7
    r = engine.explore("format-model", stubs_c17.format_model_check, timeout=120)
    assert r.status == "confirmed", (r.status, r.cex, r.error)
    # the zoned dates name the intended instants (decided by the standard library, not by ombott)
    from email.utils import parsedate_to_datetime
    for zone in ZONES:
        for d in (-3600, -1, 0, 1, 3600):
            assert parsedate_to_datetime(zoned_date(MTIME_S + d, zone)).timestamp() == MTIME_S + d, (zone, d)
    # reference arithmetic on the repository's own examples (tests/response/test_static_file.py)
    assert clip(None, 10, 100) == ("slice", 90, 100) and clip(10, None, 100) == ("slice", 10, 100)
    assert clip(5, 10, 100) == ("slice", 5, 11) and reference("10-25,-80", 3000) == ("slice", 10, 26)
    assert reference("5-2", 9) == ("junk",) and reference("-0", 9) == ("unsat",) and reference("9-", 9) == ("unsat",)
    assert reference("0-, 1-2", 9) == ("junk",) and reference(",0-1", 9) == ("junk",) and reference("0-1,", 9) == ("junk",)
    qs = [q.qid for q in queries(tier)]
    regress = [
        ("static/small/closed", dict(n=12, A="10", B="25", head=True), "ok"),
        ("static/small/suffix", dict(n=3, A="", B="80", head=False), "ok"),
        ("static/small/suffix", dict(n=0, A="", B="", head=True), "ok"),
        ("static/small/open", dict(n=5, A="5", B="", head=True), "ok"),
        ("static/small/open", dict(n=5, A="x", B="", head=True), "rejected"),
        ("static/big/from-d", dict(n=NMAX, A="0", B="", head=False), "ok"),
        ("static/text/le2", dict(n=9, t="-0", head=False), "ok"),
        ("static/whole", dict(n=0, head=True), "ok"),
        ("wsgi/plain", dict(n=3, A="1", B="2", ranged=True, head=True), "ok"),
        ("wsgi/equal", dict(n=3, A="", B="", ranged=False, head=True), "ok"),
        ("cond/zone+0200/-1/UTC", dict(n=10, A="0", B="", ranged=True, head=True), "ok"),
        ("cond/zone-0500/+0/UTC", dict(n=10, A="", B="", ranged=False, head=True), "ok"),
        ("parse/closed", dict(n=100, A="5", B="10"), "ok"),
        ("stream/default", dict(n=NMAX, off=1, ln=NMAX - 1, m=MAXREAD), "ok"),
    ]
    return [c for c in regress if c[0] in qs]
