"""C18 - query strings and urlencoded forms decode to exactly what was sent; parsing any string is total."""
import itertools
import urllib.parse
from urllib.parse import quote_plus, unquote

from vf.engine import assume, cover
from vf.query import Q
from vf import instrument

instrument.install("ombott")     # scheduling points in front of every ombott statement (used by the stmt/ family only)
from vf import stubs, stubs_c18, stmtsched    # noqa: E402

from ombott.request_pkg.request import Request

PROPERTY = "C18"
TECHNIQUE = ("bounded symbolic execution of parse_qsl behind Request.query/forms/params (CrossHair+z3): fully symbolic "
             "query strings against a reference split; round trip through the real quote_plus/unquote")
LEVEL_TEXT = ("Every execution path of the hand-written key/value scanner, reached through Request.query, Request.forms and "
              "Request.params, is explored for every string up to the stated length over all code points (solver variable): "
              "the slices handed to the percent-decoder and the assembled mapping (single values as str, repeated keys as "
              "lists in order) equal an independent reference split, and no input raises. The real quote_plus/unquote pair "
              "is then run end to end on 1-3 encoded pairs whose keys and special values are enumerated by the solver from "
              "tables of separators, '+', '%', spaces and multi-byte text and whose remaining value characters are symbolic. "
              "Bounded: string lengths, pair counts and the tables are finite; not a proof for longer inputs.")
LEVEL_NOTE = ("Trusted: z3, CrossHair's str/bytes/int/list models, CPython's urllib.parse.quote_plus/unquote (library; the "
              "scanner treats the decoder as a black box, replaced by an injective marker in the fully symbolic queries and "
              "compared with the real one on 3k concrete strings at start-up), AssocForms in place of the C hash table of "
              "FormsDict where keys are symbolic (compared with FormsDict at start-up), PyBytesIO/SymStream for the body, "
              "the reference split in this file (compared with urllib.parse.parse_qsl at start-up). A segment with an empty "
              "key ('=v') is not the encoding of any pair with a non-empty key: only totality is demanded for such strings.")
FUNCTIONS = [
    "ombott.request_pkg.helpers:parse_qsl",
    "ombott.request_pkg.body_mixin:BodyMixin.query",
    "ombott.request_pkg.body_mixin:BodyMixin.POST",
    "ombott.request_pkg.body_mixin:BodyMixin.forms",
    "ombott.request_pkg.body_mixin:BodyMixin._get_body_string",
    "ombott.request_pkg.body_mixin:BodyMixin.body",
    "ombott.request_pkg.props_mixin:PropsMixin.params",
]
STUBS = [
    "mark_unquote: injective marker in place of urllib.parse.unquote as seen from request_pkg.helpers (scan-mark, wiring "
    "families only); '' -> ''",
    "AssocForms: association list searched with == as Request._forms_factory (subclass attribute) where keys are symbolic; "
    "the real FormsDict is used by the scan-pct, spell and roundtrip families",
    "SymStream + PyBytesIO: wsgi.input and io.BytesIO/TemporaryFile inside body_mixin (see C04)",
]
ASSUMPTIONS = [
    "the server hands QUERY_STRING as text and the urlencoded body as bytes with a correct Content-Length",
    "urllib.parse.unquote is a total function of its text argument (CPython); quote_plus emits only unreserved "
    "characters, '+' and %XX",
    "lone surrogates are not Unicode text (quote_plus refuses them) and are excluded from the round trip",
]
OUTSIDE = [
    "query strings longer than the stated length (scanner loops are unrolled by the path search, not summarised)",
    "more than 3 pairs, keys/values outside the enumerated tables or longer than 2 symbolic characters in the round trip",
    "percent-decoding itself beyond the enumerated alphabets (CPython library code, not ombott's)",
    "what is stored for a segment with an empty key ('=v' gives key 'v' here, urllib gives key ''): not demanded",
    "multipart bodies (C06/C07), bodies above max_memfile_size (C13)",
]
BUDGET_S = {"quick": 270, "thorough": 1150}

stubs.install_body_io()


class SymRequest(Request):
    """Request whose form containers keep symbolic keys symbolic (documented factory hook of BaseRequest)."""
    _forms_factory = stubs_c18.AssocForms


# ---------------------------------------------------------------- reference semantics (oracle)
def ref_split(qs):
    """Raw (key, value) slices of `qs`: segments between '&', key/value split at the first '=', empty segments
    give nothing.  Second result: True if some segment has an empty key ('=v'): such a string is not the
    encoding of any list of pairs with non-empty keys, so the property only demands totality for it."""
    pairs, empty_key = [], False
    start, eq = 0, -1
    for pos in range(len(qs) + 1):
        c = qs[pos] if pos < len(qs) else "&"
        if c == "=" and eq < 0:
            eq = pos
        elif c == "&":
            if pos > start:
                if eq < 0:
                    pairs.append((qs[start:pos], ""))
                elif eq > start:
                    pairs.append((qs[start:eq], qs[eq + 1:pos]))
                else:
                    empty_key = True
            start, eq = pos + 1, -1
    return pairs, empty_key


def plus_to_space(s):
    return "".join([" " if c == "+" else c for c in s])


def ref_decode(qs, dec):
    """decoded pairs or None (string outside the round-trip claim)"""
    raw, empty_key = ref_split(qs)
    if empty_key:
        cover("empty-key-segment")
        return None
    if len(raw) > 1:
        cover("several-pairs")
    return [(dec(plus_to_space(k)), dec(plus_to_space(v))) for k, v in raw]


def promote(pairs):
    """[(key, [values in submission order])] in order of first occurrence"""
    out = []
    for k, v in pairs:
        for k2, vs in out:
            if k2 == k:
                vs.append(v)
                break
        else:
            out.append((k, [v]))
    return out


def compare(got, pairs, what):
    """`got` (mapping produced by ombott) against the submitted pairs"""
    want = promote(pairs)
    if len(got) != len(want):
        return "%s has %d keys, %d distinct keys were sent: %r / %r" % (what, len(got), len(want), got, want)
    for k, vs in want:
        if k not in got:
            return "%s lacks key %r: %r" % (what, k, got)
        g = got[k]
        if len(vs) == 1:
            if not isinstance(g, str) or g != vs[0]:
                return "%s[%r] = %r, sent single value %r" % (what, k, g, vs[0])
        else:
            cover("repeated-key")
            if not isinstance(g, list) or g != vs:
                return "%s[%r] = %r, sent values %r in this order" % (what, k, g, vs)
    return None


# ---------------------------------------------------------------- the request under test
VIEWS = ("query", "forms", "params-q", "params-b")


def request_for(cls, view, text, body_text=""):
    """Request carrying `text` as the query string (views query, params-q, params-qb) or as urlencoded body
    (forms, params-b; params-qb: `body_text` is the body)."""
    if view in ("forms", "params-b"):
        text, body_text = "", text
    body = body_text.encode("latin1")
    return cls({"REQUEST_METHOD": "POST", "PATH_INFO": "/", "QUERY_STRING": text,
                "CONTENT_TYPE": "application/x-www-form-urlencoded", "CONTENT_LENGTH": str(len(body)),
                "wsgi.input": stubs.SymStream(len(body), [], data=body)})


def read_view(rq, view):
    """The container the view names.  Any exception propagates: parsing must be total."""
    if view == "query":
        return rq.query
    if view == "forms":
        return rq.forms
    return rq.params


def observe(cls, view, text, body_text=""):
    return read_view(request_for(cls, view, text, body_text), view)


def after_body_access(rq, view, k, pairs, sent, content):
    """Order of access: the application (a hook hashing or sniffing the raw body) reads k bytes of Request.body
    before it looks at the form.  The decoded pairs must not depend on that, a second look must give the same,
    and the raw body must still be complete afterwards (content=False: only its length is compared, for symbolic
    bodies).  pairs None: string outside the round-trip claim."""
    rq.body.read(k)
    if 0 < k < len(sent):
        cover("body-partly-consumed")
    elif k >= len(sent) > 0:
        cover("body-fully-consumed")
    for attempt in ("after Request.body.read(%d)" % k, "read a second time"):
        got = read_view(rq, view)
        bad = None if pairs is None else compare(got, pairs, name(view) + " " + attempt)
        if bad:
            return bad
    raw = rq.body.read()
    if len(raw) != len(sent) or (content and raw != sent):
        return "Request.body after %s holds %r, %r was sent" % (name(view), raw, sent)
    return None


def around_params(rq, early, qpairs, bpairs):
    """Order of access: Request.params (query and forms combined) is read between two looks at Request.query
    (early False: only after it).  Request.query must still decode to exactly what the query string carried and
    Request.forms to what the body carried, whatever keys the two share.  What params itself holds for a shared
    key is not stated by the property and not looked at.  A pair list None: outside the round-trip claim."""
    if qpairs is not None and bpairs is not None:
        for k, _ in qpairs:
            for k2, _ in bpairs:
                if k == k2:
                    cover("shared-key")
    if early and qpairs is not None:
        bad = compare(rq.query, qpairs, "Request.query before Request.params")
        if bad:
            return bad
    rq.params
    bad = None if qpairs is None else compare(rq.query, qpairs, "Request.query after Request.params")
    if not bad and bpairs is not None:
        bad = compare(rq.forms, bpairs, "Request.forms after Request.params")
    return bad


def name(view):
    return "Request." + view.split("-")[0]


def in_class(c, cls):
    """cls: '&', '=', '+' or 'o' (any other character)"""
    if cls == "o":
        return c != "&" and c != "=" and c != "+"
    return c == cls


# ---------------------------------------------------------------- (a) scanner arithmetic, fully symbolic text
def make_scan(view, lo, hi, decoder, prefix="", no_plus=False):
    """Every string qs with lo <= len <= hi (all code points; < 256 when sent as body bytes).
    decoder 'mark': urlunquote replaced by the injective marker; 'real': urllib's on '%'-free strings.
    prefix: classes of the leading characters, splits one length into several queries."""
    dec = stubs_c18.mark_unquote if decoder == "mark" else unquote

    def q(qs: str):
        assume(lo <= len(qs) <= hi)
        for i, cls in enumerate(prefix):
            assume(in_class(qs[i], cls))
        if no_plus:
            assume("+" not in qs)
        if decoder == "real":
            assume("%" not in qs)
        if view == "forms":
            for c in qs:
                assume(ord(c) < 256)
        stubs_c18.use_unquote(dec)
        got = observe(SymRequest, view, qs)
        want = ref_decode(qs, dec)
        if want is None:
            return None
        return compare(got, want, name(view))
    return q


def make_scan_access(view, hi):
    """as make_scan (marker decoder) with the body in the stream, preceded by Request.body.read(k), every k."""
    dec = stubs_c18.mark_unquote

    def q(qs: str, k: int):
        assume(1 <= len(qs) <= hi and 0 <= k <= len(qs) + 1)
        for c in qs:
            assume(ord(c) < 256)
        stubs_c18.use_unquote(dec)
        rq = request_for(SymRequest, view, qs)
        return after_body_access(rq, view, k, ref_decode(qs, dec), qs.encode("latin1"), content=False)
    return q


def make_scan_params(qmax, bmax):
    """Every query string of 1..qmax characters (any code point) together with every body of 1..bmax bytes over
    'a', 'b', '=', '&' whose first byte is a letter (a body-borne symbolic key is enumerated value by value by
    `**self.forms`, so the body alphabet is small; the query string can spell the same keys)."""
    dec = stubs_c18.mark_unquote

    def q(qs: str, body: str, early: bool):
        assume(1 <= len(qs) <= qmax and 1 <= len(body) <= bmax)
        assume(body[0] == "a" or body[0] == "b")
        for c in body[1:]:
            assume(c == "a" or c == "b" or c == "=" or c == "&")
        stubs_c18.use_unquote(dec)
        rq = request_for(SymRequest, "params-qb", qs, body)
        return around_params(rq, early, ref_decode(qs, dec), ref_decode(body, dec))
    return q


# ---------------------------------------------------------------- (t) real decoder on strings with '%'
PCT_ALPHABET = "%&=+41Cg"


def make_pct(view, lo, hi, first=None):
    """Every string over PCT_ALPHABET containing '%': real unquote, real FormsDict."""
    def q(qs: str):
        assume(lo <= len(qs) <= hi)
        if first is not None:
            assume(qs[0] == first)
        for c in qs:
            assume(c in PCT_ALPHABET)
        assume("%" in qs)
        stubs_c18.use_unquote(unquote)
        got = observe(Request, view, qs)
        want = ref_decode(qs, unquote)
        if want is None:
            return None
        cover("decoded")
        return compare(got, want, name(view))
    return q


SPELLINGS = ["a", "%61", "a=", "%61=1", "a=%2B", "a+=+", "a%20=%20", "%2B=%31", "+", "%2b=%", "a%", "%6"]


def make_spell(view, nseg, nspell):
    """Segments drawn from SPELLINGS (different spellings of equal keys/values, stray '%'), joined by '&'."""
    table = SPELLINGS[:nspell]

    def q(i1: int, i2: int, i3: int):
        idx = [i1, i2, i3][:nseg]
        for i in idx:
            assume(0 <= i < len(table))
        qs = "&".join([table[i] for i in idx])
        stubs_c18.use_unquote(unquote)
        got = observe(Request, view, qs)
        return compare(got, ref_decode(qs, unquote), name(view))
    return q


def make_mutated(view, nseg, nspell):
    """a request is parsed, the application edits what it was given in place (value lists popped / extended / sorted, keys
    deleted and added - a solver choice), then another request carrying the identical text is parsed: it holds what was
    sent, and so does a third one"""
    table = SPELLINGS[:nspell]

    def q(i1: int, i2: int, i3: int, edit: int):
        idx = [i1, i2, i3][:nseg]
        for i in idx:
            assume(0 <= i < len(table))
        assume(0 <= edit <= 3)
        qs = "&".join([table[i] for i in idx])
        stubs_c18.use_unquote(unquote)
        first = observe(Request, view, qs)
        want = ref_decode(qs, unquote)
        bad = compare(first, want, name(view) + " (first request)")
        if bad:
            return bad
        for k in list(first.keys()):
            v = first[k]
            if isinstance(v, list):
                cover("list-edited")
                if edit == 0:
                    v.pop()
                elif edit == 1:
                    v.append("added-by-the-application")
                elif edit == 2:
                    v.reverse()
                else:
                    del v[:]
            elif edit == 3:
                del first[k]
        first["added-key"] = "x"
        for which in ("second", "third"):
            bad = compare(observe(Request, view, qs), want, name(view) + " (%s request, same text, after the application "
                          "edited the first one's container in place)" % which)
            if bad:
                return bad
        return None
    return q


# ---------------------------------------------------------------- (b) round trip, real quote_plus / unquote
KEYS = ["a b", "&=+%", "k", "é€", "k=", "\x00\U0001f600&"]
SPECIAL_VALUES = ["", "+", "&", "=", "%", " ", "a=b&c=d", "%41", "é", "€\U0001f600", "\x00\n", "/?#;", "+ +", "%2B"]


def plain(c):
    """characters quote_plus leaves alone or turns into '+': a-z, 0-9, '-', ' '"""
    o = ord(c)
    return 97 <= o <= 122 or 48 <= o <= 57 or o == 45 or o == 32


def send_and_compare(view, pairs):
    """URL-encode the pairs with quote_plus, send them, compare what the view holds with what was sent.
    View params-qb: the last pair travels in the body, the others in the query string (keys disjoint)."""
    enc = [quote_plus(k) + "=" + quote_plus(v) for k, v in pairs]
    stubs_c18.use_unquote(unquote)
    if view == "params-qb":
        for k, _ in pairs[:-1]:
            assume(k != pairs[-1][0])
        got = observe(Request, view, "&".join(enc[:-1]), enc[-1])
    else:
        got = observe(Request, view, "&".join(enc))
    if "+" in "".join(enc):
        cover("plus")
    return compare(got, pairs, name(view))


def make_roundtrip(view, npairs, nkeys, nspecial, vmax):
    """npairs pairs; keys KEYS[k_i] (symbolic index: equal indices = repeated key); values either
    SPECIAL_VALUES[v_i] (v_i > 0) or symbolic text s_i of at most vmax plain characters (v_i = 0; a symbolic
    character inside a text with '%' would be enumerated value by value inside urllib)."""
    keys, specials = KEYS[:nkeys], SPECIAL_VALUES[:nspecial]

    def q(k1: int, k2: int, v1: int, v2: int, s1: str, s2: str):
        pairs = []
        for ki, vi, s in list(zip([k1, k2], [v1, v2], [s1, s2]))[:npairs]:
            assume(0 <= ki < len(keys) and 0 <= vi < len(specials))
            assume(len(s) <= (vmax if vi == 0 else 0))
            for c in s:
                assume(plain(c))
            pairs.append((keys[ki], specials[vi] + s))
        return send_and_compare(view, pairs)
    return q


def make_roundtrip_access(view, nkeys, nspecial):
    """one encoded pair in the body (key and value from the tables, value optionally one symbolic plain
    character), preceded by Request.body.read(k), every k up to one more than the body length."""
    keys, specials = KEYS[:nkeys], SPECIAL_VALUES[:nspecial]

    def q(k1: int, v1: int, s1: str, k: int):
        assume(0 <= k1 < len(keys) and 0 <= v1 < len(specials))
        assume(len(s1) <= (1 if v1 == 0 else 0))
        for c in s1:
            assume(plain(c))
        pairs = [(keys[k1], specials[v1] + s1)]
        enc = quote_plus(pairs[0][0]) + "=" + quote_plus(pairs[0][1])
        assume(0 <= k <= len(enc) + 1)
        stubs_c18.use_unquote(unquote)
        rq = request_for(Request, view, enc)
        return after_body_access(rq, view, k, pairs, enc.encode("latin1"), content=True)
    return q


def make_roundtrip_params(nkeys, nspecial):
    """two encoded pairs in the query string and one in the body, keys and values all from the tables: every
    pattern of repeated key in the query string and of key shared between query string and body."""
    keys, specials = KEYS[:nkeys], SPECIAL_VALUES[:nspecial]

    def q(k1: int, k2: int, k3: int, v1: int, v2: int, v3: int, early: bool):
        pairs = []
        for ki, vi in zip([k1, k2, k3], [v1, v2, v3]):
            assume(0 <= ki < len(keys) and 0 <= vi < len(specials))
            pairs.append((keys[ki], specials[vi]))
        enc = [quote_plus(k) + "=" + quote_plus(v) for k, v in pairs]
        stubs_c18.use_unquote(unquote)
        rq = request_for(Request, "params-qb", "&".join(enc[:2]), enc[2])
        return around_params(rq, early, pairs[:2], pairs[2:])
    return q


def make_roundtrip3(view, nkeys, nspecial):
    """three pairs, keys and values all from the tables (three symbolic texts at once cost > 1 s per path)"""
    keys, specials = KEYS[:nkeys], SPECIAL_VALUES[:nspecial]

    def q(k1: int, k2: int, k3: int, v1: int, v2: int, v3: int):
        pairs = []
        for ki, vi in zip([k1, k2, k3], [v1, v2, v3]):
            assume(0 <= ki < len(keys) and 0 <= vi < len(specials))
            pairs.append((keys[ki], specials[vi]))
        return send_and_compare(view, pairs)
    return q


# ---------------------------------------------------------------- query list
def prefixes(n, classes="&=+o"):
    return ["".join(p) for p in itertools.product(classes, repeat=n)]


ACC_HEADS = ["", "_", "__", "a", "_a", "a_", "__a_"]


def make_accessors(view):
    def q(i: int, o: int):
        assume(0 <= i < len(ACC_HEADS))
        assume(97 <= o <= 122 or 48 <= o <= 57 or o == 95)
        k = ACC_HEADS[i] + chr(o)               # (a dict hashes its keys: the character is realised value by value)
        assume(not (k.startswith("__") and k.endswith("__")))      # dunder names are real attributes by design
        assume(k != "x")
        text = k + "=v1&x=2&" + k + "=v3"
        d = observe(Request, view, text)
        want = ["v1", "v3"]
        got = {"item": d[k], "get": d.get(k), "attr": getattr(d, k), "in": k in d, "iter": [x for x in d if x == k],
               "x": (d["x"], d.x, d.get("x"))}
        exp = {"item": want, "get": want, "attr": want, "in": True, "iter": [k], "x": ("2", "2", "2")}
        if got != exp:
            return "%s for %r: %r, expected %r" % (name(view), text, got, exp)
        cover("underscore" if k.startswith("_") else "plain")
        return None
    return q


SHORT_BODY = "a=1&b=%41+c&a=&a=2%2B&c"
SHORT_PAIRS = [("a", "1"), ("b", "A c"), ("a", ""), ("a", "2+"), ("c", "")]
SHORT_THRESHOLDS = [1, 4, 1000]


def make_short_read():
    body = SHORT_BODY.encode("latin1")
    lens = list(range(1, len(body) + 1))

    def q(v: int, ti: int, use_params: bool):
        assume(0 <= v < len(body) and 0 <= ti < len(SHORT_THRESHOLDS))
        rq = Request({"REQUEST_METHOD": "POST", "PATH_INFO": "/", "QUERY_STRING": "",
                      "CONTENT_TYPE": "application/x-www-form-urlencoded", "CONTENT_LENGTH": str(len(body)),
                      "wsgi.input": stubs.SymStream(len(body), [lens[v]], data=body)},
                     config={"max_memfile_size": SHORT_THRESHOLDS[ti]})
        try:
            d = rq.params if use_params else rq.forms
        except Exception as e:
            if SHORT_THRESHOLDS[ti] < len(body):      # text above the in-memory threshold may be refused (C13)
                cover("refused")
                return None
            return "reading the form raised %r" % (e,)
        got = []
        for k in d:
            vals = dict.__getitem__(d, k)
            got += [(k, x) for x in (vals if isinstance(vals, list) else [vals])]
        want = sorted(p for p in SHORT_PAIRS)
        if sorted(got) != want:
            return "first read() returned %d of %d bytes: form %r, sent %r" % (lens[v], len(body), sorted(got), want)
        cover("ok")
        return None
    return q


# ---------------------------------------------------------------- two requests decoded at once (another thread)
STMT_REQS = {
    # name: (method, query string, urlencoded body or None, pairs of query, pairs of forms)
    "post": ("POST", "client=A&t=1", "name=J%C3%BCrgen+%26+S%C3%B8n&tag=a%2Bb&tag=100%25&tag=&k+e%3Dy=x%3D1%26y%3D2",
             [("client", "A"), ("t", "1")],
             [("name", "J\u00fcrgen & S\u00f8n"), ("tag", "a+b"), ("tag", "100%"), ("tag", ""), ("k e=y", "x=1&y=2")]),
    "get": ("GET", "q=x+y&q=z&e=&client=B", None, [("q", "x y"), ("q", "z"), ("e", ""), ("client", "B")], []),
    "post2": ("POST", "", "a=1&b=2&a=3", [], [("a", "1"), ("b", "2"), ("a", "3")]),
}


def stmt_decode(name, order):
    """-> callable that builds the request of one client and reads its views in the given order; returns the pairs"""
    method, qs, body, q_pairs, f_pairs = STMT_REQS[name]

    def pairs(d):
        out = []
        for k in d:
            vals = dict.__getitem__(d, k)
            out += [(k, x) for x in (vals if isinstance(vals, list) else [vals])]
        return sorted(out)

    def call():
        stubs_c18.use_unquote(unquote)
        env = {"REQUEST_METHOD": method, "PATH_INFO": "/", "QUERY_STRING": qs, "wsgi.input": stubs.SymStream(0, [], data=b"")}
        if body is not None:
            raw = body.encode("latin1")
            env.update({"CONTENT_TYPE": "application/x-www-form-urlencoded", "CONTENT_LENGTH": str(len(raw)),
                        "wsgi.input": stubs.SymStream(len(raw), [3], data=raw)})
        rq = Request(env)
        got = {}
        for view in order:
            got[view] = pairs(getattr(rq, view))
        return got
    want = {"query": sorted(q_pairs), "forms": sorted(f_pairs), "params": sorted(q_pairs + f_pairs)}
    return call, {v: want[v] for v in order}


def make_stmt(n0_name, n1_name, order):
    main, want0 = stmt_decode(n0_name, order)
    other, want1 = stmt_decode(n1_name, order)
    stubs.install_sim_threads()
    assert main() == want0 and other() == want1, (main(), want0, other(), want1)
    n0 = stmtsched.count(main)

    def judge(k):
        r0, st = stmtsched.run(k, main, other)
        if not st.ran:
            return "statement %d of %d not reached" % (k, n0)
        cover("preempted")
        if r0 != want0:
            return ("client %s decoded while, in front of statement %d of %d, another thread decoded client %s: got %r, sent %r"
                    % (n0_name, k, n0, n1_name, r0, want0))
        if st.result != want1:
            return "the other thread's request (%s, decoded in front of statement %d of the %s request): got %r, sent %r" % (
                n1_name, k, n0_name, st.result, want1)
        return None
    return stmtsched.bits_query(n0, judge), n0


def queries(tier):
    T = tier == "thorough"
    out = []
    for a, b, order in ([("post", "get", ("forms", "params", "query")), ("get", "post2", ("query", "params"))] if not T else
                        [("post", "get", ("forms", "params", "query")), ("get", "post2", ("query", "params")),
                         ("post", "post2", ("params", "forms")), ("post2", "post", ("query", "forms", "params")),
                         ("get", "get", ("params", "query", "forms"))]):
        fn, n0 = make_stmt(a, b, order)
        out.append(Q("stmt/%s-%s/%s" % (a, b, "-".join(order)), fn,
                     "thread T0 reads %s of the concrete request %r; in front of statement k of the ombott code it executes "
                     "(every k in 1..%d, scheduling points inserted from the current source) simulated thread T1 builds the "
                     "request %r and reads the same views completely; LIFO, one preemption"
                     % (", ".join(order), STMT_REQS[a][:3], n0, STMT_REQS[b][:3]),
                     timeout=300, expect_cover=["preempted"], family="stmt", config={"t0": a, "t1": b, "statements": n0}))

    def scan(view, lo, hi, decoder, timeout, prefix="", no_plus=False, cov=("repeated-key", "several-pairs")):
        tag = "len%d" % hi if lo == hi else "len%d-%d" % (lo, hi)
        if no_plus:
            tag += "-noplus"
        if prefix:
            tag += "/" + prefix.replace("&", "A").replace("=", "E").replace("+", "P")
        what = {"mark": "decoder = injective marker", "real": "real unquote, strings without '%'"}[decoder]
        out.append(Q("scan-%s/%s/%s" % (decoder, view, tag), make_scan(view, lo, hi, decoder, prefix, no_plus),
                     "%s of every string qs, %d <= len(qs) <= %d, any code point%s%s%s; %s"
                     % (name(view), lo, hi, " < 256 (body bytes)" if view == "forms" else "",
                        ", leading character classes %r ('o' = none of & = +)" % prefix if prefix else "",
                        ", no '+'" if no_plus else "", what),
                     timeout=timeout, expect_cover=list(cov), family="scan-" + decoder,
                     config={"view": view, "lo": lo, "hi": hi, "prefix": prefix, "no_plus": no_plus}))

    # (a) the scanner through Request.query: all strings; the longest lengths are split by leading character classes
    # (a string whose first segment starts with '=' has an empty key: totality only)
    def cov_for(prefix):
        return ("empty-key-segment",) if prefix.lstrip("&")[:1] == "=" else ("several-pairs",)

    scan("query", 0, 4, "mark", 150, cov=("repeated-key", "several-pairs", "empty-key-segment"))
    if not T:
        scan("query", 5, 5, "mark", 300)
        for p in prefixes(1, "&=o"):
            scan("query", 6, 6, "mark", 150, prefix=p, no_plus=True, cov=cov_for(p))
    else:
        for p in prefixes(1):
            scan("query", 5, 5, "mark", 200, prefix=p, cov=cov_for(p))
        for p in prefixes(2):
            scan("query", 6, 6, "mark", 200, prefix=p, cov=cov_for(p))
        for p in prefixes(1, "&=o"):
            scan("query", 7, 7, "mark", 500, prefix=p, no_plus=True, cov=cov_for(p))
        for p in prefixes(2, "&=o"):
            if p[0] != "=":
                scan("query", 8, 8, "mark", 600, prefix=p, no_plus=True, cov=cov_for(p))
    # the same scanner behind forms / params (a body-borne symbolic key is realised by `**self.forms`: params with
    # body pairs is covered by the families below, whose keys are enumerated)
    for view in ("forms", "params-q"):
        scan(view, 0, 4 if not T else 5, "mark", 150 if not T else 500)
    # order of access: k bytes of Request.body consumed before the form is looked at
    n = 3                # length 4 does not exhaust within 500 CPU s (k multiplies the scanner's path tree)
    out.append(Q("access-mark/forms/len1-%d" % n, make_scan_access("forms", n),
                 "Request.forms of every body of 1..%d bytes after Request.body.read(k), every k in [0, len+1] (symbolic); "
                 "the view read twice, then Request.body read again and its length compared with what was sent; decoder = "
                 "injective marker" % n, timeout=200, family="access",
                 expect_cover=["body-partly-consumed", "body-fully-consumed", "several-pairs"]))
    for view in ("params-b",) if not T else ("forms", "params-b"):
        nk, nv = (3, 3) if not T else (6, 6)
        out.append(Q("access-roundtrip/%s/p1-k%d-v%d-s1" % (view, nk, nv), make_roundtrip_access(view, nk, nv),
                     "one quote_plus-encoded pair (key from %r, value from %r or one symbolic character of a-z 0-9 '-' ' ') "
                     "read back from %s after Request.body.read(k), every k in [0, len+1] (symbolic); the view read twice, "
                     "then Request.body read again and compared with what was sent"
                     % (KEYS[:nk], SPECIAL_VALUES[:nv], name(view)), timeout=200 if not T else 900, family="access",
                     expect_cover=["body-partly-consumed", "body-fully-consumed"]))
    # order of access: Request.params read between / before looks at Request.query and Request.forms
    qm, bm = (3, 1) if not T else (3, 2)
    out.append(Q("params-mark/q%d-b%d" % (qm, bm), make_scan_params(qm, bm),
                 "every query string of 1..%d characters (any code point) with every body of 1..%d bytes over 'a' 'b' '=' "
                 "'&' starting with a letter: Request.query read before (symbolic bool) and after Request.params, then "
                 "Request.forms, each compared with what its own part carried; decoder = injective marker" % (qm, bm),
                 timeout=150 if not T else 600, family="access",
                 expect_cover=["shared-key", "repeated-key", "several-pairs"]))
    nk, nv = (2, 3) if not T else (3, 4)
    out.append(Q("params-roundtrip/k%d-v%d" % (nk, nv), make_roundtrip_params(nk, nv),
                 "two quote_plus-encoded pairs in the query string and one in the body (keys from %r incl. repeated and "
                 "shared keys, values from %r): Request.query read before (symbolic bool) and after Request.params, then "
                 "Request.forms, each compared with what its own part carried" % (KEYS[:nk], SPECIAL_VALUES[:nv]),
                 timeout=150 if not T else 400, family="access", expect_cover=["shared-key", "repeated-key"]))
    # real decoder, '%'-free
    scan("query", 0, 4 if not T else 5, "real", 150 if not T else 500)
    scan("forms", 0, 3 if not T else 4, "real", 150, cov=("several-pairs",))

    # (t) real decoder with '%': all strings over a small alphabet; spellings of equal keys
    out.append(Q("scan-pct/query/len1-3", make_pct("query", 1, 3),
                 "Request.query of every string over %r with a '%%', len <= 3; real unquote and FormsDict" % PCT_ALPHABET,
                 timeout=300, expect_cover=["decoded", "several-pairs"], family="scan-pct"))
    if T:
        for c in PCT_ALPHABET:
            out.append(Q("scan-pct/forms/len4/%02x" % ord(c), make_pct("forms", 4, 4, c),
                         "Request.forms of every string over %r with a '%%', len 4, first character %r; real unquote "
                         "and FormsDict" % (PCT_ALPHABET, c), timeout=400,
                         expect_cover=["empty-key-segment" if c == "=" else "decoded"], family="scan-pct"))
    for view, nseg, nsp in ([("query", 2, 10), ("params-b", 2, 10), ("forms", 3, 5)] if not T
                            else [("query", 3, 12), ("params-b", 3, 12), ("forms", 3, 8), ("params-q", 3, 8)]):
        out.append(Q("spell/%s/seg%d" % (view, nseg), make_spell(view, nseg, nsp),
                     "%s of every '&'-join of %d segments from %r; real unquote and FormsDict"
                     % (name(view), nseg, SPELLINGS[:nsp]), timeout=200 if not T else 900,
                     expect_cover=["repeated-key"], family="spell"))
    for view, nseg, nsp in ([("query", 2, 6), ("forms", 2, 6)] if not T else [("query", 3, 8), ("forms", 3, 8), ("params-b", 2, 8)]):
        out.append(Q("mutated/%s/seg%d" % (view, nseg), make_mutated(view, nseg, nsp),
                     "%s of every '&'-join of %d segments from %r, parsed for one request, the container edited in place by "
                     "the application (pop / append / reverse / clear of value lists, keys deleted and added: solver choice), "
                     "then the identical text parsed for a second and a third request" % (name(view), nseg, SPELLINGS[:nsp]),
                     timeout=200 if not T else 900, expect_cover=["repeated-key", "list-edited"], family="mutated"))

    # (b) round trip
    def rt(view, npairs, nkeys, nspecial, vmax, timeout):
        where = " (last pair in the body, the others in the query string, keys disjoint)" if view == "params-qb" else ""
        cov = ["plus"] + (["repeated-key"] if npairs > (2 if view == "params-qb" else 1) else [])
        if npairs == 3:
            fn = make_roundtrip3(view, nkeys, nspecial)
            values = "every choice from %r" % (SPECIAL_VALUES[:nspecial],)
        else:
            fn = make_roundtrip(view, npairs, nkeys, nspecial, vmax)
            values = "every choice from %r or every text of <= %d characters from a-z 0-9 '-' ' ' (symbolic)" % (
                SPECIAL_VALUES[:nspecial], vmax)
        out.append(Q("roundtrip/%s/p%d-k%d-v%d-s%d" % (view, npairs, nkeys, nspecial, vmax), fn,
                     "quote_plus-encoded list of %d pairs read back from %s%s; keys: every choice from %r (symbolic indices, "
                     "repeats included); values: %s" % (npairs, name(view), where, KEYS[:nkeys], values),
                     timeout=timeout, expect_cover=cov, family="roundtrip",
                     config={"view": view, "pairs": npairs, "keys": nkeys, "specials": nspecial, "vmax": vmax}))

    for view in VIEWS:
        rt(view, 1, 6, 14, 1 if not T else 2, 200)
        if T or view in ("query", "forms"):
            rt(view, 2, 2 if not T else 3, 3 if not T else 4, 1, 250 if not T else 600)
    rt("params-qb", 2, 2 if not T else 3, 2 if not T else 3, 1, 150 if not T else 600)
    for view in ("query", "params-b") if not T else VIEWS + ("params-qb",):
        rt(view, 3, 2 if not T else 3, 2 if not T else 3, 0, 150 if not T else 400)
    # the body arrives in short reads (a server that hands out what has arrived so far): the form is the same
    out.append(Q("short-read/forms", make_short_read(), "urlencoded body %r (repeated keys, escapes, '+', empty values); the "
                 "server's first read() returns only v bytes, every v in 1..len, max_memfile_size from %r (solver index); "
                 "forms and params must list the pairs of the whole body" % (SHORT_BODY, SHORT_THRESHOLDS),
                 timeout=200, expect_cover=["ok"], family="short-read"))
    # the other documented accessors of the same containers: attribute style, get(), in, iteration
    for view in ("query", "forms"):
        out.append(Q("accessors/%s" % view, make_accessors(view), "%s of 'K=v1&x=2&K=v3' with the key K = one of %r + one symbolic character from "
                     "[a-z0-9_] (not a dunder name): attribute access, get(), membership, iteration and item access agree "
                     "with what was sent" % (name(view), ACC_HEADS),
                     timeout=200 if not T else 600, expect_cover=["underscore", "plain"], family="accessors"))
    return out


# ---------------------------------------------------------------- fidelity self-test
def selftest(tier):
    alphabet = "&=+%a41"
    corpus = ["".join(t) for n in range(5) for t in itertools.product(alphabet, repeat=n)]
    corpus += ["a=2&b=c&c=44", "%C3%A9=%E2%82%AC&%ff=%", "a=1&a=2&b&a=3&&=x&==&b=", "%u1234=%zz&%=%%", "é=€&\x00=\n"]
    # 1. the marker stands for the real decoder; AssocForms stands for FormsDict
    stubs_c18.differential(corpus)
    scripts = [(list(zip(a, "123")), list(zip(b, "xyz"))) for a in itertools.product("abc", repeat=3)
               for b in itertools.product("acd", repeat=2)]
    stubs_c18.differential_forms(scripts)
    # 2. the reference split agrees with urllib.parse.parse_qsl wherever no segment has an empty key
    for qs in corpus:
        raw, empty_key = ref_split(qs)
        if not empty_key:
            mine = [(unquote(plus_to_space(k)), unquote(plus_to_space(v))) for k, v in raw]
            assert mine == urllib.parse.parse_qsl(qs, keep_blank_values=True), qs
    # 3. library fact used by the argument: decoding undoes quote_plus for every single character of Unicode text
    for cp in itertools.chain(range(0, 0x3000), range(0x3000, 0x110000, 97)):
        if not 0xD800 <= cp <= 0xDFFF:
            assert unquote(quote_plus(chr(cp)).replace("+", " ")) == chr(cp), cp
    # 4. regression inputs, run natively through the query functions
    scan = "scan-mark/query/len0-4"
    rt1 = "roundtrip/query/p1-k6-v14-s%d" % (1 if tier == "quick" else 2)
    n = dict(k1=0, k2=0, v1=0, v2=0, s1="", s2="")
    return [
        (scan, dict(qs="a=b"), "ok"), (scan, dict(qs="a&a"), "ok"), (scan, dict(qs="=a&b"), "ok"),
        (scan, dict(qs="a=+&"), "ok"), (scan, dict(qs="abcde"), "rejected"),
        ("scan-real/query/len0-%d" % (4 if tier == "quick" else 5), dict(qs="a=%"), "rejected"),
        ("scan-pct/query/len1-3", dict(qs="%41"), "ok"), ("scan-pct/query/len1-3", dict(qs="%=%"), "ok"),
        (rt1, dict(n, k1=1, v1=6), "ok"), (rt1, dict(n, k1=0, v1=9), "ok"), (rt1, dict(n, k1=3, s1=" "), "ok"),
    ]
