"""Query description shared by harness modules and the runner."""
import functools
import inspect
from dataclasses import dataclass, field
from typing import Callable, List, Optional


@dataclass
class Q:
    qid: str                       # unique inside the property, stable across runs
    fn: Callable                   # fn(**symbolic args) -> None | failure text
    bound: str                     # human readable statement of the bound of this query
    timeout: float = 60.0          # CPU seconds for the path search
    per_path_timeout: float = 20.0
    expect_cover: List[str] = field(default_factory=list)   # labels that must be reached (vacuity guard)
    family: str = ""               # query family (for the evidence summary)
    config: Optional[object] = None  # enumerated configuration, json-able, for the evidence


def with_excludes(fn: Callable, excludes: List[str]) -> Callable:
    """Return fn with extra preconditions `not (<expr over the arguments>)`.

    Used for known findings: the listed failing predicate is excluded and the
    query is run again so that a different violation is still found."""
    if not excludes:
        return fn
    from .engine import assume
    sig = inspect.signature(fn)
    codes = [compile(e, "<known-finding>", "eval") for e in excludes]

    @functools.wraps(fn)
    def wrapped(*a, **kw):
        ba = sig.bind(*a, **kw)
        env = dict(ba.arguments)
        for c in codes:
            assume(not eval(c, {"__builtins__": __builtins__}, env))
        return fn(*a, **kw)
    wrapped.__signature__ = sig
    return wrapped
