"""Path-exhaustive symbolic execution driver on top of CrossHair 0.0.110 / z3.

One *query* = one Python callable `fn(**symbolic_args)` that runs the real
ombott code and returns None (property held on this path) or a string (what
failed).  `assume(c)` prunes a path (precondition), `cover(label)` records that
an interesting branch was reached (reachability witness).

The driver loop is CrossHair's `explore_paths` loop written out so that we get,
per query: whether the path tree was exhausted (every branch on a symbolic
value was decided both ways by z3 or shown infeasible), the number of paths,
unknown/aborted paths, z3 check() calls + seconds, concrete samples and
counterexamples (realised from the solver model).
"""
import collections
import inspect
import sys
import threading
import time
import traceback
from collections import Counter
from dataclasses import dataclass, field
from time import process_time
from typing import Any, Callable, Dict, List, Optional

import z3

import crosshair.core_and_libs  # noqa: registers library models + opcode patches
from . import chmodels  # noqa: model corrections (after registrations)
from crosshair.core import (
    Patched, gen_args, deep_realize, realize, ExceptionFilter, NoTracing,
    ResumedTracing, COMPOSITE_TRACER,
)
from crosshair.statespace import (
    StateSpace, StateSpaceContext, RootNode, CallAnalysis, VerificationStatus,
)
from crosshair.util import (
    IgnoreAttempt, UnexploredPath, CrosshairUnsupported, CrossHairInternal,
    NotDeterministic,
)
from crosshair.condition_parser import condition_parser
from crosshair.options import AnalysisKind
from crosshair.copyext import deepcopyext, CopyMode
from crosshair.tracers import is_tracing

# --------------------------------------------------------------------------
# harness-side primitives
# --------------------------------------------------------------------------


class Rejected(IgnoreAttempt):
    """Precondition not met on this path (works natively and under tracing)."""


class StubLimitation(AttributeError):
    """The code under test used a part of an environment stub's interface that the stub has no model of.  Not a verdict
    about ombott: the query ends as a machinery error (exit 3), never as a violation.  (An AttributeError, so that
    hasattr()/getattr(x, name, default) on a stub still answer.)"""


def unmodelled(cls):
    """class decorator for stubs: any attribute the stub does not define raises StubLimitation"""
    def __getattr__(self, name):
        raise StubLimitation("%s stub has no model of attribute %r" % (cls.__name__, name))
    cls.__getattr__ = __getattr__
    return cls


_cover: Counter = Counter()
_path_cover: set = set()


def assume(cond) -> None:
    if not cond:
        raise Rejected()


def cover(label: str) -> None:
    """Reachability witness: this label was reached on the current path."""
    _path_cover.add(label)


# --------------------------------------------------------------------------
# solver instrumentation
# --------------------------------------------------------------------------
_z3stats = {"checks": 0, "seconds": 0.0, "unknown": 0}
_orig_check = z3.Solver.check


def _timed_check(self, *a, **kw):
    t0 = time.perf_counter()
    try:
        r = _orig_check(self, *a, **kw)
    finally:
        _z3stats["seconds"] += time.perf_counter() - t0
        _z3stats["checks"] += 1
    if r == z3.unknown:
        _z3stats["unknown"] += 1
    return r


z3.Solver.check = _timed_check


# --------------------------------------------------------------------------
@dataclass
class QueryResult:
    qid: str
    status: str = "inconclusive"    # confirmed | counterexample | inconclusive | error
    exhausted: bool = False
    paths: int = 0
    ok_paths: int = 0
    pruned_paths: int = 0
    unknown_paths: int = 0
    unknown_reasons: Dict[str, int] = field(default_factory=dict)
    cex: List[dict] = field(default_factory=list)     # [{'args':..., 'detail':...}]
    samples: List[dict] = field(default_factory=list)
    cover: Dict[str, int] = field(default_factory=dict)
    z3_checks: int = 0
    z3_seconds: float = 0.0
    z3_unknown: int = 0
    cpu_s: float = 0.0
    wall_s: float = 0.0
    error: Optional[str] = None

    def asdict(self):
        return dict(self.__dict__)


def _jsonable(v):
    if isinstance(v, (str, int, bool, float)) or v is None:
        return v
    if isinstance(v, (bytes, bytearray)):
        return {"__bytes__": bytes(v).decode("latin1")}
    if isinstance(v, (list, tuple)):
        return [_jsonable(x) for x in v]
    if isinstance(v, dict):
        return {str(k): _jsonable(x) for k, x in v.items()}
    return repr(v)


def from_jsonable(v):
    if isinstance(v, dict) and "__bytes__" in v:
        return v["__bytes__"].encode("latin1")
    if isinstance(v, list):
        return [from_jsonable(x) for x in v]
    if isinstance(v, dict):
        return {k: from_jsonable(x) for k, x in v.items()}
    return v


# ---------------------------------------------------------------- process state
# Every explored path and every native replay stands for a process of its own.  Module-level and class-level
# containers of the package under test (caches, registries, memo tables) would carry (symbolic) values of one path
# into the next: they are put back to their content at freeze time before each path / replay.  Identity of every
# container is kept (restored in place), so aliases held by the code stay valid.  State a path's own earlier calls
# leave behind still reaches its later calls: that is what the multi-call query families look at.
_FROZEN: list = []
_LRU: list = []           # functools.lru_cache wrappers of the package: cleared before every path and replay
_CONTAINERS = (dict, list, set, collections.deque)


def _freeze_obj(obj, depth, seen):
    if id(obj) in seen or depth > 3:
        return
    seen.add(id(obj))
    if isinstance(obj, dict):
        copy = dict(obj)
        vals = list(obj.values())
    else:
        copy = list(obj)
        vals = copy
    _FROZEN.append((obj, copy))
    for v in vals:
        if isinstance(v, _CONTAINERS):
            _freeze_obj(v, depth + 1, seen)
        elif str(getattr(type(v), "__module__", "")).split(".")[0] == _PREFIX[0] and id(v) not in seen \
                and not isinstance(v, type):
            # an object of the package kept in a process-wide container (e.g. the error objects of the default
            # errors_map): its attributes are process state as well
            _freeze_instance(v, depth + 1, seen)


_FROZEN_ATTRS: list = []
_PREFIX = ["ombott"]
_EXC_ATTRS = ("__traceback__", "__context__", "__cause__")


def _attrs_of(o):
    out = {}
    for klass in type(o).__mro__:
        for n in getattr(klass, "__slots__", ()) or ():
            if isinstance(n, str) and not n.startswith("__"):
                try:
                    out[n] = object.__getattribute__(o, n)
                except AttributeError:
                    pass
    d = getattr(o, "__dict__", None)
    if isinstance(d, dict):
        out.update(d)
    if isinstance(o, BaseException):
        for n in _EXC_ATTRS:
            out[n] = getattr(o, n, None)
    return out


def _freeze_instance(o, depth, seen):
    if id(o) in seen or depth > 4:
        return
    seen.add(id(o))
    saved = _attrs_of(o)
    _FROZEN_ATTRS.append((o, saved))
    for n, v in saved.items():
        if n in _EXC_ATTRS:
            continue
        if isinstance(v, _CONTAINERS):
            _freeze_obj(v, depth + 1, seen)
        elif str(getattr(type(v), "__module__", "")).split(".")[0] == _PREFIX[0] and not isinstance(v, type):
            _freeze_instance(v, depth + 1, seen)


def freeze_process_state(prefix: str = "ombott") -> int:
    """remember the content of every module-level / class-level container of the package under test"""
    del _FROZEN[:]
    del _FROZEN_ATTRS[:]
    del _LRU[:]
    _PREFIX[0] = prefix
    seen: set = set()
    from functools import _lru_cache_wrapper
    for mname, m in sorted(sys.modules.items()):
        if m is None or not (mname == prefix or mname.startswith(prefix + ".")):
            continue
        for name, val in list(vars(m).items()):
            if name.startswith("__"):
                continue
            if isinstance(val, _CONTAINERS):
                _freeze_obj(val, 0, seen)
            elif isinstance(val, _lru_cache_wrapper):    # memo tables of functools: empty in a fresh process
                _LRU.append(val)
            elif isinstance(val, threading.local):       # this thread's view
                _freeze_obj(val.__dict__, 0, seen)
            elif isinstance(val, type) and getattr(val, "__module__", None) == mname:
                for an, av in list(vars(val).items()):
                    if not an.startswith("__") and isinstance(av, _CONTAINERS):
                        _freeze_obj(av, 0, seen)
                    elif isinstance(av, _lru_cache_wrapper):
                        _LRU.append(av)
    return len(_FROZEN)


def restore_process_state() -> None:
    for w in _LRU:
        w.cache_clear()
    for obj, copy in _FROZEN:
        if isinstance(obj, list):
            obj[:] = copy
        elif isinstance(obj, (dict, set)):
            obj.clear()
            obj.update(copy)
        else:
            obj.clear()
            obj.extend(copy)
    for o, saved in _FROZEN_ATTRS:
        d = getattr(o, "__dict__", None)
        if isinstance(d, dict):
            for k in [k for k in d if k not in saved]:
                del d[k]
        for n, v in saved.items():
            try:
                if n in _EXC_ATTRS or not (isinstance(d, dict) and n in d):
                    setattr(o, n, v)
                else:
                    d[n] = v
            except (AttributeError, TypeError):
                pass


def run_native(fn: Callable, args: Dict[str, Any]):
    """Run a harness function on concrete arguments, no tracer.
    Returns ('ok'|'rejected'|'fail', detail)."""
    _path_cover.clear()
    restore_process_state()
    try:
        r = fn(**args)
    except Rejected:
        return "rejected", None
    except StubLimitation as e:
        return "stub-limitation", str(e)
    except Exception as e:  # noqa
        return "fail", "exception escaped harness: %s: %s\n%s" % (
            type(e).__name__, e, traceback.format_exc(limit=8))
    if r:
        return "fail", str(r)
    return "ok", None


def explore(qid: str, fn: Callable, *, timeout: float, per_path_timeout: float = 30.0,
            max_cex: int = 1, max_samples: int = 6, stop_on_cex: bool = True, max_paths: int = 0) -> QueryResult:
    """Symbolically execute `fn` over all values of its annotated parameters."""
    res = QueryResult(qid)
    sig = inspect.signature(fn)
    search_root = RootNode()
    t_wall = time.perf_counter()
    t_cpu = process_time()
    z0 = dict(_z3stats)
    deadline = t_cpu + timeout
    _cover.clear()
    exhausted = False
    unknown_reasons: Counter = Counter()
    try:
        while True:
            itr_start = process_time()
            if itr_start > deadline:
                break
            res.paths += 1
            _path_cover.clear()
            restore_process_state()
            space = StateSpace(
                execution_deadline=itr_start + per_path_timeout,
                model_check_timeout=per_path_timeout / 2,
                search_root=search_root,
            )
            status = None
            failure = None
            with condition_parser([AnalysisKind.PEP316]), Patched(), COMPOSITE_TRACER, \
                    NoTracing(), StateSpaceContext(space):
                try:
                    pre_args = gen_args(sig)
                    args = deepcopyext(pre_args, CopyMode.REGULAR, {})
                    ret = None
                    with ExceptionFilter() as efilter, ResumedTracing():
                        ret = fn(*args.args, **args.kwargs)
                    if efilter.ignore:
                        status = None
                        res.pruned_paths += 1
                    elif efilter.user_exc is not None:
                        exc, stack = efilter.user_exc
                        if isinstance(exc, NotDeterministic):
                            raise exc
                        if isinstance(exc, StubLimitation):
                            res.status = "error"
                            res.error = "stub limitation (no verdict): %s\n%s" % (exc, "".join(stack.format()[-4:]))
                            break
                        failure = "exception escaped harness: %s: %s\n%s" % (
                            type(exc).__name__, exc, "".join(stack.format()[-6:]))
                    else:
                        with ResumedTracing():
                            isfail = bool(ret)
                        if isfail:
                            failure = str(realize(ret))
                    if failure is not None:
                        with ResumedTracing():
                            space.detach_path()
                        concrete = deep_realize(dict(pre_args.arguments))
                        res.cex.append({"args": _jsonable(concrete), "detail": failure[:2000]})
                        status = VerificationStatus.REFUTED
                    elif status is None and not efilter.ignore:
                        status = VerificationStatus.CONFIRMED
                        res.ok_paths += 1
                        for lab in _path_cover:
                            _cover[lab] += 1
                        if len(res.samples) < max_samples and (
                                res.ok_paths in (1, 2, 3, 5, 8, 13, 21, 34, 55, 89, 144, 233, 377, 610, 987)):
                            try:
                                with ResumedTracing():
                                    space.detach_path()
                                res.samples.append(_jsonable(deep_realize(dict(pre_args.arguments))))
                            except BaseException:  # noqa - sample only
                                pass
                except IgnoreAttempt:
                    status = None
                    res.pruned_paths += 1
                except UnexploredPath as e:
                    status = VerificationStatus.UNKNOWN
                    res.unknown_paths += 1
                    unknown_reasons[type(e).__name__ + ": " + str(e)[:80]] += 1
                except NotDeterministic:
                    res.status = "error"
                    res.error = "NotDeterministic: harness function is not a pure function of its decisions\n" + \
                        traceback.format_exc(limit=6)
                    break
                # A REFUTED leaf must not stop `exhausted` computation; CrossHair treats
                # REFUTED as terminal for the tree, we record and optionally stop.
                _analysis, exhausted = space.bubble_status(CallAnalysis(status))
            if res.cex and (stop_on_cex or len(res.cex) >= max_cex):
                break
            if exhausted:
                break
            if max_paths and res.paths >= max_paths:
                break
    except (CrossHairInternal, z3.Z3Exception) as e:
        res.status = "error"
        res.error = "%s: %s\n%s" % (type(e).__name__, e, traceback.format_exc(limit=8))
    res.exhausted = bool(exhausted)
    res.unknown_reasons = dict(unknown_reasons)
    res.cover = dict(_cover)
    res.z3_checks = _z3stats["checks"] - z0["checks"]
    res.z3_seconds = round(_z3stats["seconds"] - z0["seconds"], 3)
    res.z3_unknown = _z3stats["unknown"] - z0["unknown"]
    res.cpu_s = round(process_time() - t_cpu, 3)
    res.wall_s = round(time.perf_counter() - t_wall, 3)
    if res.status != "error":
        if res.cex:
            res.status = "counterexample"
        elif exhausted and res.unknown_paths == 0 and res.z3_unknown == 0:
            res.status = "confirmed"
        else:
            res.status = "inconclusive"
    return res
