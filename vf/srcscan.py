"""Source-derived parameters: re-read from /repo's current source on every run."""
import ast
import importlib
import inspect


def _func_node(spec):
    modname, _, qual = spec.partition(":")
    mod = importlib.import_module(modname)
    tree = ast.parse(inspect.getsource(mod))
    node = tree
    for part in qual.split("."):
        for ch in ast.walk(node):
            if isinstance(ch, (ast.FunctionDef, ast.ClassDef)) and ch.name == part:
                node = ch
                break
        else:
            raise KeyError(spec)
    return node


def int_literals(specs, lo=100, hi=999):
    out = set()
    for spec in specs:
        for n in ast.walk(_func_node(spec)):
            if isinstance(n, ast.Constant) and type(n.value) is int and lo <= n.value <= hi:
                out.add(n.value)
    return out


def status_set(extra=()):
    """status codes that the framework's own code distinguishes (each +-1), plus class borders"""
    base = int_literals([
        "ombott.ombott:Ombott.wsgi", "ombott.ombott:Ombott._cast", "ombott.ombott:Ombott._handle",
        "ombott.ombott:Ombott.handler", "ombott.response:BaseResponse", "ombott.response:HTTPError",
    ])
    out = set()
    for c in base | {100, 200, 300, 400, 500} | set(extra):
        out.update((c - 1, c, c + 1))
    out.update((199, 299, 999, 102, 103))
    return sorted(c for c in out if 100 <= c <= 999)
