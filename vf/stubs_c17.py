"""Environment stubs for C17 (DESIGN 3.1 `FakeFS`): the file system as seen from
ombott.static_stream.  `os`, `open` and `time` are rebound as attributes of that
module in the checking process only.

Contract kept
* FakeFS: a fixed set of regular, readable files given by absolute path; each has a
  length (may be a symbolic int), an mtime and optionally real content.  `os.path`
  string functions are the real posixpath ones (names are concrete in C17); `exists`,
  `isfile`, `access`, `stat` answer from the table; `open(path, 'rb')` hands out a
  FakeFile and records the path.
* FakeFile: a binary file of length n positioned by seek(); read(k) returns
  min(k, n - pos) bytes (a regular file never returns less before EOF) and b'' at EOF.
  With content the result is real bytes; without, an opaque `SizedPart(start, len)`
  whose identity is its offset, so the oracle sees which bytes were delivered without
  any byte existing.  Every read size asked for is recorded.
`differential()` runs the real static_file once over a real directory and once over a
FakeFS with the same files and compares status, headers and body.
"""
import os as _os
import posixpath
import shutil
import types

import crosshair.core_and_libs  # noqa: library models are registered first
from crosshair import core as _core
from crosshair.core import NoTracing
from crosshair.libimpl import builtinslib as _bl

from .stubs import SizedPart

# --------------------------------------------------------------------------
# Library-model extension (same kind as vf/chmodels.py, needed by C17 only so far):
# CrossHair's `format(x, spec)` - reached from every f-string `{x}` - deep-realises x, so
# f"bytes {offset}-{end-1}/{clen}" enumerates the file length value by value.  With an empty
# spec, format(int) is str(int); CrossHair's symbolic int->str (forks on the digit count only)
# is used instead.  Checked against digit arithmetic by `format_model_check` in the selftest.
# --------------------------------------------------------------------------
_orig_format = _core._PATCH_REGISTRATIONS[format]


def format_model(obj, spec=""):
    with NoTracing():
        plain_int = isinstance(obj, _bl.SymbolicInt) and isinstance(spec, str) and spec == ""
    if plain_int:
        return obj.__repr__()
    return _orig_format(obj, spec)


_core._PATCH_REGISTRATIONS[format] = format_model


def format_model_check(n: int):
    """harness-style function: the f-string of a symbolic int equals its decimal expansion (run under the engine)"""
    if not -10 ** 7 <= n <= 10 ** 7:
        return None
    m = n if n >= 0 else -n
    ds = [m % 10]
    while m >= 10:
        m = m // 10
        ds.append(m % 10)
    want = ("-" if n < 0 else "") + "".join(chr(48 + d) for d in reversed(ds))
    if f"<{n}>" != "<" + want + ">":
        return "f-string %r, digits %r" % (f"<{n}>", want)
    return None


class FakeFile:
    def __init__(self, n, data=None):
        self.n, self.data = n, data
        self.pos = 0
        self.asked = []
        self.closed = False

    def seek(self, offset, whence=0):
        if whence != 0 or offset < 0:
            raise ValueError("FakeFile.seek(%r, %r) is outside the stub's contract" % (offset, whence))
        self.pos = offset
        return offset

    def read(self, k=-1):
        self.asked.append(k)
        rest = self.n - self.pos
        if k is None or k < 0:
            k = rest
        m = k if k < rest else rest
        if m <= 0:
            return b""
        start = self.pos
        self.pos = start + m
        if self.data is not None:
            return self.data[start:start + m]
        return SizedPart(start, m)

    def close(self):
        self.closed = True


class ErrorLog:
    """wsgi.errors: records what the application writes"""

    def __init__(self):
        self.lines = []

    def write(self, text):
        self.lines.append(text)

    def flush(self):
        pass


class _Stat:
    def __init__(self, size, mtime):
        self.st_size, self.st_mtime = size, mtime


class FakeFS:
    """files: {absolute path: (length, mtime, content bytes or None)}"""
    NOW = 1700003600.0

    def __init__(self, files):
        self.files = dict(files)
        self.opened = []
        self.handles = []
        path = types.SimpleNamespace(
            abspath=posixpath.abspath, join=posixpath.join, basename=posixpath.basename,
            exists=self._is_file, isfile=self._is_file)
        self.os = types.SimpleNamespace(path=path, sep="/", R_OK=_os.R_OK, access=self._access, stat=self._stat)
        self.time = types.SimpleNamespace(time=lambda: FakeFS.NOW)

    def _is_file(self, p):
        return p in self.files

    def _access(self, p, mode):
        return p in self.files

    def _stat(self, p):
        n, mtime, _ = self.files[p]
        return _Stat(n, mtime)

    def open(self, p, mode="r"):
        if mode != "rb":
            raise ValueError("FakeFS.open mode %r" % (mode,))
        n, _, data = self.files[p]
        self.opened.append(p)
        f = FakeFile(n, data)
        self.handles.append(f)
        return f

    def install(self):
        """Rebind os / open / time inside ombott.static_stream (this process only)."""
        from ombott import static_stream
        static_stream.os = self.os
        static_stream.open = self.open
        static_stream.time = self.time


def uninstall():
    import time
    from ombott import static_stream
    static_stream.os = _os
    static_stream.time = time
    if "open" in vars(static_stream):
        del static_stream.open


def _drain(body):
    if hasattr(body, "read"):
        data = body.read()
        body.close()
        return data
    if isinstance(body, str):
        return body.encode()
    return b"".join(body)


def differential(scratch, cases):
    """cases: [(content bytes, environ dict)].  Serves each once from a real directory `scratch` (created, removed)
    and once from a FakeFS; returns the list of differences (empty = the stub is faithful on these inputs)."""
    from ombott import static_file
    from ombott.ombott import Globals
    diffs = []
    _os.makedirs(scratch)
    try:
        for i, (content, environ) in enumerate(cases):
            name = "f%d.txt" % i
            real = _os.path.join(scratch, name)
            with open(real, "wb") as f:
                f.write(content)
            mtime = 1700000000 + i
            _os.utime(real, (mtime, mtime))
            seen = []
            for fs in (None, FakeFS({real: (len(content), float(mtime), content)})):
                if fs is None:
                    uninstall()
                else:
                    fs.install()
                Globals.request.__init__(dict(environ))
                r = static_file(name, scratch)
                hdrs = {k: v for k, v in r._headers.items() if k != "Date"}
                seen.append((r.status_code, hdrs, _drain(r.body)))
            if seen[0] != seen[1]:
                diffs.append("case %d %r %r: real %r, FakeFS %r" % (i, content, environ, seen[0], seen[1]))
        # FakeFile against a real file object: seek/read sequences
        real = _os.path.join(scratch, "seq.bin")
        content = bytes(range(40))
        with open(real, "wb") as f:
            f.write(content)
        for script in ([("seek", 0), ("read", 7), ("read", 100), ("read", 1)], [("seek", 39), ("read", 1), ("read", 1)],
                       [("seek", 40), ("read", 5)], [("seek", 55), ("read", 5)], [("read", 0), ("read", -1)],
                       [("seek", 3), ("read", 10), ("seek", 1), ("read", 2)]):
            with open(real, "rb") as rf:
                ff = FakeFile(len(content), content)
                a = [getattr(rf, op)(arg) for op, arg in script]
                b = [getattr(ff, op)(arg) for op, arg in script]
                if a != b:
                    diffs.append("FakeFile %r: real %r, stub %r" % (script, a, b))
                # same script on the opaque variant: lengths and offsets must agree with the real bytes
                fo = FakeFile(len(content))
                c = [getattr(fo, op)(arg) for op, arg in script]
                for x, y in zip(a, c):
                    if isinstance(y, SizedPart):
                        if content[y.start:y.start + y.n] != x:
                            diffs.append("FakeFile(opaque) %r: real %r, stub %r" % (script, a, c))
                    elif x != y:
                        diffs.append("FakeFile(opaque) %r: real %r, stub %r" % (script, a, c))
    finally:
        uninstall()
        shutil.rmtree(scratch, ignore_errors=True)
    return diffs
