"""The configuration dimension: ways an application object comes to its settings.

A harness builds its applications with `ombott.Ombott(cfg)`.  `under(name, fn)` returns the same query function with
every application constructed while it runs brought to the SAME effective settings in another documented way
(`ROUTES_TO_CONFIG`): through `app.setup(cfg)` after a bare constructor, through two `setup` calls the first of which
switches on what the second switches off again, with explicit spellings of the defaults.  The effective configuration is
the same in every variant, so the query's oracle applies unchanged; what varies is the path the settings take through
the framework (constructor, setup, merge with earlier settings, the request object's copy of them).

Installed by wrapping `Ombott.__init__` in the checking process only; without an active variant the wrapper calls the
original constructor.
"""
import inspect

import ombott

_ACTIVE = [None]
_orig_init = ombott.Ombott.__init__


def _explicit_defaults(cfg):
    """cfg plus the documented default value of every switch it does not mention (falsy values spelled out)"""
    out = {"debug": False, "catchall": True}
    out.update(cfg or {})
    return out


def _setup(self, cfg):
    _orig_init(self)
    self.setup(cfg)


def _setup_explicit(self, cfg):
    _orig_init(self)
    self.setup(_explicit_defaults(cfg))


def _setup_twice(self, cfg):
    # first a development configuration, then the one that is meant: every switch of the first is given again
    _orig_init(self, {"debug": True, "catchall": False, "max_body_size": 1, "max_memfile_size": 1})
    final = {"max_body_size": None, "max_memfile_size": 100 * 1024}
    final.update(_explicit_defaults(cfg))
    self.setup(final)


def _ctor_then_same_setup(self, cfg):
    _orig_init(self, cfg)
    self.setup(cfg)


ROUTES_TO_CONFIG = {
    "setup": _setup,
    "setup-explicit": _setup_explicit,
    "setup-twice": _setup_twice,
    "ctor+setup": _ctor_then_same_setup,
}


def _init(self, config=None):
    variant = _ACTIVE[0]
    if variant is None:
        return _orig_init(self, config)
    return ROUTES_TO_CONFIG[variant](self, config)


def install():
    if ombott.Ombott.__init__ is not _init:
        ombott.Ombott.__init__ = _init


def under(name, fn):
    assert name in ROUTES_TO_CONFIG, name
    install()

    def q(*a, **kw):
        _ACTIVE[0] = name
        try:
            return fn(*a, **kw)
        finally:
            _ACTIVE[0] = None
    q.__signature__ = inspect.signature(fn)
    q.__annotations__ = dict(getattr(fn, "__annotations__", {}))
    q.__name__ = getattr(fn, "__name__", "q")
    return q


def variants(qs, names, pick, tier_timeout=None):
    """copies of the queries selected by `pick(q)` under each named route to the configuration"""
    from vf.query import Q
    out = []
    for q in qs:
        if not pick(q):
            continue
        for name in names:
            out.append(Q("cfg-%s/%s" % (name, q.qid), under(name, q.fn),
                         "%s; every application built through %r (same effective settings)" % (q.bound, name),
                         timeout=tier_timeout or q.timeout, per_path_timeout=q.per_path_timeout,
                         expect_cover=list(q.expect_cover), family="config", config={"of": q.qid, "route": name}))
    return out
