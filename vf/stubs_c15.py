"""Stubs and engine-model corrections for C15 (DESIGN 3.1: FixedDigest, RecordingLoads).

The stubs are installed by rebinding the names `hmac` and `pickle` inside ombott.common_helpers, in
the checking process only, freshly for every explored path (`install()`).

OracleHmac  - `hmac` as seen from cookie_encode/cookie_decode, modelled as a keyed random oracle
              (DESIGN's FixedDigest generalised to several signed cookies): while `signing` is true
              every new (key, msg) pair asked for gets the next entry of a fixed list of distinct
              16-byte values - these are the MACs an attacker gets to see, on cookies the application
              really emitted; afterwards every pair not in the table gets UNSEEN, a 16-byte value that
              is in none of the emitted cookies.
              Contract kept from the real module: digest() is a deterministic 16-byte function of
              (key, msg).  Contract *assumed* (unforgeability of HMAC-MD5, not decidable by a solver):
              another (key, msg) has another digest and the attacker does not know it.
              Keys and messages are compared with ==, so both may be symbolic.
TagPickle   - `pickle` as seen from the same two functions: dumps() remembers the object and returns
              a short concrete token (itself a well-formed pickle of a small int), loads() records its
              argument and returns the remembered object for a token, raises UnpicklingError for
              anything else.  Contract kept: loads(dumps(x)) is x for picklable x; the serialised form
              is opaque to ombott.  Because the token is concrete the emitted cookie text is concrete
              whatever symbolic leaves the value carries.  `loads_calls` is the observation point
              "calls reaching the unpickler".

Model corrections (CrossHair 0.0.110, same spirit as vf/chmodels.py; candidates for moving there):
`needle in symbolic_bytes` and `symbolic_bytes.split(sep, n)` fall back to AbcString's `self.data...`
which realises the whole byte string (measured: cookie_decode on a 3-character symbolic cookie needs
538 paths instead of 31).  Both are re-expressed through CrossHair's own symbolic find()/partition().
They are validated twice: natively against CPython in validate(), and symbolically by the `model/*`
queries of harness/c15_cookies.py against a hand-written scan.
"""
import hashlib
import hmac as real_hmac
import pickle as real_pickle

from crosshair.libimpl.builtinslib import BytesLike

import ombott.common_helpers as ch

DIGESTS = [hashlib.md5(b"c15-seen-%d" % i).digest() for i in range(16)]
UNSEEN = hashlib.md5(b"c15-unseen").digest()


from vf.engine import unmodelled  # noqa: E402

@unmodelled
class _Mac:
    def __init__(self, owner, key, msg):
        self.owner, self.key, self.msg = owner, key, msg

    def digest(self):
        return self.owner.lookup(self.key, self.msg)

    def hexdigest(self):
        return self.digest().hex()

    def update(self, more):
        self.msg = (self.msg or b"") + more

    def copy(self):
        return _Mac(self.owner, self.key, self.msg)


@unmodelled
class OracleHmac:
    def __init__(self):
        self.table = []          # (key, msg, digest) handed out during the signing phase
        self.signing = True

    def new(self, key, msg=None, digestmod=None):
        return _Mac(self, key, msg)

    @staticmethod
    def compare_digest(a, b):
        """hmac.compare_digest: two ASCII str or two bytes-like objects, else TypeError"""
        if isinstance(a, str) and isinstance(b, str):
            for ch_ in a + b:
                if ord(ch_) > 127:
                    raise TypeError("comparing strings with non-ASCII characters is not supported")
            return a == b
        if isinstance(a, str) or isinstance(b, str):
            raise TypeError("unsupported operand types(s) or combination of types")
        return a == b

    def digest(self, key, msg, digest):
        return self.lookup(key, msg)

    def lookup(self, key, msg):
        for k, m, d in self.table:
            if k == key and m == msg:
                return d
        if not self.signing:
            return UNSEEN
        d = DIGESTS[len(self.table)]
        self.table.append((key, msg, d))
        return d


@unmodelled
class TagPickle:
    UnpicklingError = real_pickle.UnpicklingError

    def __init__(self):
        self.objs = []
        self.loads_calls = []

    @staticmethod
    def token(i):
        return real_pickle.dumps(i, 4)          # b'\x80\x04K<i>.' : 5 bytes, 8 base64 characters

    def dumps(self, obj, protocol=None):
        self.objs.append(obj)
        return self.token(len(self.objs) - 1)

    def loads(self, data):
        self.loads_calls.append(data)
        for i, obj in enumerate(self.objs):
            if data == self.token(i):
                return obj
        raise real_pickle.UnpicklingError("not a token")


def install():
    """fresh stubs bound inside ombott.common_helpers; returns (hmac stub, pickle stub)"""
    mac, pick = OracleHmac(), TagPickle()
    ch.hmac, ch.pickle = mac, pick
    return mac, pick


def uninstall():
    ch.hmac, ch.pickle = real_hmac, real_pickle


# ---------------------------------------------------------------- engine-model corrections
def _bytes_contains(self, needle):
    return self.find(needle) >= 0


def _bytes_split(self, sep=None, maxsplit=-1):
    if sep is None:
        return self.data.split(sep, maxsplit)       # whitespace splitting: not used by ombott, realises
    out = []
    rest = self
    while maxsplit != 0:
        head, match, tail = rest.partition(sep)
        if len(match) == 0:
            break
        out.append(head)
        rest = tail
        maxsplit -= 1
    out.append(rest)
    return out


BytesLike.__contains__ = _bytes_contains
BytesLike.split = _bytes_split


# ---------------------------------------------------------------- differential validation (concrete)
def validate():
    """Stub contracts against the real modules, on concrete inputs.  Returns the number of comparisons."""
    n = 0
    keys = [b"k", b"k2", b"\xc3\xa9", b""]
    msgs = [b"", b"gARLAC4=", b"gARLAS4=", b"x" * 70]
    for mod in (real_hmac, OracleHmac()):
        seen = {}
        for k in keys:
            for m in msgs:
                d = mod.new(k, m, digestmod=hashlib.md5).digest()
                assert isinstance(d, bytes) and len(d) == 16, (mod, d)
                assert mod.new(k, m, digestmod=hashlib.md5).digest() == d, "digest is not a function of (key, msg)"
                seen[(k, m)] = d
                n += 1
        assert len(set(seen.values())) == len(seen), "two (key, msg) pairs share a digest in %r" % (mod,)
    mac = OracleHmac()
    a = mac.new(b"k", b"m").digest()
    b = mac.new(b"k", b"m2").digest()
    c = mac.new(b"k2", b"m").digest()
    mac.signing = False
    assert len({a, b, c, UNSEEN}) == 4 and mac.new(b"k", b"m").digest() == a
    assert mac.new(b"k", b"m3").digest() == UNSEEN and mac.new(b"k3", b"m").digest() == UNSEEN
    values = [("n", "v"), ("n", (1, {"a": [None, 2.5, b"x"]})), 0, "", None]
    for mod in (real_pickle, TagPickle()):
        for v in values:
            assert mod.loads(mod.dumps(v, -1)) == v
            n += 1
        for junk in (b"", b"garbage", b"\x80"):
            try:
                mod.loads(junk)
            except Exception as e:
                assert isinstance(e, (real_pickle.UnpicklingError, EOFError)), (mod, junk, e)
            else:
                raise AssertionError("junk %r unpickled by %r" % (junk, mod))
            n += 1
    tp = TagPickle()
    assert real_pickle.loads(tp.dumps("x")) == 0 and tp.loads_calls == []
    # the corrected bytes models are plain Python over find()/partition(): run them on concrete
    # bytes-alikes (a thin wrapper giving find/partition/data) and compare with CPython
    class B(bytes):
        data = property(lambda s: bytes(s))
    for hay in (b"", b"?", b"!a?b", b"??", b"a?b?c", b"abc", b"ab??cd?"):
        for sep in (b"?", b"??", b"b"):
            assert _bytes_contains(B(hay), sep) == (sep in hay)
            for k in (-1, 0, 1, 2):
                assert _bytes_split(B(hay), sep, k) == hay.split(sep, k), (hay, sep, k)
                n += 1
    return n
