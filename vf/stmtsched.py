"""Statement-level schedules as a solver integer (shared by the stmt/ families of C13, C18; C05/C08/C10 carry their own
copies of the same idea).

`vf.instrument.install("ombott")` must have run before `import ombott` in the harness.  Simulated thread T0 runs
`main()`; in front of statement number k that T0 executes inside the package, simulated thread T1 runs `other()` to its
end (LIFO, one preemption).  k is given to the query by its binary digits, one solver decision each."""
from vf import instrument, stubs
from vf.engine import assume

BITS = 11


class Preempt:
    def __init__(self, k, other):
        self.k, self.other, self.count, self.result, self.ran = k, other, 0, None, False

    def __call__(self):
        if stubs.SimThreads.cur != "T0":
            return
        self.count += 1
        if self.count == self.k:
            stubs.SimThreads.cur = "T1"
            try:
                self.result = self.other()
                self.ran = True
            finally:
                stubs.SimThreads.cur = "T0"


def run(k, main, other):
    """-> (result of main, Preempt)"""
    stubs.install_sim_threads()
    stubs.SimThreads.cur = "T0"
    st = Preempt(k, other)
    instrument.set_hook(st)
    try:
        r = main()
    finally:
        instrument.set_hook(None)
    return r, st


def count(main):
    """number of package statements main() executes (natively, before the analysis starts)"""
    n = run(0, main, lambda: None)[1].count
    assert 0 < n < 2 ** BITS, n
    return n


def bits_query(n0, judge):
    """query function over the binary digits of k in 1..n0; judge(k) -> None | failure text"""
    def q(b0: bool, b1: bool, b2: bool, b3: bool, b4: bool, b5: bool, b6: bool, b7: bool, b8: bool, b9: bool, b10: bool):
        bits = (b0, b1, b2, b3, b4, b5, b6, b7, b8, b9, b10)
        for i in range(n0.bit_length(), BITS):      # digits above the highest one of n0: pinned first (one path goes on)
            assume(not bits[i])
        k = 0
        for i in range(n0.bit_length() - 1, -1, -1):
            if bits[i]:
                k += 1 << i
            assume(k <= n0)
        assume(1 <= k)
        return judge(k)
    return q
