"""Stubs of check C07 (DESIGN §3.1): the `re` engine as seen from FieldStorage.parse_header.

CrossHair 0.0.110 models `re` itself, but its model never backtracks *into* the body of a repeat: for the
pattern FieldStorage had when this was measured (`(.+?)(=(.+?))?(;|$)`; the current one has the same shape) it matches the optional group with the shortest `.+?` and, when the
rest fails, drops the whole group instead of lengthening the lazy part (measured: `name="\\x00"` came back as the
single key `name="\\x00"` with value None, which CPython never produces).  `PyPattern` is a pure-Python
backtracking interpreter of the parse tree that CPython's own `re._parser` builds from the *current* pattern text
of the code under test, so every branch on a character is visible to the solver and a change of the pattern in
the repository changes what is executed.  It keeps sre's priorities (greedy / lazy / alternation order), its
`$` (end or before a final newline) and the empty-match rule of finditer.  Unsupported constructs raise
NotImplementedError at construction.  `validate()` compares it with the real `re` on every string up to a length
over an alphabet of the characters the patterns distinguish."""
import itertools
import re
from re import _constants as C
from re import _parser


class PyMatch:
    def __init__(self, pattern, string, spans):
        self.re = pattern
        self.string = string
        self._spans = spans           # list indexed by group number: (start, end) or None

    def _one(self, g):
        sp = self._spans[g]
        return None if sp is None else self.string[sp[0]:sp[1]]

    def group(self, *gs):
        if not gs:
            return self._one(0)
        if len(gs) == 1:
            return self._one(gs[0])
        return tuple(self._one(g) for g in gs)

    def groups(self, default=None):
        out = []
        for g in range(1, len(self._spans)):
            v = self._one(g)
            out.append(default if v is None else v)
        return tuple(out)

    def span(self, g=0):
        sp = self._spans[g]
        return (-1, -1) if sp is None else sp

    def start(self, g=0):
        return self.span(g)[0]

    def end(self, g=0):
        return self.span(g)[1]


def _check(nodes):
    """refuse at construction what the interpreter does not implement"""
    for op, av in nodes:
        if op in (C.LITERAL, C.NOT_LITERAL, C.ANY):
            continue
        if op is C.IN:
            for iop, _ in av:
                if iop not in (C.NEGATE, C.LITERAL, C.RANGE):
                    raise NotImplementedError("PyPattern: set item %s" % (iop,))
        elif op is C.BRANCH:
            for alt in av[1]:
                _check(list(alt))
        elif op is C.SUBPATTERN:
            if av[1] or av[2]:
                raise NotImplementedError("PyPattern: inline flags")
            _check(list(av[3]))
        elif op in (C.MAX_REPEAT, C.MIN_REPEAT):
            _check(list(av[2]))
        elif op is C.AT:
            if av not in (C.AT_BEGINNING, C.AT_BEGINNING_STRING, C.AT_END, C.AT_END_STRING):
                raise NotImplementedError("PyPattern: anchor %s" % (av,))
        else:
            raise NotImplementedError("PyPattern: %s" % (op,))


class PyPattern:
    """str patterns only, no flags besides re.UNICODE"""

    def __init__(self, pattern):
        real = re.compile(pattern)
        if not isinstance(pattern, str) or real.flags != re.UNICODE:
            raise NotImplementedError("PyPattern: str patterns without flags only")
        self.pattern = pattern
        self.flags = real.flags
        self.groups = real.groups
        self.groupindex = dict(real.groupindex)
        self._nodes = list(_parser.parse(pattern))
        _check(self._nodes)

    # -- the interpreter: match nodes[k:] at i, then call cont(i, spans); first success wins
    def _seq(self, nodes, k, s, n, i, spans, cont):
        if k == len(nodes):
            return cont(i, spans)
        op, av = nodes[k]

        def nxt(j, sp):
            return self._seq(nodes, k + 1, s, n, j, sp, cont)

        if op is C.LITERAL:
            return nxt(i + 1, spans) if i < n and ord(s[i]) == av else None
        if op is C.NOT_LITERAL:
            return nxt(i + 1, spans) if i < n and ord(s[i]) != av else None
        if op is C.ANY:
            return nxt(i + 1, spans) if i < n and ord(s[i]) != 10 else None
        if op is C.IN:
            if i >= n:
                return None
            c = ord(s[i])
            negate = hit = False
            for iop, iav in av:
                if iop is C.NEGATE:
                    negate = True
                elif iop is C.LITERAL:
                    hit = hit or c == iav
                else:
                    hit = hit or iav[0] <= c <= iav[1]
            return nxt(i + 1, spans) if hit != negate else None
        if op is C.AT:
            if av in (C.AT_BEGINNING, C.AT_BEGINNING_STRING):
                ok = i == 0
            elif av is C.AT_END_STRING:
                ok = i == n
            else:
                ok = i == n or (i == n - 1 and ord(s[i]) == 10)
            return nxt(i, spans) if ok else None
        if op is C.BRANCH:
            for alt in av[1]:
                r = self._seq(list(alt), 0, s, n, i, spans, nxt)
                if r is not None:
                    return r
            return None
        if op is C.SUBPATTERN:
            group = av[0]

            def close(j, sp):
                if group is not None:
                    sp = sp[:group] + [(i, j)] + sp[group + 1:]
                return nxt(j, sp)
            return self._seq(list(av[3]), 0, s, n, i, spans, close)
        lo, hi, body = av
        body = list(body)
        lazy = op is C.MIN_REPEAT

        def rep(count, j, sp, last):
            """`count` iterations done, standing at j; `last` = where the previous optional iteration started
            (sre's last_ptr: an iteration that consumed nothing is not repeated)"""
            def more(new_last):
                return self._seq(body, 0, s, n, j, sp, lambda j2, sp2: rep(count + 1, j2, sp2, new_last))
            if count < lo:
                return more(last)
            can_more = (hi is C.MAXREPEAT or count < hi) and j != last
            if lazy:
                r = nxt(j, sp)
                if r is not None or not can_more:
                    return r
                return more(j)
            if can_more:
                r = more(j)
                if r is not None:
                    return r
            return nxt(j, sp)
        return rep(0, i, spans, None)

    def _match_at(self, s, n, start, must_advance):
        def done(j, sp):
            if must_advance and j == start:
                return None
            return PyMatch(self, s, [(start, j)] + sp[1:])
        return self._seq(self._nodes, 0, s, n, start, [None] * (self.groups + 1), done)

    def _search(self, s, pos, must_advance):
        n = len(s)
        start = pos
        while start <= n:
            m = self._match_at(s, n, start, must_advance and start == pos)
            if m is not None:
                return m
            start += 1
        return None

    def match(self, s, pos=0):
        return self._match_at(s, len(s), pos, False)

    def search(self, s, pos=0):
        return self._search(s, pos, False)

    def finditer(self, s, pos=0):
        must_advance = False
        while True:
            m = self._search(s, pos, must_advance)
            if m is None:
                return
            yield m
            must_advance = m.end() == m.start()
            pos = m.end()


def install_field_pattern():
    """Rebind FieldStorage._patt (this process only) to the interpreter of the same pattern text."""
    from ombott.request_pkg.multipart import FieldStorage
    if not isinstance(FieldStorage._patt, PyPattern):
        FieldStorage._patt = PyPattern(FieldStorage._patt.pattern)
    return FieldStorage._patt


def _sig(m):
    return None if m is None else (m.span(), [m.span(g) for g in range(1, m.re.groups + 1)], m.groups(), m.group(0))


def validate(extra_patterns=(), alphabet='a=;" \n', maxlen=4):
    """PyPattern == re on match/search/finditer for every string over `alphabet` up to `maxlen`, for the pattern of
    FieldStorage and a few patterns exercising the other constructs.  Returns the number of comparisons."""
    from ombott.request_pkg.multipart import FieldStorage
    field = FieldStorage._patt.pattern
    patterns = [field, r'(a*?)(=|;)?$', r'^(a|a=)+?(;|$)', r'[^;=]*(=[a"]{1,2})?;?', r'(a*)*=', r'(a|)+?;', r'(?:a=?)*\Z']
    patterns += list(extra_patterns)
    count = 0
    for p in patterns:
        real, mine = re.compile(p), PyPattern(p)
        for ln in range(maxlen + 1):
            for tup in itertools.product(alphabet, repeat=ln):
                s = "".join(tup)
                for meth in ("match", "search"):
                    a, b = _sig(getattr(real, meth)(s)), _sig(getattr(mine, meth)(s))
                    assert a == b, (p, meth, s, a, b)
                a, b = [_sig(m) for m in real.finditer(s)], [_sig(m) for m in mine.finditer(s)]
                assert a == b, (p, "finditer", s, a, b)
                count += 3
    return count
