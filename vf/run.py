"""Runner: python -m vf.run <Cxx> --tier quick|thorough   |   python -m vf.run --replay <file>

Exit codes: 0 = property held on everything explored (inconclusive queries are
listed in the evidence, never counted as success of that query); 1 = a
natively reproducing counterexample that KNOWN_FINDINGS.txt does not list
(prints `VIOLATION property=<id> replay=<path>`); 3 = machinery error
(non-reproducing counterexample, vacuous query, nondeterministic harness).
"""
import argparse
import hashlib
import importlib
import inspect
import json
import multiprocessing as mp
import os
import subprocess
import sys
import time
import traceback

ROOT = os.path.dirname(os.path.dirname(os.path.abspath(__file__)))
REPO = os.environ.get("OMBOTT_REPO", "/repo")
sys.dont_write_bytecode = True
for p in (ROOT, REPO):
    if p in sys.path:
        sys.path.remove(p)
sys.path.insert(0, ROOT)
sys.path.insert(0, REPO)

NPROC = int(os.environ.get("VERIF_JOBS", "0")) or min(16, os.cpu_count() or 4)


def harness_module(prop):
    from vf import instrument
    if not any(m == "ombott" or m.startswith("ombott.") for m in sys.modules):
        instrument.apply_build()          # VERIF_OMBOTT_BUILD=O: ombott compiled as `python -O` runs it
    names = [n[:-3] for n in os.listdir(os.path.join(ROOT, "harness"))
             if n.lower().startswith(prop.lower()) and n.endswith(".py")]
    if not names:
        raise SystemExit("no harness for %s" % prop)
    return importlib.import_module("harness." + sorted(names)[0])


def _find_query(mod, tier, qid):
    for q in mod.queries(tier):
        if q.qid == qid:
            return q
    raise KeyError(qid)


def _worker(conn, prop, tier, qid, excludes):
    try:
        from vf import engine
        from vf.query import with_excludes
        mod = harness_module(prop)
        q = _find_query(mod, tier, qid)
        fn = with_excludes(q.fn, excludes)
        smoke = float(os.environ.get("VERIF_SMOKE_S", "0") or 0)    # harness smoke test: every query for a few seconds only
        res = engine.explore(q.qid, fn, timeout=min(q.timeout, smoke) if smoke else q.timeout, per_path_timeout=q.per_path_timeout)
        conn.send(res.asdict())
    except BaseException as e:  # noqa
        conn.send({"qid": qid, "status": "error", "error": "worker: %s: %s\n%s" % (
            type(e).__name__, e, traceback.format_exc(limit=10)), "paths": 0, "ok_paths": 0,
            "cex": [], "samples": [], "cover": {}, "z3_checks": 0, "z3_seconds": 0.0,
            "unknown_paths": 0, "pruned_paths": 0, "exhausted": False, "cpu_s": 0, "wall_s": 0,
            "unknown_reasons": {}, "z3_unknown": 0})
    finally:
        conn.close()


def run_pool(prop, tier, jobs, budget_s=None):
    """jobs: list of (Q, excludes). Returns {index: resultdict} in job order."""
    ctx = mp.get_context("fork")
    pending = list(enumerate(jobs))
    running = {}
    out = {}
    t0 = time.time()
    while pending or running:
        while pending and len(running) < NPROC:
            if budget_s is not None and time.time() - t0 > budget_s:
                for i, (q, ex) in pending:
                    out[i] = {"qid": q.qid, "status": "not_run", "error": "tier budget exhausted before start",
                              "paths": 0, "ok_paths": 0, "cex": [], "samples": [], "cover": {}, "z3_checks": 0,
                              "z3_seconds": 0.0, "unknown_paths": 0, "pruned_paths": 0, "exhausted": False,
                              "cpu_s": 0, "wall_s": 0, "unknown_reasons": {}, "z3_unknown": 0}
                pending = []
                break
            i, (q, ex) = pending.pop(0)
            pc, cc = ctx.Pipe(duplex=False)
            p = ctx.Process(target=_worker, args=(cc, prop, tier, q.qid, ex))
            p.start()
            cc.close()
            running[i] = (p, pc, time.time(), q)
        for i in list(running):
            p, pc, ts, q = running[i]
            if pc.poll(0):
                try:
                    out[i] = pc.recv()
                except EOFError:
                    out[i] = {"qid": q.qid, "status": "error", "error": "worker died (exit %s)" % p.exitcode}
                p.join(5)
                del running[i]
            elif not p.is_alive():
                # the worker may have sent its result and exited between the poll above and this test: look again
                if pc.poll(0.5):
                    try:
                        out[i] = pc.recv()
                    except EOFError:
                        out[i] = {"qid": q.qid, "status": "error", "error": "worker died (exit %s)" % p.exitcode}
                else:
                    out[i] = {"qid": q.qid, "status": "error", "error": "worker died (exit %s)" % p.exitcode}
                p.join(5)
                del running[i]
            elif time.time() - ts > q.timeout * 3 + 120:
                p.kill()
                p.join(5)
                out[i] = {"qid": q.qid, "status": "inconclusive", "error": "hard wall limit: worker killed"}
                del running[i]
        time.sleep(0.02)
    for r in out.values():
        for k, d in (("paths", 0), ("ok_paths", 0), ("cex", []), ("samples", []), ("cover", {}),
                     ("z3_checks", 0), ("z3_seconds", 0.0), ("unknown_paths", 0), ("pruned_paths", 0),
                     ("exhausted", False), ("cpu_s", 0), ("wall_s", 0), ("unknown_reasons", {}),
                     ("z3_unknown", 0), ("error", None)):
            r.setdefault(k, d)
    return out


def source_hashes(funcs):
    out = []
    for spec in funcs:
        modname, _, qual = spec.partition(":")
        try:
            obj = importlib.import_module(modname)
            for part in qual.split("."):
                obj = getattr(obj, part)
            if isinstance(obj, (staticmethod, classmethod)):
                obj = obj.__func__
            if isinstance(obj, property):
                obj = obj.fget
            obj = inspect.unwrap(obj)
            src = inspect.getsource(obj)
            out.append({"function": spec, "file": os.path.relpath(inspect.getsourcefile(obj), REPO),
                        "sha256": hashlib.sha256(src.encode()).hexdigest()[:16], "lines": src.count("\n")})
        except Exception as e:  # noqa
            out.append({"function": spec, "error": "%s: %s" % (type(e).__name__, e)})
    return out


def main(argv=None):
    ap = argparse.ArgumentParser()
    ap.add_argument("prop", nargs="?")
    ap.add_argument("--tier", default=os.environ.get("VERIF_TIER", "quick"), choices=["quick", "thorough"])
    ap.add_argument("--replay")
    ap.add_argument("--only", help="fnmatch pattern over query ids (debugging)")
    ap.add_argument("--list", action="store_true")
    a = ap.parse_args(argv)
    if a.replay:
        return replay(a.replay)
    return check(a.prop, a.tier, a.only, a.list)


def replay(path):
    rec = json.load(open(path))
    if rec.get("build", "") != os.environ.get("VERIF_OMBOTT_BUILD", ""):      # found under another build of ombott
        env = dict(os.environ, VERIF_OMBOTT_BUILD=rec.get("build", ""))
        return subprocess.call([sys.executable, "-m", "vf.run", "--replay", path], env=env, cwd=ROOT)
    from vf import engine
    mod = harness_module(rec["property"])
    q = _find_query(mod, rec["tier"], rec["qid"])
    args = engine.from_jsonable(rec["args"])
    st, detail = engine.run_native(q.fn, args)
    print("replay %s query=%s args=%r -> %s" % (rec["property"], rec["qid"], args, st))
    if detail:
        print(detail)
    if st == "fail":
        print("VIOLATION property=%s replay=%s" % (rec["property"], path))
        return 1
    return 0


def check(prop, tier, only=None, list_only=False):
    BUILD = os.environ.get("VERIF_OMBOTT_BUILD", "")
    import fnmatch
    from vf import engine, findings
    t0 = time.time()
    seed = int(os.environ.get("VERIF_SEED", "0") or 0)
    mod = harness_module(prop)
    qs = mod.queries(tier)
    if only:
        qs = [q for q in qs if any(fnmatch.fnmatchcase(q.qid, pat) for pat in only.split('|'))]
    if list_only:
        for q in qs:
            print(q.qid, "|", q.bound, "| timeout", q.timeout)
        return 0
    assert len({q.qid for q in qs}) == len(qs), "duplicate query ids"
    n_frozen = engine.freeze_process_state()     # every path / replay starts from the package state as of now
    known, fixed = findings.load(prop)
    budget = getattr(mod, "BUDGET_S", {}).get(tier)
    evdir = os.path.join(ROOT, "evidence")
    os.makedirs(os.path.join(evdir, "replays"), exist_ok=True)
    for fn in os.listdir(os.path.join(evdir, "replays")):      # stale replays of earlier runs of this property/tier
        if fn.startswith("%s-%s%s-" % (prop, tier, BUILD and "-" + BUILD)) and (BUILD or fn[len(prop) + len(tier) + 2:][:1].isdigit()):
            os.remove(os.path.join(evdir, "replays", fn))

    machinery_errors = []
    try:
        from vf import chmodels
        n_modelcheck = chmodels.selfcheck()
    except AssertionError as e:
        n_modelcheck = 0
        machinery_errors.append("chmodels selfcheck failed: %r" % (e,))
    violations = []
    known_hits = []
    validated = 0

    # ---- fidelity self-test: concrete regression inputs, natively and under the tracer
    selftests = getattr(mod, "selftest", None)
    n_self = 0
    if selftests:
        try:
            cases = selftests(tier)
        except Exception as e:  # noqa
            cases = []
            machinery_errors.append("selftest raised %s: %s" % (type(e).__name__, e))
        for qid, args, expect in cases:
            q = _find_query(mod, tier, qid)
            st, detail = engine.run_native(q.fn, args)
            n_self += 1
            if st != expect:
                machinery_errors.append("selftest %s %r: native %s, expected %s: %s" % (qid, args, st, expect, detail))

    results = {}
    jobs = [(q, []) for q in qs]
    rounds = 0
    final = {}
    while jobs and rounds < 8:
        rounds += 1
        res = run_pool(prop, tier, jobs, budget)
        nxt = []
        for i, (q, ex) in enumerate(jobs):
            r = res[i]
            r["excludes"] = list(ex)
            prev = final.get(q.qid)
            if prev is not None:   # accumulate stats over re-runs
                for k in ("paths", "ok_paths", "z3_checks", "unknown_paths", "pruned_paths"):
                    r[k] = r.get(k, 0) + prev.get(k, 0)
                for k in ("z3_seconds", "cpu_s", "wall_s"):
                    r[k] = round(r.get(k, 0) + prev.get(k, 0), 3)
                r["known_hits"] = prev.get("known_hits", [])
            final[q.qid] = r
            if r["status"] == "error":
                machinery_errors.append("query %s: %s" % (q.qid, r.get("error")))
                continue
            if r["status"] != "counterexample":
                continue
            cx = r["cex"][0]
            args = engine.from_jsonable(cx["args"])
            st, detail = engine.run_native(q.fn, args)
            if st != "fail":
                r["status"] = "error"
                machinery_errors.append(
                    "query %s: counterexample %r does not reproduce natively (%s): engine-model error; symbolic detail: %s"
                    % (q.qid, args, st, cx["detail"]))
                continue
            validated += 1
            hit = next((k for k in known if k.matches(q.qid, args)), None)
            if hit is not None:
                line = "KNOWN-FINDING: property=%s %s [query=%s args=%r]" % (prop, hit.text, q.qid, args)
                print(line, flush=True)
                known_hits.append({"query": q.qid, "args": cx["args"], "text": hit.text, "detail": detail})
                r.setdefault("known_hits", []).append(hit.text)
                r["status"] = "rerun"
                nxt.append((q, ex + [hit.when]))
            else:
                n = len(violations) + 1
                path = os.path.join(evdir, "replays", "%s-%s%s-%d.json" % (prop, tier, BUILD and "-" + BUILD, n))
                json.dump({"property": prop, "tier": tier, "build": BUILD, "qid": q.qid, "args": cx["args"],
                           "detail": detail, "bound": q.bound}, open(path, "w"), indent=1)
                violations.append({"query": q.qid, "args": cx["args"], "detail": detail, "replay": path})
                print("VIOLATION property=%s replay=%s" % (prop, path), flush=True)
                print("  query=%s args=%r\n  %s" % (q.qid, args, (detail or "").strip().replace("\n", "\n  ")), flush=True)
        jobs = nxt
    for q, ex in jobs:   # still failing after 8 rounds of exclusion
        machinery_errors.append("query %s: more than 8 known-finding exclusions" % q.qid)

    # ---- validate samples natively (paths the solver produced, replayed on the real code)
    qmap = {q.qid: q for q in qs}
    samples_out = []
    for qid, r in final.items():
        q = qmap[qid]
        for s in r.get("samples", []):
            args = engine.from_jsonable(s)
            st, detail = engine.run_native(q.fn, args)
            if st == "ok":
                validated += 1
            elif st == "fail" and not any(k.matches(qid, args) for k in known):
                # a concrete failing input that symbolic execution judged fine: report it, it is real
                n = len(violations) + 1
                path = os.path.join(evdir, "replays", "%s-%s%s-%d.json" % (prop, tier, BUILD and "-" + BUILD, n))
                json.dump({"property": prop, "tier": tier, "build": BUILD, "qid": qid, "args": s, "detail": detail,
                           "bound": q.bound, "note": "found by native replay of a solver sample"}, open(path, "w"), indent=1)
                violations.append({"query": qid, "args": s, "detail": detail, "replay": path})
                print("VIOLATION property=%s replay=%s" % (prop, path), flush=True)
            if len(samples_out) < 12:
                samples_out.append({"query": qid, "args": s, "native": st})
        # vacuity guard
        if r["status"] == "confirmed":
            for lab in q.expect_cover:
                if not r["cover"].get(lab):
                    r["status"] = "error"
                    machinery_errors.append("query %s: vacuous - label %r never reached on a completed path" % (qid, lab))

    counts = {}
    for r in final.values():
        counts[r["status"]] = counts.get(r["status"], 0) + 1
    total_paths = sum(r["paths"] for r in final.values())
    z3_checks = sum(r["z3_checks"] for r in final.values())
    wall = round(time.time() - t0, 2)
    qsum = []
    for q in qs:
        r = final[q.qid]
        qsum.append({"query": q.qid, "family": q.family, "bound": q.bound, "status": r["status"],
                     "exhausted": r["exhausted"], "paths": r["paths"], "ok_paths": r["ok_paths"],
                     "pruned_by_precondition": r["pruned_paths"], "unknown_paths": r["unknown_paths"],
                     "unknown_reasons": r.get("unknown_reasons") or {},
                     "z3_checks": r["z3_checks"], "z3_seconds": r["z3_seconds"], "cpu_s": r["cpu_s"],
                     "cover": r["cover"], "known_findings_excluded": r.get("excludes", []),
                     "error": r.get("error")})
    ev = {
        "property_id": prop, "tier": tier, "seed": seed, "level": "model_checking",
        "coverage": {
            "states": max(total_paths, 0), "transitions": max(z3_checks, 0),
            "traces_validated_against_impl": validated,
            "samples": samples_out or [{"note": "no completed path"}],
            "evaluations": total_paths,
            "distinct_nontrivial": sum(r["ok_paths"] for r in final.values()),
            "rule": "states = execution paths of the real ombott code explored by CrossHair (each path = one equivalence "
                    "class of inputs that takes the same branch decisions; distinct by construction); non-trivial = path "
                    "that passed the preconditions and ran to the postcondition; transitions = z3 check() calls deciding "
                    "branch feasibility; traces_validated = solver-produced concrete inputs re-run natively (no tracer) "
                    "with the same verdict",
            "exhaustive": bool(qs) and all(r["status"] == "confirmed" for r in final.values()),
            "engine": "CrossHair 0.0.110 symbolic execution + z3 (per-path SMT), driver vf/engine.py",
            "functions_encoded": source_hashes(getattr(mod, "FUNCTIONS", [])),
            "queries_total": len(qs), "queries_by_status": counts,
            "queries": qsum,
            "solver_seconds": round(sum(r["z3_seconds"] for r in final.values()), 2),
            "solver_checks": z3_checks,
            "known_findings_hit": known_hits,
            "fixed_findings_listed": fixed,
            "machinery_errors": machinery_errors,
            "violations_detail": violations,
            "selftest_cases": n_self, "library_model_comparisons_vs_cpython": n_modelcheck,
            "package_containers_restored_per_path": n_frozen,
            "outside_the_bound": getattr(mod, "OUTSIDE", []),
            "stubs": getattr(mod, "STUBS", []),
            "harness_stats": getattr(mod, "STATS", {}),
        },
        "assumptions": getattr(mod, "ASSUMPTIONS", []),
        "wall_s": wall, "violations": len(violations),
    }
    rc_builds = 0
    if BUILD:
        ev["coverage"]["build"] = "ombott compiled at optimisation level 1 (python -O: assert statements removed)"
    else:
        # the same check (or the listed part of it) against other builds of the package: each in a process of its own
        for b, pattern in sorted(getattr(mod, "ALSO_BUILDS", {}).items()):
            if only:
                continue
            out_path = os.path.join(evdir, "replays", ".%s-%s-%s.json" % (prop, tier, b))
            env = dict(os.environ, VERIF_OMBOTT_BUILD=b, VERIF_EVIDENCE_OUT=out_path)
            cmd = [sys.executable, "-m", "vf.run", prop, "--tier", tier] + (["--only", pattern] if pattern else [])
            p = subprocess.run(cmd, env=env, cwd=ROOT, capture_output=True, text=True)
            sys.stdout.write("".join("[build %s] %s\n" % (b, ln) if not ln.startswith("VIOLATION") else ln + "\n"
                                     for ln in p.stdout.splitlines()))
            rc_builds = max(rc_builds, p.returncode)
            try:
                sub = json.load(open(out_path))
                os.remove(out_path)
                ev["coverage"].setdefault("other_builds", {})[b] = {
                    "build": sub["coverage"].get("build"), "queries_by_status": sub["coverage"]["queries_by_status"],
                    "queries": sub["coverage"]["queries"], "paths": sub["coverage"]["evaluations"],
                    "solver_checks": sub["coverage"]["solver_checks"], "solver_seconds": sub["coverage"]["solver_seconds"],
                    "violations_detail": sub["coverage"]["violations_detail"], "machinery_errors": sub["coverage"]["machinery_errors"],
                    "exit": p.returncode}
                ev["violations"] += sub["violations"]
            except Exception as e:  # noqa
                machinery_errors.append("build %s: no evidence from the sub-run (exit %s): %s %s" % (b, p.returncode, e, p.stderr[-300:]))
    json.dump(ev, open(os.environ.get("VERIF_EVIDENCE_OUT") or os.path.join(evdir, "%s.json" % prop), "w"), indent=1)
    print("%s %s: %d queries %s, %d paths, %d z3 checks (%.1fs solver), %d native replays, wall %.1fs" % (
        prop, tier, len(qs), counts, total_paths, z3_checks, ev["coverage"]["solver_seconds"], validated, wall))
    for r in qsum:
        if r["status"] not in ("confirmed",):
            print("  %-14s %s paths=%d unknown=%d %s" % (r["status"], r["query"], r["paths"], r["unknown_paths"],
                                                        (r["error"] or "")[:300].replace("\n", " | ")))
    for e in machinery_errors:
        print("MACHINERY-ERROR:", e)
    if violations or rc_builds == 1:
        return 1
    if machinery_errors or rc_builds:
        return 3
    return 0


if __name__ == "__main__":
    try:
        rc = main()
    except Exception:
        import traceback
        traceback.print_exc()
        print("MACHINERY-ERROR: the check itself crashed (no verdict)")
        rc = 3
    sys.exit(rc)
