"""Environment stubs (DESIGN §3.1). Each replaces a C-implemented / OS boundary
that the symbolic engine cannot see through; the contract kept is stated in the
docstring and listed in the evidence of the checks that use it."""


from vf.engine import unmodelled  # noqa: E402

class SizedPart:
    """A slice [start, start+n) of the request stream whose content is never
    inspected: only len() and truthiness.  Content identity is the offset, so
    loss / duplication / reordering of bytes is visible to the oracle."""
    __slots__ = ("start", "n")

    def __init__(self, start, n):
        self.start, self.n = start, n

    def __len__(self):
        return self.n

    def __bool__(self):
        return True      # SymStream never hands out an empty SizedPart (EOF is b'')

    def __repr__(self):
        return "<part %r+%r>" % (self.start, self.n)


@unmodelled
class SymStream:
    """wsgi.input: read(n) returns between 1 and n of the remaining bytes (the
    k-th read is additionally capped by frags[k]; afterwards reads are full),
    b'' at EOF.  Records every n asked for."""

    def __init__(self, avail, frags, data=None):
        self.avail = avail
        self.frags = list(frags)
        self.pos = 0
        self.k = 0
        self.asked = []
        self.given = []
        self.eof_reads = 0
        self.data = data     # None -> SizedPart results

    def read(self, n=-1):
        self.asked.append(n)
        rest = self.avail - self.pos
        if rest <= 0:
            # a reader that keeps asking after EOF does not terminate: make the hang a visible failure instead of a
            # path that runs into the engine's per-path timeout (which would only be 'inconclusive')
            self.eof_reads += 1
            if self.eof_reads > 200:
                raise RuntimeError("wsgi.input.read() called more than 200 times at EOF: the reader does not terminate (hang)")
        if n is None or n < 0:
            n = rest
        m = n if n < rest else rest
        if self.k < len(self.frags):
            f = self.frags[self.k]
            if f < m:
                m = f
        self.k += 1
        start = self.pos
        self.pos = start + m
        self.given.append(m)
        if self.data is not None:
            return self.data[start:start + m]
        if m <= 0:
            return b""
        return SizedPart(start, m)


class FaultStream(SymStream):
    """SymStream whose k-th read() raises once (a socket timeout / a client that went away); k = 0: never"""
    def __init__(self, avail, frags, data, fail_at, exc=OSError):
        SymStream.__init__(self, avail, frags, data=data)
        self.fail_at, self.calls, self.exc = fail_at, 0, exc

    def read(self, n=-1):
        self.calls += 1
        if self.calls == self.fail_at:
            self.asked.append(n)
            self.given.append(0)
            raise self.exc("timed out")
        return SymStream.read(self, n)


@unmodelled
class PyBytesIO:
    """io.BytesIO / tempfile.TemporaryFile as seen from body_mixin: pure Python,
    immutable-bytes (or part list) concatenation; `spooled` tells which
    constructor made it."""
    instances = []

    def __init__(self, initial=b"", *, spooled=False, **kw):
        self.parts = []
        self.spooled = spooled
        self.pos = 0
        self.at_end = True          # no seek() yet: every write appends
        self.closed = False
        PyBytesIO.instances.append(self)
        if initial:
            if isinstance(initial, _BufferView):
                initial = initial.owner.getvalue()
            self.parts = list(initial) if isinstance(initial, list) else [initial]
            self.at_end = False     # io.BytesIO(initial) starts at position 0: a write overwrites the head

    # -- write side: used while spooling.  Writing at the end (the only thing the pinned code does) appends the part
    # as it is (parts may be opaque); after a seek() the write is positional like the real file object's
    def write(self, part):
        if isinstance(part, _BufferView):
            part = part.owner.getvalue()
        if self.at_end:
            if isinstance(part, list):
                self.parts.extend(part)
            else:
                self.parts.append(part)
            return len(part)
        if not len(part):
            return 0
        if not all(isinstance(p, (bytes, bytearray)) for p in self.parts + [part]):
            return self._splice(part)
        data = self._flat()
        if self.pos > len(data):
            data = data + b"\0" * (self.pos - len(data))
        data = data[:self.pos] + bytes(part) + data[self.pos + len(part):]
        self.parts = [data]
        self.pos += len(part)
        return len(part)

    def _splice(self, part):
        """positional write when parts are opaque: the same on the list of parts (a slice of a SizedPart is a SizedPart)"""
        def sl(p, i, j):
            return SizedPart(p.start + i, j - i) if isinstance(p, SizedPart) else p[i:j]
        pos, end = self.pos, self.pos + len(part)
        out, off = [], 0
        for p in self.parts:
            n = len(p)
            if off < pos:
                out.append(sl(p, 0, n if n < pos - off else pos - off))
            off = off + n
        if off < pos:
            out.append(b"\0" * (pos - off))
        out.append(part)
        off = 0
        for p in self.parts:
            n = len(p)
            if off + n > end:
                out.append(sl(p, end - off if end > off else 0, n))
            off = off + n
        self.parts = [x for x in out if len(x)]
        self.pos = end
        return len(part)

    def truncate(self, size=None):
        if size is None:
            size = self.pos
        data = self._flat()
        if size <= len(data):
            self.parts = [data[:size]]
        elif self.spooled:               # a real file grows, io.BytesIO does not
            self.parts = [data + b"\0" * (size - len(data))]
        return size

    def getvalue(self):
        if self.parts and not isinstance(self.parts[0], (bytes, bytearray)):
            return list(self.parts)
        return b"".join(self.parts)

    # -- read side
    def _flat(self):
        return b"".join(self.parts)

    def seek(self, pos, whence=0):
        self.at_end = False
        if whence == 0:
            self.pos = pos
        elif whence == 1:
            self.pos += pos
        else:
            self.pos = len(self._flat()) + pos
        if self.pos < 0:
            self.pos = 0
        return self.pos

    def tell(self):
        return self.pos

    def read(self, n=-1):
        if not self.parts:
            return b""
        data = self._flat()
        if n is None or n < 0:
            n = len(data)
        r = data[self.pos:self.pos + n]
        self.pos += len(r)
        return r

    def close(self):
        self.closed = True

    # -- the rest of the io.BytesIO interface (a correct reader may use any of it)
    def read1(self, n=-1):
        return self.read(n)

    def readinto(self, buf):
        r = self.read(len(buf))
        buf[:len(r)] = r
        return len(r)

    def readline(self, limit=-1):
        data = self._flat()
        end = data.find(b"\n", self.pos)
        end = len(data) if end < 0 else end + 1
        if limit is not None and limit >= 0:
            end = min(end, self.pos + limit)
        r = data[self.pos:end]
        self.pos += len(r)
        return r

    def readlines(self, hint=-1):
        out = []
        while True:
            ln = self.readline()
            if not ln:
                return out
            out.append(ln)

    def __iter__(self):
        return iter(self.readlines())

    def getbuffer(self):
        return _BufferView(self)

    def flush(self):
        pass

    def seekable(self):
        return True

    def readable(self):
        return True

    def writable(self):
        return True

    def fileno(self):
        if self.spooled:
            return 99
        import io
        raise io.UnsupportedOperation("fileno")

    def __enter__(self):
        return self

    def __exit__(self, *exc):
        self.close()


@unmodelled
class _BufferView:
    """what BytesIO.getbuffer() gives: length, slices, bytes() of the content as of now"""
    def __init__(self, owner):
        self.owner = owner

    def _data(self):
        return self.owner._flat()

    def __len__(self):
        return len(self._data())

    nbytes = property(__len__)

    def __getitem__(self, i):
        return self._data()[i]

    def __bytes__(self):
        return bytes(self._data())

    def tobytes(self):
        return self._data()

    def __eq__(self, other):
        return self._data() == (other._data() if isinstance(other, _BufferView) else other)

    def release(self):
        pass

    def __enter__(self):
        return self

    def __exit__(self, *exc):
        pass


def spool_file(*a, **kw):
    return PyBytesIO(spooled=True)


def _file_value(fp):
    pos = fp.tell()
    fp.seek(0)
    data = fp.read()
    fp.seek(pos)
    return data


def validate_body_io():
    """differential check of PyBytesIO against io.BytesIO / a real temporary file on write/seek/truncate/read programs"""
    import io
    import random
    import tempfile
    rnd = random.Random(7)
    for it in range(240):
        spooled = it % 2 == 1
        init = bytes(rnd.randrange(97, 123) for _ in range(rnd.randint(1, 6))) if it % 6 == 0 else b""
        real, stub = (tempfile.TemporaryFile() if spooled else io.BytesIO(init)), PyBytesIO(init, spooled=spooled)
        if spooled:
            real.getvalue = lambda real=real: _file_value(real)
        stub.instances.pop()
        for _ in range(rnd.randint(1, 8)):
            op = rnd.choice(["write", "write", "seek", "read", "truncate", "getvalue", "seek2"])
            if op == "write":
                d = bytes(rnd.randrange(97, 123) for _ in range(rnd.randint(0, 5)))
                ra, sa = real.write(d), stub.write(d)
                if stub.at_end:                 # the stub keeps its read position apart while appending
                    real.seek(0, 2)
                    continue
            elif op == "seek":
                n = rnd.randint(0, 9)
                ra, sa = real.seek(n), stub.seek(n)
            elif op == "seek2":
                ra, sa = real.seek(0, 2), stub.seek(0, 2)
            elif op == "read":
                if stub.at_end:
                    continue
                n = rnd.choice([-1, 0, 1, 3, 100])
                ra, sa = real.read(n), stub.read(n)
            elif op == "truncate":
                if stub.at_end:
                    continue
                ra, sa = real.truncate(), stub.truncate()
            elif op == "getvalue" and rnd.random() < 0.3 and not spooled:
                ra, sa = bytes(real.getbuffer()), bytes(stub.getbuffer())
            else:
                ra, sa = real.getvalue(), stub.getvalue()
            assert ra == sa, ("PyBytesIO differs from io.BytesIO", op, ra, sa)
        assert real.getvalue() == stub.getvalue()
        real.close()


def install_body_io():
    """Rebind BytesIO/TemporaryFile inside ombott.request_pkg.body_mixin (this process only)."""
    validate_body_io()
    from ombott.request_pkg import body_mixin
    body_mixin.BytesIO = PyBytesIO
    body_mixin.TemporaryFile = spool_file


# --------------------------------------------------------------------------
# simulated threads: threading.local as seen from ombott.common_helpers
# --------------------------------------------------------------------------
class SimThreads:
    """current simulated thread id; switched by the harness at preemption points"""
    cur = "T0"


class SimLocal:
    """threading.local: one attribute namespace per (object, current simulated thread)"""

    def __init__(self):
        object.__setattr__(self, "_ns", {})

    def __getattr__(self, k):
        ns = object.__getattribute__(self, "_ns").get(SimThreads.cur)
        if ns is None or k not in ns:
            raise AttributeError("'SimLocal' object (thread %s) has no attribute %r" % (SimThreads.cur, k))
        return ns[k]

    def __setattr__(self, k, v):
        object.__getattribute__(self, "_ns").setdefault(SimThreads.cur, {})[k] = v

    def __delattr__(self, k):
        ns = object.__getattribute__(self, "_ns").get(SimThreads.cur)
        if ns is None or k not in ns:
            raise AttributeError(k)
        del ns[k]


class _SimThreadingModule:
    local = SimLocal

    def __getattr__(self, k):
        import threading
        return getattr(threading, k)


def install_sim_threads():
    """rebind `threading` inside ombott.common_helpers (ts_props stores, HeaderDict._ts) - this process only.
    Only objects created afterwards use SimLocal."""
    from ombott import common_helpers
    common_helpers.threading = _SimThreadingModule()
    SimThreads.cur = "T0"
