"""Stubs of check C05: a request stream whose chunk payload is opaque.

`Rope` is an immutable bytes-like value made of *framing* segments (real bytes: size lines, CRLFs, trailers - possibly
solver-made bytes) and *payload* segments (offset, length) whose length may be a solver integer.  Every payload byte has
the value FILL; what identifies it is its offset in the payload, so loss, duplication and reordering of payload bytes are
visible to an oracle although no byte is ever materialised: a 100 KiB chunk costs as much as a 5 byte chunk.

Contract kept (validated differentially against real bytes by `validate()` at import of the harness):
len, truthiness, slicing, indexing, iteration over short ropes, concatenation with bytes and ropes (both sides),
== / != with bytes, startswith/endswith.  A value without payload is handed out as plain `bytes`, one payload byte as
`Lit` (a bytes subclass b'x' that remembers its offset) so that code which inspects single bytes (b''.join, int(.., 16),
comparisons) keeps working when it is fed payload.  Anything else on a Rope raises (a failure of the query, never silent).
"""
from vf.stubs import PyBytesIO

FILL = 120          # every payload byte is b'x'
_FILL1 = b"x"


class F:
    """framing: `data` (bytes-like) of length n (plain int)"""
    __slots__ = ("data", "n")

    def __init__(self, data, n):
        self.data, self.n = data, n

    def sub(self, a, b):
        return F(self.data[a:b], b - a)


class P:
    """payload bytes [start, start+n) - content never materialised"""
    __slots__ = ("start", "n")

    def __init__(self, start, n):
        self.start, self.n = start, n

    def sub(self, a, b):
        return P(self.start + a, b - a)

    def __repr__(self):
        return "<payload %r+%r>" % (self.start, self.n)


class H(F):
    """payload bytes [start, start+n) with real content `data` (a window of solver bytes inside an otherwise opaque
    chunk: lets the solver craft payload that looks like framing)"""
    __slots__ = ("start",)

    def __init__(self, data, n, start):
        self.data, self.n, self.start = data, n, start

    def sub(self, a, b):
        return H(self.data[a:b], b - a, self.start + a)

    def __repr__(self):
        return "<payload %r+%r %r>" % (self.start, self.n, self.data)


class RopeUnsupported(TypeError):
    pass


def _segs_of(v):
    t = type(v)
    if t is Rope:
        return v.segs
    if t is Lit:
        return (P(v.start, 1),)
    if t is P or t is F or t is H:
        return (v,)
    n = len(v)
    if type(n) is int and n == 0:
        return ()
    return (F(v, n),)


def mk(segs):
    """canonical value of a segment list: bytes when there is no payload, Lit for one payload byte, else Rope"""
    segs = tuple(segs)
    if not segs:
        return b""
    payload = False
    for s in segs:
        if type(s) is not F:
            payload = True
            break
    if not payload:
        if len(segs) == 1:
            return segs[0].data
        return b"".join([s.data for s in segs])
    if len(segs) == 1:
        s = segs[0]
        if s.n == 1:               # decided by the solver when the length is symbolic
            return Lit(s.start) if type(s) is P else s.data     # (a single content byte loses its offset)
    return Rope(segs)


def concat(parts):
    out = []
    for p in parts:
        out.extend(_segs_of(p))
    return mk(out)


def _clamp(i, n, default):
    if i is None:
        return default
    if i < 0:
        i = i + n
        if i < 0:
            return 0
        return i
    if i > n:
        return n
    return i


def _slice(segs, total, sl):
    if sl.step is not None and sl.step != 1:
        raise RopeUnsupported("extended slice of a Rope")
    lo = _clamp(sl.start, total, 0)
    hi = _clamp(sl.stop, total, total)
    out = []
    if lo < hi:
        a = 0
        for seg in segs:
            b = a + seg.n
            if b > lo:
                s = lo if lo > a else a
                e = hi if hi < b else b
                out.append(seg if (s == a and e == b) else seg.sub(s - a, e - a))
                if b >= hi:
                    break
            a = b
    return mk(out)


class Lit(bytes):
    """one payload byte as real bytes (b'x'); `.start` = its payload offset"""

    def __new__(cls, start):
        self = bytes.__new__(cls, _FILL1)
        self.start = start
        return self

    def __add__(self, other):
        return concat([self, other])

    def __radd__(self, other):
        return concat([other, self])

    def __getitem__(self, i):
        if isinstance(i, slice):
            return _slice(_segs_of(self), 1, i)
        return bytes.__getitem__(self, i)

    def __repr__(self):
        return "<payload byte %r>" % (self.start,)

    __hash__ = bytes.__hash__


class Rope:
    __slots__ = ("segs",)

    def __init__(self, segs):
        self.segs = tuple(segs)

    # -- size
    def __len__(self):
        n = 0
        for s in self.segs:
            n = n + s.n
        return n

    def __bool__(self):
        return True           # mk() never builds an empty Rope: segments are non-empty by construction

    # -- structure
    def __add__(self, other):
        return concat([self, other])

    def __radd__(self, other):
        return concat([other, self])

    def __getitem__(self, i):
        total = len(self)
        if isinstance(i, slice):
            return _slice(self.segs, total, i)
        if i < 0:
            i = i + total
        if not 0 <= i < total:
            raise IndexError("index out of range")
        one = _slice(self.segs, total, slice(i, i + 1))
        return one[0]

    def __iter__(self):
        for k in range(len(self)):
            yield self[k]

    # -- content
    def _eq_bytes(self, other):
        n = len(other)
        if len(self) != n:
            return False
        pos = 0
        for s in self.segs:
            if type(s) is not P:
                if s.data != other[pos:pos + s.n]:
                    return False
                pos = pos + s.n
            else:
                k = 0
                while s.n != k:            # enumerates the length of the payload run: bounded by len(other)
                    if other[pos + k] != FILL:
                        return False
                    k += 1
                pos = pos + k
        return True

    def __eq__(self, other):
        if type(other) is Rope:
            if len(self) != len(other):
                return False
            a, b = self.segs, other.segs
            if len(a) == len(b) and all(type(x) is type(y) and x.n == y.n and (
                    x.start == y.start if type(x) is P else x.data == y.data) and (
                    type(x) is not H or x.start == y.start) for x, y in zip(a, b)):
                return True
            raise RopeUnsupported("comparison of two differently segmented Ropes")
        try:
            len(other)
        except TypeError:
            return NotImplemented
        return self._eq_bytes(other)

    def __ne__(self, other):
        r = self.__eq__(other)
        return r if r is NotImplemented else not r

    __hash__ = None

    def startswith(self, x):
        return self[:len(x)] == x

    def endswith(self, x):
        n = len(self)
        k = len(x)
        return k <= n and self[n - k:] == x

    def __repr__(self):
        return "<rope %s>" % " ".join(repr(s) if type(s) is not F else repr(s.data) for s in self.segs)


def flatten(v):
    """real bytes of a Rope / Lit / bytes (native use: validation and messages)"""
    return b"".join(_FILL1 * s.n if type(s) is P else bytes(s.data) for s in _segs_of(v))


def pieces(v):
    """the value as a list of ('p', start, n) / ('f', data) in order"""
    return [("p", s.start, s.n) if type(s) is not F else ("f", s.data) for s in _segs_of(v)]


class RopeStream:
    """wsgi.input over a segment list.  read(n) hands out min(n, what is left before `avail`) bytes - across segment
    boundaries, i.e. a read may return the end of one chunk together with the next size line - except that the k-th
    read *starting inside payload* is capped by frags[k] (short reads).  b'' at EOF.  More than 200 reads at EOF are
    reported as a hang."""

    def __init__(self, segs, avail=None, frags=()):
        self.segs = list(segs)
        self.avail = avail
        self.frags = list(frags)
        self.i = 0           # current segment (always a plain int)
        self.off = 0         # offset inside it (< its length)
        self.pos = 0         # bytes handed out
        self.k = 0
        self.reads = 0
        self.eof_reads = 0

    def read(self, n=-1):
        self.reads += 1
        unlimited = n is None or n < 0
        want = n
        if self.avail is not None:
            rest = self.avail - self.pos
            if unlimited or want > rest:
                want = rest
                unlimited = False
        if self.i < len(self.segs) and type(self.segs[self.i]) is not F:
            if self.k < len(self.frags):
                f = self.frags[self.k]
                if unlimited or f < want:
                    want = f
                    unlimited = False
            self.k += 1
        out = []
        while self.i < len(self.segs):
            if not unlimited and not want > 0:
                break
            seg = self.segs[self.i]
            rest = seg.n - self.off
            if not unlimited and want < rest:
                out.append(seg.sub(self.off, self.off + want))
                self.off = self.off + want
                self.pos = self.pos + want
                break
            out.append(seg if self.off == 0 else seg.sub(self.off, seg.n))
            self.pos = self.pos + rest
            if not unlimited:
                want = want - rest
            self.i += 1
            self.off = 0
        if not out:
            self.eof_reads += 1
            if self.eof_reads > 200:
                raise RuntimeError("wsgi.input.read() called more than 200 times at EOF: the reader does not terminate (hang)")
        return mk(out)


class RopeIO(PyBytesIO):
    """PyBytesIO whose content may hold Ropes: reading gives the concatenation as a Rope / bytes"""

    def _flat(self):
        return concat(self.parts)

    def getvalue(self):
        return concat(self.parts)

    def read(self, n=-1):
        if not self.parts:
            return b""
        data = self._flat()
        whole = n is None or n < 0
        if whole and type(self.pos) is int and self.pos == 0:
            r = data
        elif whole:
            r = data[self.pos:]
        else:
            r = data[self.pos:self.pos + n]
        self.pos = self.pos + len(r)
        return r


def rope_spool(*a, **kw):
    return RopeIO(spooled=True)


def install():
    """body_mixin.BytesIO / TemporaryFile -> RopeIO (this process).  RopeIO is PyBytesIO on plain bytes: the same
    differential program that validates PyBytesIO is run on it."""
    from vf import stubs
    from ombott.request_pkg import body_mixin
    keep = stubs.PyBytesIO
    stubs.PyBytesIO = RopeIO
    try:
        stubs.validate_body_io()
    finally:
        stubs.PyBytesIO = keep
    body_mixin.BytesIO = RopeIO
    body_mixin.TemporaryFile = rope_spool
    validate()


def validate():
    """Rope / RopeStream against real bytes / io.BytesIO on random programs (native)"""
    import io
    import random
    rnd = random.Random(5)
    count = 0
    for it in range(300):
        segs, off = [], 0
        for _ in range(rnd.randint(1, 5)):
            kind = rnd.random()
            if kind < 0.4:
                d = bytes(rnd.choice(b"0a;\r\nx") for _ in range(rnd.randint(1, 4)))
                segs.append(F(d, len(d)))
            elif kind < 0.55:
                d = bytes(rnd.choice(b"0\r\nx") for _ in range(rnd.randint(1, 5)))
                segs.append(H(d, len(d), off))
                off += len(d)
            else:
                n = rnd.randint(1, 6)
                segs.append(P(off, n))
                off += n
        v = mk(segs)
        real = flatten(v)
        assert len(v) == len(real) and bool(v) == bool(real)
        for _ in range(12):
            a, b = rnd.randint(-3, len(real) + 2), rnd.randint(-3, len(real) + 2)
            sl = rnd.choice([slice(a, b), slice(a, None), slice(None, b), slice(None, None)])
            got = v[sl]
            assert flatten(got) == real[sl], (v, sl, got)
            assert type(got) in (bytes, Lit, Rope) and (type(got) is not Rope or any(type(s) is not F for s in got.segs))
            w = rnd.choice([b"", b"\r\n", b"x", b"xx", real[sl], real])
            assert (got == w) == (real[sl] == w) and (got != w) == (real[sl] != w), (got, w)
            assert flatten(got + w) == real[sl] + w and flatten(w + got) == w + real[sl]
            assert flatten(got + v) == real[sl] + real
            if len(real):
                i = rnd.randrange(-len(real), len(real))
                assert v[i] == real[i]
            if type(got) is Rope:
                assert got.startswith(w) == real[sl].startswith(w) and got.endswith(w) == real[sl].endswith(w)
            count += 1
        # payload identity survives slicing and concatenation
        k = rnd.randint(0, len(real))
        again = v[:k] + v[k:]
        if not any(type(x) is H for x in segs):      # (a hole byte on its own is plain bytes)
            assert [p for p in _merge(pieces(again))] == [p for p in _merge(pieces(v))], (v, k, again)
        # stream == BytesIO
        for avail in (None, rnd.randint(0, len(real))):
            s = RopeStream(segs, avail)
            ref = io.BytesIO(real if avail is None else real[:avail])
            for _ in range(10):
                n = rnd.choice([1, 1, 2, 3, 7, 100, -1])
                assert flatten(s.read(n)) == ref.read(n)
        frags = [rnd.randint(1, 3) for _ in range(3)]
        s = RopeStream(segs, None, frags)
        got = []
        for _ in range(60):
            n = rnd.choice([1, 2, 5, 100])
            c = s.read(n)
            assert len(c) <= n
            got.append(c)
        assert flatten(concat(got)) == real
    # RopeIO with ropes
    io_ = RopeIO()
    PyBytesIO.instances.pop()
    io_.write(mk([P(0, 5)]))
    io_.write(b"ab")
    io_.write(mk([P(5, 1)]))
    assert flatten(io_.getvalue()) == b"xxxxxabx" and len(io_.getvalue()) == 8
    io_.seek(0)
    assert flatten(io_.read()) == b"xxxxxabx" and io_.read() == b""
    io_.seek(2)
    assert flatten(io_.read(4)) == b"xxxa"
    return count


def _merge(ps):
    """adjacent payload pieces that continue each other merged; framing pieces joined"""
    out = []
    for p in ps:
        if out and p[0] == "p" and out[-1][0] == "p" and out[-1][1] + out[-1][2] == p[1]:
            out[-1] = ("p", out[-1][1], out[-1][2] + p[2])
        elif out and p[0] == "f" and out[-1][0] == "f":
            out[-1] = ("f", out[-1][1] + p[1])
        else:
            out.append(p)
    return out
