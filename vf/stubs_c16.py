"""Environment stubs of C16 (DESIGN 3.1): a POSIX file system in memory and a
pure-Python normpath, bound into `ombott.static_stream` only (module attributes
`os` and `open` of that module; nothing global is changed).

py_normpath   posixpath.normpath is the C function `_path_normpath` in 3.12: the
              symbolic engine cannot see through it.  This is the algorithm of
              CPython 3.10.  `validate_normpath()` compares it with the C function.
sym_split     str.split for a one-character separator in one pass over the code points
              of a symbolic string (plain str.split on a plain str).  CrossHair's split
              recurses per separator; names of thousands of characters need this.  Used by
              py_normpath and FakeFS (stub code only, never by ombott).
FakeFS        a fixed tree of directories and regular files resolved with POSIX
              semantics (no symlinks): '' ENOENT, '.' and '..' walk the tree, '..'
              of '/' is '/', a component below a regular file is ENOTDIR, '//' is
              '/'.  Records every path given to open()/stat().  `validate_fs()`
              builds the same tree on disk and compares exists/isfile.
"""
import os
import posixpath
import shutil
import tempfile
import types


def _lazy_str_class():
    from crosshair.libimpl.builtinslib import LazyIntSymbolicStr
    return LazyIntSymbolicStr


def sym_split(path, sep="/"):
    """`path.split(sep)` for a one-character separator.  On a plain str it IS str.split.  On CrossHair's symbolic str
    (a sequence of code points, each a Python int or a solver int) the code points are scanned once, without
    recursion: a concrete code point is compared natively, a solver code point by the solver (forks exactly as
    `==` does).  CrossHair's own split recurses once per separator and re-slices the rest (0.8 ms per character,
    RecursionError beyond ~900 separators), which long names cannot afford.  Segments without a solver code point
    come back as plain str.  Differentially checked against CrossHair's split under the tracer (harness query
    model/split) and against CPython natively (validate_normpath)."""
    from crosshair.core import NoTracing, ResumedTracing
    from crosshair.tracers import is_tracing
    if not is_tracing():
        return path.split(sep)
    with NoTracing():
        lazy_class = _lazy_str_class()
        lazy = isinstance(path, lazy_class) and isinstance(sep, str) and len(sep) == 1
    if not lazy:
        return path.split(sep)
    points = list(path._codepoints)          # traced: decides the length of the symbolic parts
    with NoTracing():
        cut = ord(sep)
        out = []
        start = 0
        concrete = True
        n = len(points)
        for i in range(n + 1):
            if i < n:
                cp = points[i]
                if type(cp) is int:
                    hit = cp == cut
                else:
                    concrete = False
                    with ResumedTracing():
                        hit = bool(cp == cut)
                if not hit:
                    continue
            seg = points[start:i]
            out.append("".join(map(chr, seg)) if concrete else lazy_class(seg))
            start = i + 1
            concrete = True
    return out


def py_normpath_ref(path):
    """posixpath.normpath of CPython 3.10, verbatim (str.split of the engine): reference for py_normpath."""
    return py_normpath(path, _split=lambda p, sep: p.split(sep))


def py_normpath(path, _split=None):
    """posixpath.normpath of CPython 3.10 (str and bytes); a str is split by sym_split (same result, one pass)."""
    path = os.fspath(path)
    if isinstance(path, bytes):
        sep, empty, dot, dotdot = b"/", b"", b".", b".."
    else:
        sep, empty, dot, dotdot = "/", "", ".", ".."
    if path == empty:
        return dot
    initial_slashes = path.startswith(sep)
    # POSIX allows one or two initial slashes, but treats three or more as single slash.
    if initial_slashes and path.startswith(sep * 2) and not path.startswith(sep * 3):
        initial_slashes = 2
    if _split is not None:
        comps = _split(path, sep)
    elif isinstance(path, bytes):
        comps = path.split(sep)
    else:
        comps = sym_split(path, sep)
    new_comps = []
    for comp in comps:
        if comp == empty or comp == dot:
            continue
        if (comp != dotdot or (not initial_slashes and not new_comps)
                or (new_comps and new_comps[-1] == dotdot)):
            new_comps.append(comp)
        elif new_comps:
            new_comps.pop()
    path = sep.join(new_comps)
    if initial_slashes:
        path = sep * initial_slashes + path
    return path or dot


def _strings(alphabet, maxlen):
    level = [""]
    yield ""
    for _ in range(maxlen):
        level = [s + c for s in level for c in alphabet]
        yield from level


def validate_normpath(maxlen=7):
    """py_normpath == the C normpath on every string of length <= maxlen over {a . / \\}."""
    n = 0
    for s in _strings("a./\\", maxlen):
        want = posixpath.normpath(s)
        got = py_normpath(s)
        assert got == want, "py_normpath(%r) = %r, C normpath = %r" % (s, got, want)
        assert py_normpath(s.encode()) == want.encode(), s
        assert py_normpath_ref(s) == want, s
        n += 1
    return n


def validate_long(paths):
    """py_normpath == the C normpath on the given (long) paths, str and bytes"""
    for s in paths:
        want = posixpath.normpath(s)
        assert py_normpath(s) == want and py_normpath_ref(s) == want, "py_normpath on a path of %d characters (%r...)" % (
            len(s), s[:40])
        assert py_normpath(s.encode()) == want.encode()
    return len(paths)


# ---------------------------------------------------------------- file system
class Node:
    """directory (children: list of (name, Node)) or regular file (children None)"""

    def __init__(self, canon, children=None, readable=True, size=0):
        self.canon = canon            # tuple of names from '/'
        self.children = children
        self.readable = readable
        self.size = size

    @property
    def isdir(self):
        return self.children is not None

    @property
    def path(self):
        return "/" + "/".join(self.canon)


class StatResult:
    def __init__(self, node):
        self.st_size = node.size
        self.st_mtime = 1700000000.0
        self.st_mode = 0o040755 if node.isdir else 0o100644


class FakeFile:
    def __init__(self, node):
        self.node = node
        self.pos = 0
        self.closed = False

    def read(self, n=-1):
        rest = self.node.size - self.pos
        if n is None or n < 0 or n > rest:
            n = rest
        self.pos += n
        return b"x" * n

    def seek(self, pos, whence=0):
        self.pos = pos
        return pos

    def close(self):
        self.closed = True


class FakeFS:
    """tree: nested dict, a dict is a directory, an int a readable regular file of that size,
    a negative int a regular file without read permission."""

    def __init__(self, tree, cwd):
        self.root = self._build((), tree)
        self.opened = []        # (path asked, Node) in call order
        self.statted = []
        self.cwd = cwd
        self.cwd_gone = False   # the working directory of the process was removed: getcwd() fails (ENOENT)
        self.cwd_stack = self._walk([self.root], cwd)
        assert self.cwd_stack is not None and self.cwd_stack[-1].isdir, cwd

    def getcwd(self):
        if self.cwd_gone:
            raise FileNotFoundError(2, "No such file or directory")
        return self.cwd

    def _build(self, canon, spec):
        if isinstance(spec, dict):
            return Node(canon, [(name, self._build(canon + (name,), sub)) for name, sub in spec.items()])
        return Node(canon, None, readable=spec >= 0, size=abs(spec))

    @staticmethod
    def _walk(stack, path):
        """follow `path` from the directory stack[-1]; the new stack or None (ENOENT/ENOTDIR)"""
        stack = list(stack)
        for seg in sym_split(path, "/"):
            if not stack[-1].isdir:
                return None
            if seg == "" or seg == ".":
                continue
            if seg == "..":
                if len(stack) > 1:
                    stack.pop()
                continue
            for name, child in stack[-1].children:
                if seg == name:
                    stack.append(child)
                    break
            else:
                return None
        return stack

    def resolve(self, path):
        """Node that `path` names, or None"""
        if not isinstance(path, str):
            raise TypeError("FakeFS paths are str")
        if path == "":
            return None
        start = [self.root] if path.startswith("/") else self.cwd_stack
        stack = self._walk(start, path)
        return None if stack is None else stack[-1]

    # -- what static_stream sees
    def exists(self, path):
        return self.resolve(path) is not None

    def isfile(self, path):
        node = self.resolve(path)
        return node is not None and not node.isdir

    def isdir(self, path):
        node = self.resolve(path)
        return node is not None and node.isdir

    def access(self, path, mode):
        node = self.resolve(path)
        if node is None:
            return False
        return node.readable or not (mode & os.R_OK)

    def stat(self, path):
        node = self.resolve(path)
        if node is None:
            raise FileNotFoundError(2, "No such file or directory")
        self.statted.append((path, node))
        return StatResult(node)

    def open(self, path, mode="r", *a, **kw):
        node = self.resolve(path)
        # recorded before the outcome is known: an attempt counts
        self.opened.append((path, node))
        if node is None:
            raise FileNotFoundError(2, "No such file or directory")
        if node.isdir:
            raise IsADirectoryError(21, "Is a directory")
        if not node.readable:
            raise PermissionError(13, "Permission denied")
        if mode not in ("r", "rb"):
            raise PermissionError(30, "Read-only file system")
        return FakeFile(node)


def _rebound(func, **names):
    """the same code object run with some module globals replaced"""
    g = dict(func.__globals__)
    g.update(names)
    return types.FunctionType(func.__code__, g, func.__name__, func.__defaults__, func.__closure__)


class _PathNamespace:
    """`os.path` as seen from static_stream: posixpath, with the file-system queries answered by the
    bound FakeFS, the C normpath replaced by py_normpath and getcwd() being the fake cwd."""

    def __init__(self, binding, fake_os):
        self.exists = lambda path: binding.fs.exists(path)
        self.lexists = self.exists
        self.isfile = lambda path: binding.fs.isfile(path)
        self.isdir = lambda path: binding.fs.isdir(path)
        self.normpath = py_normpath
        self.abspath = _rebound(posixpath.abspath, os=fake_os, normpath=py_normpath)
        self.realpath = self.abspath          # the tree has no symbolic links

    def __getattr__(self, name):             # join, basename, sep, ... : the real thing
        return getattr(posixpath, name)


class _OsNamespace:
    def __init__(self, binding):
        self.getcwd = lambda: binding.fs.getcwd()
        self.access = lambda path, mode: binding.fs.access(path, mode)
        self.stat = lambda path: binding.fs.stat(path)
        self.lstat = self.stat
        self.path = _PathNamespace(binding, self)

    def __getattr__(self, name):             # sep, R_OK, fspath, ...
        return getattr(os, name)


class Binding:
    """Rebinds `os` and `open` of one module (once, at import of the harness: function objects cannot be
    built under the tracer).  `fs` is the FakeFS that answers; a query sets a fresh one on every run."""

    def __init__(self, module):
        self.fs = None
        self.os = _OsNamespace(self)
        module.os = self.os
        module.open = lambda path, mode="r", *a, **kw: self.fs.open(path, mode, *a, **kw)


def keep_caches(module_prefix):
    """CrossHair calls every functools.lru_cache'd function with the cache skipped (libimpl/functoolslib), so state
    that the code under test keeps in such a cache between two calls is invisible to the symbolic run (it shows
    only in the native replays).  For functions of `module_prefix` called with concrete arguments the real cache
    is used, as in CPython; the wrapped function then runs on concrete values, without the tracer.  Calls with a
    symbolic argument keep CrossHair's behaviour (hashing would realise the value)."""
    import crosshair.core_and_libs  # noqa: registrations first
    from crosshair import core
    from crosshair.core import NoTracing
    from crosshair.util import CrossHairValue
    from functools import _lru_cache_wrapper

    real_call = _lru_cache_wrapper.__call__
    skipping = core._PATCH_REGISTRATIONS[real_call]
    if getattr(skipping, "keeps_for", None) is not None:       # already installed
        skipping.keeps_for.add(module_prefix)
        return

    def call(self, *a, **kw):
        with NoTracing():
            if (isinstance(self, _lru_cache_wrapper)
                    and any(str(self.__wrapped__.__module__).startswith(p) for p in call.keeps_for)
                    and not any(isinstance(v, CrossHairValue) for v in a)
                    and not any(isinstance(v, CrossHairValue) for v in kw.values())):
                return real_call(self, *a, **kw)
        return skipping(self, *a, **kw)
    call.keeps_for = {module_prefix}
    core._PATCH_REGISTRATIONS[real_call] = call


def validate_fs(tree, maxlen=5, extra=()):
    """FakeFS.exists/isfile == the operating system's on the same tree written to a scratch
    directory, for every absolute path '/' + s, s over the characters of the tree's names and
    './', |s| <= maxlen, that does not climb above '/' (where the scratch prefix would show)."""
    names = []

    def collect(spec):
        for name, sub in spec.items():
            names.append(name)
            if isinstance(sub, dict):
                collect(sub)
    collect(tree)
    names = sorted(set(names))
    short = sorted({n for n in names if len(n) == 1})
    base = tempfile.mkdtemp(prefix="c16_fs_", dir="/tmp")
    n = 0
    try:
        def write(at, spec):
            for name, sub in spec.items():
                p = os.path.join(at, name)
                if isinstance(sub, dict):
                    os.mkdir(p)
                    write(p, sub)
                else:
                    with open(p, "wb") as fh:
                        fh.write(b"x" * abs(sub))
        write(base, tree)
        fs = FakeFS(tree, "/")
        probes = set()
        for s in _strings("./" + "".join(short), maxlen):
            probes.add("/" + s)
        for a in names:                       # every real name in first and second position, then a short tail
            for b in names + [".", "..", ""]:
                for s in _strings("./" + "".join(short[:2]), 3):
                    probes.add("/" + a + "/" + b + "/" + s)
                    probes.add("//" + a + "//" + b + s)
        probes.update(extra)                  # long / deep absolute paths given by the caller
        for p in sorted(probes):
            depth = 0
            climbs = False
            for seg in p.split("/"):
                if seg == "..":
                    depth -= 1
                    climbs = climbs or depth < 0
                elif seg not in ("", "."):
                    depth += 1
            if climbs:
                continue
            real = base + p
            assert fs.exists(p) == os.path.exists(real), "exists(%r): fake %r" % (p, fs.exists(p))
            assert fs.isfile(p) == os.path.isfile(real), "isfile(%r): fake %r" % (p, fs.isfile(p))
            n += 1
        # '..' of the root directory is the root directory (checked against the real '/')
        assert fs.isdir("/..") and os.path.isdir("/..") and fs.resolve("/../..") is fs.root
    finally:
        shutil.rmtree(base, ignore_errors=True)
    return n
