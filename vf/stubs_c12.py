"""Stubs used only by the C12 check (malformed bodies give client errors).

PieceStream   wsgi.input that hands the body out piece by piece (short reads at piece ends), so that the few symbolic
              bytes of a body reach the streaming parser in a chunk of their own and the rest stays concrete.
ListForms     FormsDict (a C hash table: hashing realises a symbolic key) as an association list searched with `==`.
py_unquote    urllib.parse.unquote as seen from request_pkg.helpers (its C-level hex table realises): percent
              decoder + UTF-8 'replace' decoder written out in Python.
PyJson        json as seen from body_mixin (`json_mod.loads`, C scanner): recursive-descent reader for ASCII texts
              (bytes 0x01..0x7f), any other input goes to the real json.loads.
Each is compared with the real object on concrete inputs by `validate()`, which the harness runs at import.

fix_relib              two corrections of CrossHair's regex model (they belong in vf/chmodels.py), checked against
                       CPython's `re` under the tracer by `check_regex_models()` (run by the harness self-test).
warm_symbolic_tables   builds CrossHair's Unicode tables once, before the runner forks."""
import io
import itertools
import json
import re
import urllib.parse


# ---------------------------------------------------------------------------------------------- wsgi.input
from vf.engine import unmodelled  # noqa: E402

@unmodelled
class PieceStream:
    """read(n) returns the next <= n bytes of the current piece and never crosses a piece end (a short read, legal
    for wsgi.input); b'' after the last piece.  Records every n asked for.  A reader that asks more than 200 times
    at EOF does not terminate: that hang is made a visible failure (RuntimeError) instead of a path that runs into
    the engine's per-path timeout."""

    def __init__(self, pieces):
        self.pieces = [p for p in pieces if len(p)]
        self.i = 0
        self.off = 0
        self.asked = []
        self.eof_reads = 0

    def read(self, n=-1):
        self.asked.append(n)
        if self.i >= len(self.pieces):
            self.eof_reads += 1
            if self.eof_reads > 200:
                raise RuntimeError("wsgi.input.read() called more than 200 times at EOF: the reader does not terminate (hang)")
            return b""
        piece = self.pieces[self.i]
        rest = len(piece) - self.off
        if n is None or n < 0 or n >= rest:
            out = piece[self.off:] if self.off else piece
            self.i += 1
            self.off = 0
            return out
        out = piece[self.off:self.off + n]
        self.off += n
        return out


def chunked_pieces(pieces, ext=b""):
    """Legal chunked transfer coding of the concatenated pieces, one chunk per non-empty piece, as a piece list
    (size lines and CRLFs are pieces of their own, so framing stays concrete).  `ext` = chunk extension put on
    every size line, e.g. b';sig=abc'."""
    out = []
    for p in pieces:
        if len(p):
            out += [b"%x" % len(p) + ext + b"\r\n", p, b"\r\n"]
    return out + [b"0" + ext + b"\r\n\r\n"]


# ---------------------------------------------------------------------------------------------- FormsDict
class ListForms:
    """Mapping protocol of FormsDict over an association list: insertion order, overwrite on equal key, attribute
    access to values (missing -> None).  Keys are compared with `==`, never hashed."""

    def __init__(self, *args, **kw):
        self.__dict__["entries"] = []
        self.update(*args, **kw)

    def update(self, *args, **kw):
        for src in args:
            pairs = [(k, src[k]) for k in src.keys()] if hasattr(src, "keys") else src
            for k, v in pairs:
                self[k] = v
        for k, v in kw.items():
            self[k] = v

    def __setitem__(self, key, value):
        for e in self.entries:
            if e[0] == key:
                e[1] = value
                return
        self.entries.append([key, value])

    def __getitem__(self, key):
        for k, v in self.entries:
            if k == key:
                return v
        raise KeyError(key)

    def get(self, key, default=None):
        for k, v in self.entries:
            if k == key:
                return v
        return default

    def __contains__(self, key):
        for k, _ in self.entries:
            if k == key:
                return True
        return False

    def __getattr__(self, name):
        if name.startswith("__") and name.endswith("__"):
            raise AttributeError(name)
        return self.get(name, None)

    def __len__(self):
        return len(self.entries)

    def __iter__(self):
        return iter([k for k, _ in self.entries])

    def keys(self):
        return [k for k, _ in self.entries]

    def values(self):
        return [v for _, v in self.entries]

    def items(self):
        return [(k, v) for k, v in self.entries]


# ---------------------------------------------------------------------------------------------- unquote
def _hexval(c):
    if "0" <= c <= "9":
        return ord(c) - 48
    if "a" <= c <= "f":
        return ord(c) - 87
    if "A" <= c <= "F":
        return ord(c) - 55
    return -1


def _utf8_replace(bs):
    """bytes(bs).decode('utf-8', 'replace') for a list of ints (CPython: one U+FFFD per maximal ill-formed prefix)."""
    out = []
    i, n = 0, len(bs)
    while i < n:
        b0 = bs[i]
        if b0 < 0x80:
            out.append(chr(b0))
            i += 1
            continue
        if 0xC2 <= b0 <= 0xDF:
            need, lo, hi, cp = 1, 0x80, 0xBF, b0 & 0x1F
        elif 0xE0 <= b0 <= 0xEF:
            need, cp = 2, b0 & 0x0F
            lo, hi = (0xA0, 0xBF) if b0 == 0xE0 else (0x80, 0x9F) if b0 == 0xED else (0x80, 0xBF)
        elif 0xF0 <= b0 <= 0xF4:
            need, cp = 3, b0 & 0x07
            lo, hi = (0x90, 0xBF) if b0 == 0xF0 else (0x80, 0x8F) if b0 == 0xF4 else (0x80, 0xBF)
        else:
            out.append("\ufffd")
            i += 1
            continue
        j = i + 1
        ok = True
        while j <= i + need:
            if j >= n or not (lo <= bs[j] <= hi):
                ok = False
                break
            cp = (cp << 6) | (bs[j] & 0x3F)
            lo, hi = 0x80, 0xBF
            j += 1
        out.append(chr(cp) if ok else "\ufffd")
        i = j
    return "".join(out)


def py_unquote(s, encoding="utf-8", errors="replace"):
    """urllib.parse.unquote(s): runs of ASCII characters are percent-decoded to bytes and read as UTF-8 with
    replacement, non-ASCII characters are kept."""
    if not isinstance(s, str):
        raise TypeError("unquote() argument must be str")
    if encoding != "utf-8" or errors != "replace":
        return urllib.parse.unquote(s, encoding, errors)
    if "%" not in s:
        return s
    out, run = [], []
    i, n = 0, len(s)
    while i < n:
        c = s[i]
        if c == "%" and i + 2 < n and _hexval(s[i + 1]) >= 0 and _hexval(s[i + 2]) >= 0:
            run.append(_hexval(s[i + 1]) * 16 + _hexval(s[i + 2]))
            i += 3
        elif c < "\x80":
            run.append(ord(c))
            i += 1
        else:
            out.append(_utf8_replace(run))
            run = []
            out.append(c)
            i += 1
    out.append(_utf8_replace(run))
    return "".join(out)


# ---------------------------------------------------------------------------------------------- json
class ModelJSONError(ValueError):
    """what json.JSONDecodeError is to body_mixin: a ValueError"""


_ESC = {34: '"', 92: "\\", 47: "/", 98: "\b", 102: "\f", 110: "\n", 114: "\r", 116: "\t"}


class _Reader:
    def __init__(self, data):
        self.d = data
        self.n = len(data)

    def ws(self, i):
        while i < self.n and (self.d[i] == 32 or self.d[i] == 9 or self.d[i] == 10 or self.d[i] == 13):
            i += 1
        return i

    def lit(self, i, word):
        return self.d[i:i + len(word)] == word

    def value(self, i):
        if i >= self.n:
            raise ModelJSONError("Expecting value")
        c = self.d[i]
        if c == 34:
            return self.string(i + 1)
        if c == 123:
            return self.object(i + 1)
        if c == 91:
            return self.array(i + 1)
        if c == 110 and self.lit(i, b"null"):
            return None, i + 4
        if c == 116 and self.lit(i, b"true"):
            return True, i + 4
        if c == 102 and self.lit(i, b"false"):
            return False, i + 5
        if c == 78 and self.lit(i, b"NaN"):
            return float("nan"), i + 3
        if c == 73 and self.lit(i, b"Infinity"):
            return float("inf"), i + 8
        if c == 45 and self.lit(i, b"-Infinity"):
            return float("-inf"), i + 9
        return self.number(i)

    def digits(self, i):
        j = i
        while j < self.n and 48 <= self.d[j] <= 57:
            j += 1
        return j

    def number(self, i):
        j = i + 1 if self.d[i] == 45 else i
        if j < self.n and self.d[j] == 48:
            k = j + 1
        else:
            k = self.digits(j)
            if k == j:
                raise ModelJSONError("Expecting value")
        is_int = True
        if k + 1 < self.n and self.d[k] == 46 and 48 <= self.d[k + 1] <= 57:
            k = self.digits(k + 1)
            is_int = False
        if k < self.n and (self.d[k] == 101 or self.d[k] == 69):
            m = k + 1
            if m < self.n and (self.d[m] == 43 or self.d[m] == 45):
                m += 1
            if m < self.n and 48 <= self.d[m] <= 57:
                k = self.digits(m)
                is_int = False
        text = "".join([chr(c) for c in self.d[i:k]])
        return (int(text) if is_int else float(text)), k

    def hex4(self, i):
        if i + 4 > self.n:
            raise ModelJSONError("Invalid \\uXXXX escape")
        v = 0
        for c in self.d[i:i + 4]:
            h = _hexval(chr(c))
            if h < 0:
                raise ModelJSONError("Invalid \\uXXXX escape")
            v = v * 16 + h
        return v

    def string(self, i):
        out = []
        while True:
            if i >= self.n:
                raise ModelJSONError("Unterminated string")
            c = self.d[i]
            if c == 34:
                return "".join(out), i + 1
            if c < 32:
                raise ModelJSONError("Invalid control character")
            if c != 92:
                out.append(chr(c))
                i += 1
                continue
            if i + 1 >= self.n:
                raise ModelJSONError("Unterminated string")
            e = self.d[i + 1]
            if e == 117:
                cp = self.hex4(i + 2)
                i += 6
                if 0xD800 <= cp <= 0xDBFF and self.d[i:i + 2] == b"\\u":
                    lo = self.hex4(i + 2)
                    if 0xDC00 <= lo <= 0xDFFF:
                        cp = 0x10000 + (((cp - 0xD800) << 10) | (lo - 0xDC00))
                        i += 6
                out.append(chr(cp))
                continue
            ch = _ESC.get(e)
            if ch is None:
                raise ModelJSONError("Invalid \\escape")
            out.append(ch)
            i += 2

    def array(self, i):
        out = []
        i = self.ws(i)
        if i < self.n and self.d[i] == 93:
            return out, i + 1
        while True:
            v, i = self.value(self.ws(i))
            out.append(v)
            i = self.ws(i)
            if i < self.n and self.d[i] == 93:
                return out, i + 1
            if i >= self.n or self.d[i] != 44:
                raise ModelJSONError("Expecting ',' delimiter")
            i += 1

    def object(self, i):
        out = {}
        i = self.ws(i)
        if i < self.n and self.d[i] == 125:
            return out, i + 1
        while True:
            if i >= self.n or self.d[i] != 34:
                raise ModelJSONError("Expecting property name enclosed in double quotes")
            k, i = self.string(i + 1)
            i = self.ws(i)
            if i >= self.n or self.d[i] != 58:
                raise ModelJSONError("Expecting ':' delimiter")
            v, i = self.value(self.ws(i + 1))
            out[k] = v
            i = self.ws(i)
            if i < self.n and self.d[i] == 125:
                return out, i + 1
            if i >= self.n or self.d[i] != 44:
                raise ModelJSONError("Expecting ',' delimiter")
            i = self.ws(i + 1)


class PyJson:
    """stands for the `json` module inside body_mixin (only `loads` is used there)"""
    JSONDecodeError = ModelJSONError

    @staticmethod
    def loads(data):
        ascii_only = isinstance(data, (bytes, bytearray))
        if ascii_only:
            for c in data:
                if not (1 <= c <= 127):
                    ascii_only = False
                    break
        if not ascii_only:
            return json.loads(data)          # encoding detection, UTF-8/16/32 decoding: the real thing
        r = _Reader(data)
        v, i = r.value(r.ws(0))
        if r.ws(i) != r.n:
            raise ModelJSONError("Extra data")
        return v


# ---------------------------------------------------------------------------------------------- regexes that must finish
# CrossHair turns a regex on symbolic text into a z3 formula (no backtracking) and CPython's engine cannot be interrupted
# on concrete text, so a pattern that backtracks catastrophically is invisible both ways.  BudgetPattern is
# stubs_c07.PyPattern - a backtracking interpreter of the parse tree CPython builds from the CURRENT pattern of the code
# under test, with sre's priorities - plus a step counter: one step = one node of the pattern tried at one position.  A
# match/search/finditer over a text of L characters that needs more than `budget(L)` steps is recorded in HANGS and
# aborted with DidNotFinish: the deterministic stand-in for "the request hangs in the regex engine".
HANGS = []                     # failure texts of the current request; the harness empties it before each request


def budget(length):
    """steps allowed for one match/search/finditer over a text of `length` characters: quadratic time passes, the
    margin (x50) is such that an algorithm of cubic or exponential cost is over it from ~40 characters on"""
    return 50 * length * length + 1000


class DidNotFinish(Exception):
    """raised inside the code under test; not a RequestError, so ombott cannot take it for a client error"""


class _ByteText:
    """a bytes subject as the text the interpreter reads: s[i] is a 1-character str, s[i:j] the bytes (for groups)"""

    def __init__(self, data):
        self.data = data

    def __len__(self):
        return len(self.data)

    def __getitem__(self, i):
        if isinstance(i, slice):
            return self.data[i]
        return chr(self.data[i])


def _case_variants(code, is_bytes):
    """code points that sre's IGNORECASE lets stand for `code` (candidates from the case mappings and sre's extra-case
    table, each confirmed with the real engine)"""
    if is_bytes:
        ch = bytes([code])
        cands = {code, ord(ch.lower()), ord(ch.upper())} if code < 128 else {code}
        probe = re.compile(re.escape(ch), re.IGNORECASE)
        return sorted(c for c in cands if probe.fullmatch(bytes([c])))
    from re import _casefix
    ch = chr(code)
    cands = {code}
    for t in (ch.lower(), ch.upper(), ch.swapcase(), ch.casefold()):
        if len(t) == 1:
            cands.add(ord(t))
    for c in list(cands):
        cands.update(_casefix._EXTRA_CASES.get(c, ()))
        for k, extra in _casefix._EXTRA_CASES.items():
            if c in extra:
                cands.add(k)
    for c in list(cands):
        for t in (chr(c).lower(), chr(c).upper()):
            if len(t) == 1:
                cands.add(ord(t))
    probe = re.compile(re.escape(ch), re.IGNORECASE)
    return sorted(c for c in cands if probe.fullmatch(chr(c)))


_CATEGORY_RANGES = {}


def _category_ranges(cat, is_bytes):
    """a character category (space, digit, word and their negations) as the list of code point ranges CPython's engine
    accepts for it"""
    from re import _constants as C
    key = (str(cat), is_bytes)
    if key not in _CATEGORY_RANGES:
        esc = {C.CATEGORY_SPACE: r"\s", C.CATEGORY_NOT_SPACE: r"\S", C.CATEGORY_DIGIT: r"\d", C.CATEGORY_NOT_DIGIT: r"\D",
               C.CATEGORY_WORD: r"\w", C.CATEGORY_NOT_WORD: r"\W"}.get(cat)
        if esc is None:
            raise NotImplementedError("BudgetPattern: category %s" % (cat,))
        if is_bytes:
            probe = re.compile(esc.encode()).match
            hits = [c for c in range(256) if probe(bytes([c]))]
        else:
            probe = re.compile(esc).match
            hits = [c for c in range(0x110000) if probe(chr(c))]
        ranges = []
        for c in hits:
            if ranges and ranges[-1][1] == c - 1:
                ranges[-1][1] = c
            else:
                ranges.append([c, c])
        _CATEGORY_RANGES[key] = [(C.RANGE, (lo, hi)) for lo, hi in ranges]
    return _CATEGORY_RANGES[key]


def _expand_categories(nodes, is_bytes):
    """parse tree with every category inside a set written out as ranges (the interpreter knows literals and ranges)"""
    from re import _constants as C
    out = []
    for op, av in nodes:
        if op is C.IN:
            items = []
            for iop, iav in av:
                items += _category_ranges(iav, is_bytes) if iop is C.CATEGORY else [(iop, iav)]
            out.append((op, items))
        elif op is C.BRANCH:
            out.append((op, (av[0], [_expand_categories(list(alt), is_bytes) for alt in av[1]])))
        elif op is C.SUBPATTERN:
            out.append((op, (av[0], av[1], av[2], _expand_categories(list(av[3]), is_bytes))))
        elif op in (C.MAX_REPEAT, C.MIN_REPEAT):
            out.append((op, (av[0], av[1], _expand_categories(list(av[2]), is_bytes))))
        else:
            out.append((op, av))
    return out


def _fold_case(nodes, is_bytes):
    """parse tree of an IGNORECASE pattern rewritten so that the case-sensitive interpreter matches it: a literal
    becomes the set of its case variants"""
    from re import _constants as C
    out = []
    for op, av in nodes:
        if op is C.LITERAL or op is C.NOT_LITERAL:
            variants = _case_variants(av, is_bytes)
            if len(variants) > 1 or op is C.NOT_LITERAL:
                items = [(C.NEGATE, None)] if op is C.NOT_LITERAL else []
                out.append((C.IN, items + [(C.LITERAL, v) for v in variants]))
            else:
                out.append((op, av))
        elif op is C.IN:
            items = []
            for iop, iav in av:
                if iop is C.LITERAL:
                    items += [(C.LITERAL, v) for v in _case_variants(iav, is_bytes)]
                elif iop is C.RANGE:
                    if iav[1] - iav[0] > 255:
                        raise NotImplementedError("BudgetPattern: wide range under IGNORECASE")
                    for c in range(iav[0], iav[1] + 1):
                        items += [(C.LITERAL, v) for v in _case_variants(c, is_bytes)]
                else:
                    items.append((iop, iav))
            out.append((op, items))
        elif op is C.BRANCH:
            out.append((op, (av[0], [_fold_case(list(alt), is_bytes) for alt in av[1]])))
        elif op is C.SUBPATTERN:
            out.append((op, (av[0], av[1], av[2], _fold_case(list(av[3]), is_bytes))))
        elif op in (C.MAX_REPEAT, C.MIN_REPEAT):
            out.append((op, (av[0], av[1], _fold_case(list(av[2]), is_bytes))))
        else:
            out.append((op, av))
    return out


class _Run:
    """step account of one match / search / whole finditer iteration over `subject`"""

    def __init__(self, subject):
        self.subject = subject
        self.length = len(subject)
        self.steps = 0
        self.mark = 0            # steps when the current stretch began
        self.native = False      # the subject has been realised, the interpreter runs untraced


class _TracedAllowanceSpent(Exception):
    """internal: the current stretch goes on untraced over the realised subject"""


def _make_budget_pattern():
    from crosshair.core import realize
    from crosshair.tracers import NoTracing, is_tracing
    from .stubs_c07 import PyPattern, _check

    class BudgetPattern(PyPattern):
        """PyPattern of a compiled pattern of the code under test (str or bytes, no flags or IGNORECASE) that counts
        its steps.  `what` names the parser the pattern belongs to, for the failure text.

        Under the tracer a step costs ~0.15 ms, the budget of a 100-character line is 500 000 steps.  So a stretch
        (one search) gets a linear allowance of traced steps, max(4000, 30*L) - several times what the patterns of
        the unchanged tree need on the lines of the families; when it is spent, the subject is realised (the solver
        picks a value that satisfies every decision taken so far; the other values stay in the search tree for later
        paths), and the stretch is run again, untraced, on that value up to the full budget."""

        def __init__(self, compiled, what):
            from re import _parser
            pattern = compiled.pattern
            self.is_bytes = isinstance(pattern, bytes)
            if compiled.flags & ~(re.IGNORECASE | (0 if self.is_bytes else re.UNICODE)):
                raise NotImplementedError("BudgetPattern: flags %r" % (compiled.flags,))
            self.what = what
            self.pattern = pattern
            self.flags = compiled.flags
            self.groups = compiled.groups
            self.groupindex = dict(compiled.groupindex)
            nodes = _expand_categories(list(_parser.parse(pattern, compiled.flags & re.IGNORECASE)), self.is_bytes)
            _check(nodes)
            if compiled.flags & re.IGNORECASE:
                nodes = _fold_case(nodes, self.is_bytes)
            self._nodes = nodes
            self._run = None

        def _seq(self, nodes, k, s, n, i, spans, cont):
            run = self._run
            run.steps += 1
            # the length may be a solver value: it is looked at only once the count passed the constant part
            if run.steps > 1000:
                if not run.native and run.steps - run.mark > 4000 and run.steps - run.mark > 30 * run.length \
                        and is_tracing():
                    raise _TracedAllowanceSpent()
                if run.steps > budget(run.length):
                    text = "%s: the regular expression %r did not finish within %d steps (50*L*L+1000) on a text of " \
                           "L = %d characters: catastrophic backtracking, the request hangs in the regex engine" % (
                               self.what, self.pattern, run.steps - 1, run.length)
                    HANGS.append(text)
                    raise DidNotFinish(text)
            return super()._seq(nodes, k, s, n, i, spans, cont)

        def _counted(self, run, call):
            """one stretch of interpretation, `call(subject)`, on the account `run`, with room for the interpreter's
            recursion (it uses a few frames per character of the subject)"""
            import sys
            before = sys.getrecursionlimit()
            sys.setrecursionlimit(max(before, 100000))
            self._run = run
            run.mark = run.steps
            try:
                if run.native and is_tracing():
                    with NoTracing():
                        return call(run.subject)
                try:
                    return call(run.subject)
                except _TracedAllowanceSpent:
                    pass
                subject = run.subject
                run.subject = _ByteText(realize(subject.data)) if self.is_bytes else realize(subject)
                run.length = realize(run.length)
                run.native = True
                run.steps = run.mark
                with NoTracing():
                    return call(run.subject)
            finally:
                sys.setrecursionlimit(before)

        def _text(self, s):
            if self.is_bytes != isinstance(s, (bytes, bytearray)):
                raise TypeError("cannot use a %s pattern on this subject" % ("bytes" if self.is_bytes else "string"))
            return _ByteText(s) if self.is_bytes else s

        def match(self, s, pos=0):
            return self._counted(_Run(self._text(s)), lambda t: self._match_at(t, len(t), pos, False))

        def search(self, s, pos=0):
            return self._counted(_Run(self._text(s)), lambda t: self._search(t, pos, False))

        def finditer(self, s, pos=0):
            run = _Run(self._text(s))
            must_advance = False
            while True:
                m = self._counted(run, lambda t: self._search(t, pos, must_advance))
                if m is None:
                    return
                yield m
                must_advance = m.end() == m.start()
                pos = m.end()

    return BudgetPattern


def budget_patterns():
    """{site: (object, attribute, original compiled pattern, BudgetPattern)} for every regular expression that
    ombott applies to text taken from the request body or its Content-Type, built from the patterns the code under
    test has NOW."""
    from ombott.request_pkg import body_mixin, multipart
    cls = _make_budget_pattern()
    sites = {
        "field": (multipart.FieldStorage, "_patt", "multipart part header parameter parser (FieldStorage.parse_header)"),
        "headers-end": (multipart, "end_headers_patt", "multipart header block scanner (HeadersEaeter._eat_headers)"),
        "boundary": (body_mixin, "MULTIPART_BOUNDARY_PATT", "Content-Type boundary parser (BodyMixin._body)"),
    }
    out = {}
    for site, (obj, attr, what) in sites.items():
        original = getattr(obj, attr)
        if not isinstance(original, re.Pattern):
            original = original.original
        counted = cls(original, what)
        counted.original = original
        out[site] = (obj, attr, original, counted)
    return out


def use_budget_patterns(patterns, on):
    """rebind (this process only) the three patterns to their counting interpreters, or back to the compiled ones"""
    for obj, attr, original, counted in patterns.values():
        setattr(obj, attr, counted if on else original)


def check_budget_detector():
    """The detector detects, natively and under the tracer: `(a+)+$` (exponential on a...ab) must be reported on every
    path whose free character is not 'a', `(a+)$` on none; the failing path goes through the traced allowance, the
    realisation and the untraced continuation.  Returns the number of paths; AssertionError otherwise."""
    from . import engine
    cls = _make_budget_pattern()
    bad, good = cls(re.compile(r"(a+)+$"), "self-check"), cls(re.compile(r"(a+)$"), "self-check")
    try:
        bad.match("a" * 40 + "b")
        raise AssertionError("budget detector: (a+)+$ on a*40+b finished")
    except DidNotFinish:
        pass
    assert good.match("a" * 40 + "b") is None and good.match("a" * 40).end() == 40
    total = 0
    for patt, want in ((bad, "counterexample"), (good, "confirmed")):
        def probe(o: int):
            engine.assume(1 <= o <= 127)
            del HANGS[:]
            try:
                m = patt.match("a" * 40 + chr(o))
            except DidNotFinish:
                return HANGS[0]
            return None if (m is not None) == (o == 97 or o == 10) else "wrong match for %d" % o
        res = engine.explore("budget-detector", probe, timeout=60)
        assert res.status == want and (want == "confirmed" or res.cex[0]["detail"].startswith("self-check")), \
            (patt.pattern, res.status, res.cex, res.error)
        total += res.paths
    del HANGS[:]
    return total


def validate_budget_patterns(patterns, maxlen=4):
    """every BudgetPattern against the compiled pattern it was built from: match/search/finditer agree on every text
    up to `maxlen` over the characters the patterns distinguish (+ upper/lower/extra-case letters for IGNORECASE)"""
    from .stubs_c07 import _sig
    alphabets = {"field": 'a=;"\\ \n', "headers-end": b"\r\nx-", "boundary": None}
    count = 0
    for site, (_, _, real, mine) in patterns.items():
        if site == "boundary":
            texts = []
            for head in ("multipart/", "MULTIPART/", "Multipart/x", "multipart", "muſtipart/"):
                for mid in ("", "x", "x;", "\n"):
                    for key in ("boundary=", "BOUNDARY=", "Boundary=", "boundary", "boundarı=", "Kboundary="):
                        for tail in ("", "b", 'b;', '"b"', "b\n", "b\nc", ";", "bc;d", "=b=;"):
                            texts.append(head + mid + key + tail)
        else:
            alphabet = alphabets[site]
            texts = []
            for ln in range(maxlen + 1):
                for tup in itertools.product(range(len(alphabet)), repeat=ln):
                    texts.append(alphabet[0:0].join(alphabet[j:j + 1] for j in tup))
        for s in texts:
            try:
                for meth in ("match", "search"):
                    a, b = _sig(getattr(real, meth)(s)), _sig(getattr(mine, meth)(s))
                    assert a == b, (site, meth, s, a, b)
                a, b = [_sig(m) for m in real.finditer(s)], [_sig(m) for m in mine.finditer(s)]
                assert a == b, (site, "finditer", s, a, b)
                count += 3
            except DidNotFinish:       # over the budget already on a validation text: left to the queries to report
                del HANGS[:]
        if site == "headers-end":
            for s, pos in ((b"ab\r\n\r\ncd", 2), (b"ab\r\n\r\ncd", 3), (b"\r\n\r", 1), (b"xx\r", 1)):
                a, b = _sig(real.search(s, pos)), _sig(mine.search(s, pos))
                assert a == b, (site, "search+pos", s, pos, a, b)
                count += 1
    cls = type(next(iter(patterns.values()))[3])
    for real, alphabet in ((re.compile(r"(\s*a)+?(\d|\W)?$"), "a 1;\n"), (re.compile(r"[^\s;]+(;|\Z)", re.IGNORECASE), "aA ;\n"),
                           (re.compile(br"(?:\r+)+?(\n\w?)?$", re.IGNORECASE), b"\r\nxY")):
        mine = cls(real, "validation")
        for ln in range(maxlen + 1):
            for tup in itertools.product(range(len(alphabet)), repeat=ln):
                s = alphabet[0:0].join(alphabet[j:j + 1] for j in tup)
                for meth in ("match", "search"):
                    a, b = _sig(getattr(real, meth)(s)), _sig(getattr(mine, meth)(s))
                    assert a == b, (real.pattern, meth, s, a, b)
                a, b = [_sig(m) for m in real.finditer(s)], [_sig(m) for m in mine.finditer(s)]
                assert a == b, (real.pattern, "finditer", s, a, b)
                count += 3
    return count


# ---------------------------------------------------------------------------------------------- installation
def install():
    """Rebind, in this process only: the FormsDict factory of the request class and `urlunquote` inside
    request_pkg.helpers.  (`json_mod` inside body_mixin is set per request by the harness: PyJson or json.)"""
    from ombott.request_pkg import helpers
    from ombott.request_pkg.request import BaseRequest
    BaseRequest._forms_factory = ListForms
    helpers.urlunquote = py_unquote


def fix_relib():
    """Two corrections of CrossHair 0.0.110's regex model (crosshair.libimpl.relib._internal_match_patterns); they
    belong in vf/chmodels.py.
    1. The body of a repeat with min_repeat >= 1 - which is also how an optional group `(...)?` is continued - is
       matched in isolation, without what follows it, so a lazy quantifier inside the group can never extend.  For
       ombott's `(.+?)(=(.+?))?(;|$)` on ' name="u"; x' the model returned group 1 = ' name="u"' and no value, i.e.
       the `name` option was lost on every symbolic path (CPython: ' name', '"u"').  A repeat of exactly (1, 1) is
       rewritten to `body + rest`, which keeps the continuation.
    2. `$` without re.MULTILINE matched at the very end only; CPython also matches just before a newline that ends
       the text (' filename=x\n': the model found no `filename` option).
    Everything else goes to the original."""
    import re
    from crosshair.libimpl import relib
    from crosshair.tracers import ResumedTracing
    from re._constants import AT, AT_END, MAX_REPEAT, MIN_REPEAT
    if getattr(relib._internal_match_patterns, "c12_fixed", False):
        return
    original = relib._internal_match_patterns

    def _internal_match_patterns(top_patterns, flags, string, offset, allow_empty=True, **kw):
        if len(top_patterns) == 0:
            return original(top_patterns, flags, string, offset, allow_empty, **kw)
        pattern = top_patterns[0]
        rest = list(top_patterns)[1:]
        if len(pattern) == 2 and (pattern[0] is MAX_REPEAT or pattern[0] is MIN_REPEAT):   # tuple, or list once rewritten
            min_repeat, max_repeat, body = pattern[1]
            if min_repeat == 1 and max_repeat == 1:
                return _internal_match_patterns(list(body) + rest, flags, string, offset, allow_empty, **kw)
        matched = original(top_patterns, flags, string, offset, allow_empty, **kw)
        if matched is None and len(pattern) == 2 and pattern[0] is AT and pattern[1] is AT_END and not flags & re.MULTILINE:
            with ResumedTracing():
                before_last_newline = offset == len(string) - 1 and kw.get("ord", ord)(string[offset]) == 10
                if not before_last_newline:
                    return None
            suffix = _internal_match_patterns(rest, flags, string, offset, allow_empty, **kw)
            if suffix is not None:
                return relib._MatchPart([(offset, offset)])._add_match(suffix)
        return matched
    _internal_match_patterns.c12_fixed = True
    relib._internal_match_patterns = _internal_match_patterns


def check_regex_models():
    """FieldStorage._patt under the tracer with one symbolic character against CPython's `re` on the realised text:
    the group spans must agree on every path.  Returns the number of paths; AssertionError on a difference."""
    from crosshair.core import deep_realize
    from crosshair.statespace import context_statespace
    from crosshair.tracers import NoTracing
    from ombott.request_pkg import multipart
    from . import engine
    patt = multipart.FieldStorage._patt
    total = 0
    for template in (' form-data; name="u"; filename="%s"', " form-data%s name=f", " x; filename=y%s"):
        head, tail = template.split("%s")

        def spans(text):
            return [[m.span(g) for g in range(patt.groups + 1)] for m in patt.finditer(text)]

        def probe(c: str):
            engine.assume(len(c) == 1)
            got = spans(head + c + tail)
            context_statespace().detach_path()
            text, got = deep_realize(head + c + tail), deep_realize(got)
            with NoTracing():
                want = spans(text)
            return None if got == want else "regex model differs on %r: %r, CPython %r" % (text, got, want)
        res = engine.explore("regex-model", probe, timeout=60)
        assert res.status == "confirmed", (template, res.status, res.cex, res.error)
        total += res.paths
    return total


def warm_symbolic_tables():
    """CrossHair builds its Unicode tables (str.lower/strip/isspace/splitlines on symbolic text, ~7 CPU s) on first use
    and caches them per process: build them once here, before the runner forks its workers."""
    from . import engine

    def probe(s: str):
        engine.assume(len(s) == 1)
        s.lower().strip().splitlines()
        return None
    engine.explore("warm", probe, timeout=30)


# ---------------------------------------------------------------------------------------------- differential validation
def _same_json(a, b):
    if isinstance(a, float) and isinstance(b, float) and a != a and b != b:
        return True
    if type(a) is not type(b):
        return False
    if isinstance(a, dict):
        return list(a.keys()) == list(b.keys()) and all(_same_json(a[k], b[k]) for k in a)
    if isinstance(a, list):
        return len(a) == len(b) and all(_same_json(x, y) for x, y in zip(a, b))
    return a == b


def _json_outcome(fn, data):
    try:
        return "value", fn(data)
    except ValueError:
        return "ValueError", None


JSON_TEXTS = [b"{", b"[1]", b"1", b'"x"', b"nul", b"null", b'{"a":1}', b'{"a":', b"[", b'{"a":[1,{"b":null}]}', b"-",
              b"NaN", b"-Infinity", b"Infinity", b"1e5", b"1.5e-3", b"-0", b"01", b"1.", b'"\\u00e9"', b'"\\ud83d\\ude00"',
              b'"\\ud800"', b'"\\x"', b'"\t"', b'{"a":1,"a":2}', b"{1:2}", b"[1,]", b'{"a":1,}', b" [ 1 , 2 ] ", b"true",
              b"false", b"tru", b'{"a" : {"b" : [ ] } }', b"\xef\xbb\xbf{}", b"{\x00}", b"\xff", b'"\xc3\xa9"', b'"\xc3"',
              b"", b"  ", b"1 2", b'{"a":"b"', b'{"":0}', b"[[[]]]", b"9" * 30, b"1E+2", b"1e", b"-a", b'"\\', b'"\\u12']
JSON_CLASS_BYTES = b'\x00\x01\t\n\r "+,-./0159:;ENIT[\\]aeflnrstu{|}\x7f\x80\xc3\xef\xff'


def validate():
    """every stub against the real object on concrete inputs; returns the number of comparisons"""
    n = 0
    # PieceStream against io.BytesIO: every read is a non-empty prefix of what the file would return, nothing lost
    for pieces in ([b"abc", b"", b"d", b"efgh"], [b""], [], [b"x"], [b"ab", b"cd"]):
        whole = b"".join(pieces)
        for sizes in ([1], [2, 1, 5], [100], [-1], [3, 3]):
            ps, ref, got = PieceStream(pieces), io.BytesIO(whole), b""
            for size in itertools.cycle(sizes):
                want = ref.read(size)
                part = ps.read(size)
                assert want.startswith(part) and (part or not want), (pieces, sizes, part, want)
                ref.seek(len(got) + len(part))
                got += part
                n += 1
                if not part:
                    break
            assert got == whole, (pieces, sizes, got)
    from ombott.request_pkg import body_mixin
    for pieces in ([b"ab", b"c"], [b"abcdef"], []):
        whole = b"".join(pieces)
        enc = chunked_pieces(pieces)
        assert b"".join(body_mixin._iter_chunked(io.BytesIO(b"".join(enc)).read, 8)) == whole
        assert b"".join(body_mixin._iter_chunked(PieceStream(enc).read, 8)) == whole
        ext = chunked_pieces(pieces, b";sig=abc")
        assert b"".join(ext).count(b";sig=abc") == len([p for p in pieces if p]) + 1
        assert b"".join(body_mixin._iter_chunked(io.BytesIO(b"".join(ext)).read, 16)) == whole
        n += 3
    spent = PieceStream([b"x"])
    assert spent.read(5) == b"x" and [spent.read(1) for _ in range(200)] == [b""] * 200
    try:
        spent.read(1)
        raise AssertionError("PieceStream: the 201st read at EOF must fail")
    except RuntimeError:
        n += 1
    # ListForms against FormsDict
    from ombott.request_pkg.helpers import FormsDict
    for script in ([("a", "1"), ("b", "2"), ("a", "3")], [], [("", ""), ("x", ["1", "2"])]):
        lf, fd = ListForms(), FormsDict()
        for k, v in script:
            lf[k] = v
            fd[k] = v
        assert lf.items() == list(fd.items()) and lf.keys() == list(fd.keys()) and len(lf) == len(fd), script
        assert lf.values() == list(fd.values()) and list(lf) == list(fd)
        for k in ("a", "b", "zz", ""):
            assert (k in lf) == (k in fd) and lf.get(k) == fd.get(k) and getattr(lf, k or "q") == getattr(fd, k or "q")
        lf2, fd2 = ListForms(), FormsDict()
        lf2.update({"b": 0, "c": 1})
        fd2.update({"b": 0, "c": 1})
        lf2.update(lf)
        fd2.update(fd)
        assert lf2.items() == list(fd2.items())
        n += 1
    # py_unquote against urllib.parse.unquote: every text of length <= 4 over an alphabet of all the classes
    alphabet = ["%", "c", "3", "a", "9", "F", "g", "+", "&", "\xe9", "\x00", "e", "2", "8"]
    for k in range(5):
        for tup in itertools.product(alphabet, repeat=k):
            s = "".join(tup)
            assert py_unquote(s) == urllib.parse.unquote(s), s
            n += 1
    for s in ("%c3%a9", "%e2%82%ac", "%e2%82a", "%f0%9f%98%80", "%ed%a0%80", "%c3%c3%a9", "%80", "%e0%80%80", "a%zzb%4",
              "%f4%90%80%80", "%C3%A9=%e2%82", "€%41"):
        assert py_unquote(s) == urllib.parse.unquote(s), s
        n += 1
    # PyJson against json: texts, texts + every one-byte tail, texts + two-byte tails over the class alphabet
    tails = [b""] + [bytes([a]) for a in range(256)] + [bytes([a, b]) for a in JSON_CLASS_BYTES for b in JSON_CLASS_BYTES]
    for text in JSON_TEXTS:
        for tail in tails:
            data = text + tail
            want, got = _json_outcome(json.loads, data), _json_outcome(PyJson.loads, data)
            assert want[0] == got[0] and _same_json(want[1], got[1]), (data, want, got)
            n += 1
    for k in range(3):
        for tup in itertools.product(range(256), repeat=k):
            if k < 2 or tup[0] in JSON_CLASS_BYTES:
                data = bytes(tup)
                want, got = _json_outcome(json.loads, data), _json_outcome(PyJson.loads, data)
                assert want[0] == got[0] and _same_json(want[1], got[1]), (data, want, got)
                n += 1
    return n
