"""Environment stub used by the C14 check (response header values).

`flat_format_exc` replaces `traceback.format_exc` *as seen from ombott.ombott* (module attribute rebound
in the checking process only).  The real function renders the message of the active exception through
C-level / str-method code that makes the symbolic engine realise the whole header value (the rejection
message of `_hval` contains the offending value), so the rejected-value paths of `Ombott.__call__` never
exhaust.  ombott only stores the text (HTTPError.traceback, shown on the debug error page) and writes it to
wsgi.errors; no header is derived from it.

Contract kept: returns a native str whose first line is the standard traceback banner and whose last line
starts with the class name of the exception being handled; the message of the exception is NOT included.
"""
import sys
import traceback

BANNER = "Traceback (most recent call last):\n"


def flat_format_exc(limit=None, chain=True):
    """only called by ombott inside `except` blocks: an exception is always active"""
    return BANNER + "  <frames elided by vf.stubs_c14>\n" + sys.exc_info()[0].__name__ + "\n"


def install():
    """Rebind format_exc inside ombott.ombott (this process only)."""
    import ombott.ombott as core
    core.format_exc = flat_format_exc


def selfcheck():
    """Differential validation against traceback.format_exc on concrete exceptions. Returns #comparisons."""
    n = 0
    for exc in (ValueError("Header value must not contain control characters: 'a\\r\\nb'"), TypeError("t"),
                KeyError("k"), UnicodeEncodeError("utf8", "\ud800", 0, 1, "surrogates not allowed")):
        try:
            raise exc
        except Exception:
            real = traceback.format_exc()
            stub = flat_format_exc()
        assert type(real) is str and type(stub) is str
        assert real.startswith(BANNER) and stub.startswith(BANNER), (real, stub)
        real_last = real.rstrip("\n").split("\n")[-1]
        stub_last = stub.rstrip("\n").split("\n")[-1]
        assert real_last.startswith(stub_last) and stub_last == type(exc).__name__, (real_last, stub_last)
        n += 1
    return n
