"""KNOWN_FINDINGS.txt: genuine defects of ombott recorded rather than repaired.

Line formats (the file is committed, never written at run time):

  known: property=<id> query=<fnmatch pattern over query ids> when=<python expression over the query's arguments> :: <what fails>
  fixed: property=<id> <commit> <what failed>

A `known` entry matches a reproducing counterexample iff the query id matches
and the expression is true on the counterexample's concrete arguments.  A match
prints a KNOWN-FINDING line; the predicate is then excluded (added as negated
precondition) and the query re-run, so any *other* violation is still reported.
`fixed` entries suppress nothing.
"""
import fnmatch
import os
import re
from dataclasses import dataclass
from typing import List

PATH = os.path.join(os.path.dirname(os.path.dirname(os.path.abspath(__file__))), "KNOWN_FINDINGS.txt")

_known = re.compile(r"^known:\s+property=(\S+)\s+query=(\S+)\s+when=(.*?)\s+::\s+(.*)$")
_fixed = re.compile(r"^fixed:\s+property=(\S+)\s+(\S+)\s+(.*)$")


@dataclass
class Known:
    property: str
    query: str
    when: str
    text: str

    def matches(self, qid: str, args: dict) -> bool:
        if not fnmatch.fnmatchcase(qid, self.query):
            return False
        try:
            return bool(eval(self.when, {"__builtins__": __builtins__}, dict(args)))
        except Exception:
            return False


def load(property_id: str):
    known: List[Known] = []
    fixed: List[str] = []
    if not os.path.exists(PATH):
        return known, fixed
    for ln in open(PATH, encoding="utf8"):
        ln = ln.strip()
        if not ln or ln.startswith("#"):
            continue
        m = _known.match(ln)
        if m and m.group(1) == property_id:
            known.append(Known(*m.groups()))
            continue
        m = _fixed.match(ln)
        if m and m.group(1) == property_id:
            fixed.append(ln)
    return known, fixed
