"""Statement-level scheduling points for the package under test, made at import time from the CURRENT source.

`install(prefix)` must run before the package is imported.  Every module `prefix` / `prefix.*` is then compiled from its
source file (never from a cached .pyc) with one call `__vf_pp__()` inserted in front of every statement of every function
body (nested blocks included).  Nothing else changes: line numbers, names and semantics of the statements are kept, and
/repo is not touched.  `__vf_pp__` lives in builtins and forwards to the hook set with `set_hook` (None: no-op), so a
harness can count the statements a simulated thread executes and run another simulated thread's request between any
two of them: the interleaving becomes an integer the solver chooses.
"""
import ast
import builtins
import importlib.machinery
import sys

_hook = [None]
_installed = {}


def _pp():
    h = _hook[0]
    if h is not None:
        h()


builtins.__vf_pp__ = _pp


def set_hook(fn):
    _hook[0] = fn


class _Insert(ast.NodeTransformer):
    """put the scheduling point in front of every statement inside function bodies"""

    def __init__(self):
        self.depth = 0
        self.count = 0

    def _block(self, stmts):
        if not self.depth:
            return [self.visit(s) for s in stmts]
        out = []
        for i, s in enumerate(stmts):
            doc = (i == 0 and isinstance(s, ast.Expr) and isinstance(getattr(s, "value", None), ast.Constant)
                   and isinstance(s.value.value, str))
            if not doc:
                call = ast.Expr(ast.Call(ast.Name("__vf_pp__", ast.Load()), [], []))
                ast.copy_location(call, s)
                ast.fix_missing_locations(call)
                call.end_lineno, call.end_col_offset = s.lineno, s.col_offset
                out.append(call)
                self.count += 1
            out.append(self.visit(s))
        return out

    def generic_visit(self, node):
        for field in ("body", "orelse", "finalbody"):
            v = getattr(node, field, None)
            if isinstance(v, list) and v and isinstance(v[0], ast.stmt):
                setattr(node, field, self._block(v))
        for h in getattr(node, "handlers", []) or []:
            h.body = self._block(h.body)
        for c in getattr(node, "cases", []) or []:
            c.body = self._block(c.body)
        return node

    def _function(self, node):
        self.depth += 1
        node.body = self._block(node.body)
        self.depth -= 1
        return node

    visit_FunctionDef = _function
    visit_AsyncFunctionDef = _function

    def visit_ClassDef(self, node):
        depth, self.depth = self.depth, 0            # a class body inside a function is not a function body
        node.body = [self.visit(s) for s in node.body]
        self.depth = depth
        return node


class _Loader(importlib.machinery.SourceFileLoader):
    points = True
    optimize = -1

    def get_code(self, fullname):
        path = self.get_filename(fullname)
        return self.source_to_code(self.get_data(path), path)

    def source_to_code(self, data, path, *, _optimize=-1):
        tree = ast.parse(data, path)
        if self.points:
            t = _Insert()
            tree = t.visit(tree)
            ast.fix_missing_locations(tree)
            _installed[path] = t.count
        return compile(tree, path, "exec", dont_inherit=True, optimize=self.optimize)


class _Finder:
    def __init__(self, prefix):
        self.prefix = prefix
        self.points = False
        self.optimize = -1

    def find_spec(self, name, path=None, target=None):
        if not (name == self.prefix or name.startswith(self.prefix + ".")):
            return None
        spec = importlib.machinery.PathFinder.find_spec(name, path, target)
        if spec is None or not isinstance(spec.loader, importlib.machinery.SourceFileLoader):
            return spec
        spec.loader = _Loader(spec.loader.name, spec.loader.path)
        spec.loader.points, spec.loader.optimize = self.points, self.optimize
        return spec


def install(prefix, points=True, optimize=None):
    """-> nothing; afterwards `import prefix` gives the package compiled from its current source with scheduling points
    (points=True) and / or at the given optimisation level (optimize=1: what `python -O` / PYTHONOPTIMIZE=1 runs: assert
    statements removed, __debug__ False).  Settings of several calls add up.  Refuses when it is already imported."""
    loaded = [m for m in sys.modules if m == prefix or m.startswith(prefix + ".")]
    if loaded and __import__("os").environ.get("VERIF_DESCRIBE_ONLY"):
        return          # tools that only read the harness descriptions (MANIFEST generation) import all harnesses in one process
    if loaded:
        raise RuntimeError("instrument.install(%r) after import of %r" % (prefix, loaded[:3]))
    finder = next((f for f in sys.meta_path if isinstance(f, _Finder) and f.prefix == prefix), None)
    if finder is None:
        finder = _Finder(prefix)
        sys.meta_path.insert(0, finder)
    finder.points = finder.points or points
    if optimize is not None:
        finder.optimize = optimize


def build():
    """the build of the package under test this process checks: '' (as the default interpreter runs it) or 'O'"""
    import os
    return os.environ.get("VERIF_OMBOTT_BUILD", "")


def apply_build(prefix="ombott"):
    if build() == "O":
        install(prefix, points=False, optimize=1)


def points():
    """file -> number of scheduling points inserted"""
    return dict(_installed)
