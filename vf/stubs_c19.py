"""Stub of check C19 (DESIGN §3.1): `float(text)` / `str(float)` as seen from the `float` route filter.

The filter converts the matched text with the C function `float()` and `Route.url` formats the value back
with `str(float(x))` (C-level shortest-repr formatting).  CrossHair models the first as real arithmetic and
realises the second, which the solver cannot finish (z3 `unknown`).  Under the tracer only, `float(text)` of
a plain decimal literal  -?D+(.D+)?  (ASCII digits, at most 15 of them, no exponent needed to print
it) returns a `DecFloat`: the literal in canonical form, kept as text.  Two properties of CPython's float
make this exact inside that range, and `differential()` checks both against the real `float` on concrete
texts:
  * str(float(t)) is the canonical decimal text (no leading zeros, no trailing fraction zeros, '.0' added);
  * float(a) == float(b) iff the canonical texts are equal (apart from the sign of zero).
Everything else (other spellings, longer literals, concrete arguments, native replay) goes to the real float.

Also here (a correction of a CrossHair model rather than a stub; it belongs into vf/chmodels.py): CrossHair 0.0.110's
`relib._match_pattern` evaluates `len(string)` with tracing switched off after an EMPTY match; for a sliced symbolic
string (RadiDict.get hands `route[i:]` to the filter) that is a CrossHairInternal error, so no rule whose `re`
filter can match the empty text could be analysed.  `_match_pattern` below is CrossHair's function with that one
`len()` evaluated under the tracer.
"""
import itertools

import crosshair.core_and_libs  # noqa: CrossHair's own registrations first
from crosshair import core as _core
from crosshair.core import NoTracing, ResumedTracing, deep_realize
from crosshair.libimpl import builtinslib as _bl
from crosshair.libimpl import relib as _relib

MAX_DIGITS = 15      # decimal -> double -> shortest repr is the identity up to 15 significant digits


class DecFloat:
    """value of a decimal literal: sign, integer digits without leading zeros, fraction digits without
    trailing zeros ('' = zero)"""
    __slots__ = ("neg", "ip", "fp")

    def __init__(self, neg, ip, fp):
        self.neg, self.ip, self.fp = neg, ip, fp

    def __eq__(self, other):
        if not isinstance(other, DecFloat):
            if isinstance(other, (int, float)):      # a changed formatter comparing / memoising by value: the real float
                return self.__float__() == other
            return NotImplemented
        if self.ip != other.ip or self.fp != other.fp:
            return False
        return self.neg == other.neg or (len(self.ip) == 0 and len(self.fp) == 0)    # -0.0 == 0.0

    def __ne__(self, other):
        r = self.__eq__(other)
        return r if r is NotImplemented else not r

    def __hash__(self):
        """used as a dict key / set member (a memoising formatter, since seed C19-i): realise, hash of the real float
        (so that 7.0 meets 7 as it does natively)"""
        return hash(self.__float__())

    def __str__(self):
        return ("-" if self.neg else "") + (self.ip if len(self.ip) else "0") + "." + (self.fp if len(self.fp) else "0")

    __repr__ = __str__

    def __float__(self):
        """any other use of the value as a number ('%f' formatting, int() - a changed formatter): realise the text,
        hand out the real float"""
        with ResumedTracing():
            text = str(self)
        with NoTracing():
            return float(deep_realize(text))

    def __int__(self):
        return int(self.__float__())

    def __format__(self, spec):
        """format(value, '') is str(value); a format spec (f-string / format() in a changed formatter) is applied
        to the realised real float"""
        if spec == "":
            return str(self)
        return format(self.__float__(), spec)


def _isdigit(ch):
    return "0" <= ch <= "9"


def parse_decimal(text):
    """DecFloat for a plain decimal literal inside the exactly modelled range, else None.
    Works on concrete and on symbolic text (forks per character class, never per value)."""
    n = len(text)
    if n == 0 or n > MAX_DIGITS + 2:
        return None
    neg = text[0] == "-"
    i = 1 if neg else 0
    j = i
    while j < n and _isdigit(text[j]):
        j += 1
    if j == i:
        return None
    ip = text[i:j]
    fp = ""
    if j < n:
        if text[j] != ".":
            return None
        k = j + 1
        while k < n and _isdigit(text[k]):
            k += 1
        if k == j + 1 or k != n:
            return None
        fp = text[j + 1:k]
    if len(ip) + len(fp) > MAX_DIGITS:
        return None
    a = 0
    while a < len(ip) and ip[a] == "0":
        a += 1
    b = len(fp)
    while b > 0 and fp[b - 1] == "0":
        b -= 1
    ip, fp = ip[a:], fp[:b]
    if len(ip) == 0 and len(fp) > 4 and fp[0] == "0" and fp[1] == "0" and fp[2] == "0" and fp[3] == "0":
        return None          # below 1e-4 CPython prints an exponent
    return DecFloat(neg, ip, fp)


def float_model(val=0.0):
    with NoTracing():
        keep = isinstance(val, (DecFloat, _bl.SymbolicFloat))
        is_text = isinstance(val, (str, _bl.AnySymbolicStr))    # concrete pieces of a symbolic path too
        is_symint = isinstance(val, _bl.SymbolicInt)
    if keep:
        return val
    if is_text:
        d = parse_decimal(val)
        if d is not None:
            return d
    if is_symint:
        return val.__float__()
    with NoTracing():          # outside the model: realise, then the real float
        return float(deep_realize(val))


def _match_pattern(compiled_regex, orig_str, pos, endpos=None, subpattern=None, allow_empty=True, ord=ord, chr=chr):
    if subpattern is None:
        subpattern = _relib.parse(compiled_regex.pattern, compiled_regex.flags)
    with ResumedTracing():
        trimmed_str = orig_str[:endpos]
    matchpart = _relib._internal_match_patterns(subpattern, compiled_regex.flags, trimmed_str, pos, allow_empty,
                                                ord=ord, chr=chr)
    if matchpart is None:
        return None
    match_start, match_end = matchpart._fullspan()
    if _relib._traced_binop(match_start, _relib.operator.eq, match_end):
        with ResumedTracing():
            whole = len(orig_str)          # CrossHair: len() outside the tracer
        matchpart._clamp_all_spans(0, whole)
    return _relib._Match(matchpart._groups, pos, endpos, compiled_regex, orig_str)


def install():
    """register the models with CrossHair (this process only; ombott itself is not touched)"""
    _core._PATCH_REGISTRATIONS[float] = float_model
    _relib._match_pattern = _match_pattern


def _literals():
    """decimal literals for the differential test: every text over a small alphabet up to length 6, and
    long ones around the 15-digit limit"""
    for n in range(1, 7):
        for t in itertools.product("-.0159", repeat=n):
            yield "".join(t)
    for ip in ("0", "7", "10", "999999999999999", "123456789012345", "1234567", "00012", "100000000000000"):
        for fp in (None, "0", "5", "25", "0001", "00001", "10", "12345678", "000100"):
            for sign in ("", "-"):
                yield sign + ip + ("" if fp is None else "." + fp)


def differential(more=()):
    """parse_decimal / DecFloat against the real float on concrete texts (the built-in list and `more`: the
    literals a harness builds from skeletons). Returns the number of texts in the modelled range that were
    compared (text and equality)."""
    n = 0
    by_value = {}
    for t in itertools.chain(_literals(), more):
        d = parse_decimal(t)
        if d is None:
            continue
        real = float(t)                      # every text the model accepts must be a float literal
        assert str(d) == str(real), (t, str(d), str(real))
        key = str(d).lstrip("-") if real == 0 else str(d)
        assert by_value.setdefault(real, key) == key, (t, key)     # equal floats <=> equal canonical text
        n += 1
    keys = list(by_value.values())
    assert len(set(keys)) == len(keys), "two different floats with one canonical text"
    assert parse_decimal("0.00001") is None and parse_decimal("1234567890123456") is None
    assert DecFloat(True, "", "") == DecFloat(False, "", "") and DecFloat(True, "1", "") != DecFloat(False, "1", "")
    return n
