"""Environment stubs used only by the C13 check (size limits and spooling).

They extend vf/stubs.py: a body file that can be *read back* when its parts are
opaque, a chunked wsgi.input whose framing is real bytes and whose chunk data
is opaque, and a seekable multipart body file whose data sections are opaque.
`validate()` compares each of them with the real object (io.BytesIO,
tempfile.TemporaryFile, the real parsers on real bytes) on concrete inputs."""
from .stubs import PyBytesIO, SizedPart


from vf.engine import unmodelled  # noqa: E402

class SizeIO(PyBytesIO):
    """PyBytesIO whose read() also works when the parts written are opaque
    SizedParts: read(n) returns one SizedPart covering the bytes a file would
    return (only its length is observable).  Every read size is recorded in
    `loaded` = bytes brought into memory by reading the buffered body back."""

    def __init__(self, initial=b"", *, spooled=False, **kw):
        super().__init__(initial, spooled=spooled)
        self.loaded = []

    def _real(self):
        return bool(self.parts) and isinstance(self.parts[0], (bytes, bytearray))

    def read(self, n=-1):
        if self._real():
            r = super().read(n)
            self.loaded.append(len(r))
            return r
        size = 0
        for p in self.parts:
            size = size + len(p)
        rest = size - self.pos
        if rest < 0:
            rest = 0
        if n is None or n < 0 or n > rest:
            n = rest
        start = self.pos
        self.pos = start + n
        self.loaded.append(n)
        if n <= 0:
            return b""
        return SizedPart(start, n)


def _spool(*a, **kw):
    return SizeIO(spooled=True)


def install_size_io():
    """Rebind BytesIO/TemporaryFile inside ombott.request_pkg.body_mixin (this process only)."""
    from ombott.request_pkg import body_mixin
    body_mixin.BytesIO = SizeIO
    body_mixin.TemporaryFile = _spool


@unmodelled
class ChunkedSymStream:
    """wsgi.input carrying a chunked transfer coding.  `segments` alternates
    framing (real bytes: size lines, CRLFs, trailer) and chunk data (an int =
    number of opaque payload bytes, or real bytes when `real` is set).
    read(n) never crosses a segment boundary (a legal short read); reads inside
    chunk data are additionally capped by frags[k] for the k-th such read.
    log: (kind, payload offset before the read, asked, given)."""

    def __init__(self, segments, frags, real=False):
        self.segs = list(segments)
        self.frags = list(frags)
        self.real = real
        self.i = 0          # current segment
        self.off = 0        # offset inside it
        self.payload = 0    # payload bytes handed out so far
        self.k = 0
        self.log = []

    def _seglen(self, seg):
        return seg if isinstance(seg, int) else len(seg)

    def read(self, n=-1):
        while self.i < len(self.segs) and self.off >= self._seglen(self.segs[self.i]):
            self.i += 1
            self.off = 0
        if self.i >= len(self.segs):
            self.log.append(("eof", self.payload, n, 0))
            return b""
        seg = self.segs[self.i]
        is_data = self.i % 2 == 1
        rest = self._seglen(seg) - self.off
        m = rest if (n is None or n < 0 or n > rest) else n
        if is_data:
            if self.k < len(self.frags):
                f = self.frags[self.k]
                if f < m:
                    m = f
            self.k += 1
        start = self.off
        self.off = start + m
        if not is_data:
            self.log.append(("framing", self.payload, n, m))
            return seg[start:start + m]
        self.log.append(("data", self.payload, n, m))
        at = self.payload
        self.payload = at + m
        if self.real:
            return seg[start:start + m]
        return SizedPart(at, m)


@unmodelled
class OpaqueText:
    """decoded value of an opaque data section: only its length is known"""
    __slots__ = ("n",)

    def __init__(self, n):
        self.n = n

    def __len__(self):
        return self.n


@unmodelled
class OpaqueBytes:
    __slots__ = ("n",)

    def __init__(self, n):
        self.n = n

    def __len__(self):
        return self.n

    def decode(self, encoding="utf-8", errors="strict"):
        return OpaqueText(self.n)


@unmodelled
class SegSource:
    """The buffered multipart body as FieldStorage sees it (seek/read).
    `segments` alternates literal bytes (boundaries + part headers) and ints
    (length of an opaque data section).  A read that lies inside one literal
    segment returns its bytes, any other read returns OpaqueBytes(size).
    reads: (absolute position, size) of every read."""

    def __init__(self, segments):
        self.segs = list(segments)
        self.pos = 0
        self.reads = []
        self.closed = False

    def seek(self, pos, whence=0):
        assert whence == 0
        self.pos = pos
        return pos

    def tell(self):
        return self.pos

    def read(self, sz=-1):
        pos = self.pos
        self.reads.append((pos, sz))
        off = 0
        for i, seg in enumerate(self.segs):
            n = seg if isinstance(seg, int) else len(seg)
            if i % 2 == 0 and off <= pos and 0 <= sz and pos + sz <= off + n:
                self.pos = pos + sz
                return seg[pos - off:pos - off + sz]
            off = off + n
        total = off
        if sz is None or sz < 0 or pos + sz > total:
            sz = total - pos if total > pos else 0
        self.pos = pos + sz
        return OpaqueBytes(sz)


# ------------------------------------------------------------------ differential validation
def validate():
    """Compare the stubs with the real objects on concrete inputs; returns the number of comparisons."""
    import io
    import tempfile
    from ombott.request_pkg import body_mixin
    from ombott.request_pkg.multipart import MultipartMarkup, FieldStorage
    n = 0

    # SizeIO with real bytes == io.BytesIO / TemporaryFile for the operations body_mixin and the handlers use
    for ctor in (io.BytesIO, lambda: tempfile.TemporaryFile(mode="w+b")):
        real, mine = ctor(), SizeIO()
        for piece in (b"ab", b"", b"cde", b"f"):
            assert real.write(piece) == mine.write(piece)
        for op in (("seek", 0), ("read", 2), ("read", -1), ("read", 3), ("seek", 1), ("read", 100), ("seek", 4),
                   ("read", 0), ("read", 1), ("tell",)):
            assert getattr(real, op[0])(*op[1:]) == getattr(mine, op[0])(*op[1:]), op
            n += 1
        real.close()
    # opaque read-back: same lengths as a real file of that size
    real, mine = io.BytesIO(b"x" * 7), SizeIO()
    mine.write(SizedPart(0, 3))
    mine.write(SizedPart(3, 4))
    for op in (("read", 2), ("read", 10), ("read", 1), ("seek", 0), ("read", -1), ("seek", 5), ("read", 1)):
        a, b = getattr(real, op[0])(*op[1:]), getattr(mine, op[0])(*op[1:])
        assert (a == b) if op[0] == "seek" else (len(a) == len(b) and bool(a) == bool(b)), op
        n += 1

    # which constructor _body_read uses: real BytesIO/TemporaryFile vs the spooled flag, same content
    saved = body_mixin.BytesIO, body_mixin.TemporaryFile
    for size, buf in ((0, 4), (4, 4), (5, 4), (9, 4), (3, 1)):
        data = bytes(range(65, 65 + size))
        try:
            body_mixin.BytesIO, body_mixin.TemporaryFile = io.BytesIO, tempfile.TemporaryFile
            rb = body_mixin._body_read(io.BytesIO(data).read, buf, content_length=size)
            install_size_io()
            sb = body_mixin._body_read(io.BytesIO(data).read, buf, content_length=size)
        finally:
            body_mixin.BytesIO, body_mixin.TemporaryFile = saved
        rb.seek(0)
        sb.seek(0)
        assert rb.read() == sb.read() == data
        assert isinstance(rb, io.BytesIO) == (not sb.spooled), (size, buf)
        rb.close()
        n += 1

    # ChunkedSymStream with real payload == io.BytesIO over the concatenation, through the real decoder
    segs = [b"3\r\n", b"abc", b"\r\n2;x=y\r\n", b"de", b"\r\n0\r\n\r\n"]
    flat = b"".join(segs)
    for frags in ([], [1], [2, 1], [1, 1, 1]):
        want = b"".join(body_mixin._iter_chunked(io.BytesIO(flat).read, 8))
        s = ChunkedSymStream(segs, frags, real=True)
        got = b"".join(body_mixin._iter_chunked(s.read, 8))
        assert got == want == b"abcde", (frags, got)
        s2 = ChunkedSymStream(segs, frags, real=True)
        out = []
        while True:
            c = s2.read(2)
            if not c:
                break
            out.append(c)
        assert b"".join(out) == flat
        opaque = ChunkedSymStream([b"3\r\n", 3, b"\r\n2;x=y\r\n", 2, b"\r\n0\r\n\r\n"], frags)
        parts = list(body_mixin._iter_chunked(opaque.read, 8))
        assert sum(len(p) for p in parts) == 5 and [p.start for p in parts] == [
            sum(len(q) for q in parts[:i]) for i in range(len(parts))]
        n += 3

    # SegSource == io.BytesIO for FieldStorage.iter_items on a real body with the real markup
    h1 = b'Content-Disposition: form-data; name="a"'
    h2 = b'Content-Disposition: form-data; name="f"; filename="x.bin"\r\nContent-Type: application/octet-stream'
    segs = [b"--B\r\n" + h1 + b"\r\n\r\n", 5, b"\r\n--B\r\n" + h2 + b"\r\n\r\n", 6, b"\r\n--B--\r\n"]
    body = segs[0] + b"hello" + segs[2] + b"DATA!!" + segs[4]
    mk = MultipartMarkup("B")
    mk.parse(body)
    assert mk.error is None
    real_items = list(FieldStorage.iter_items(io.BytesIO(body), mk.markups, 1000))
    src = SegSource(segs)
    my_items = list(FieldStorage.iter_items(src, mk.markups, 1000))
    assert [(i.name, i.filename, sorted(i.headers)) for i in real_items] == \
           [(i.name, i.filename, sorted(i.headers)) for i in my_items]
    assert len(real_items[0].value) == len(my_items[0].value) == 5
    assert len(real_items[1].file.read()) == len(my_items[1].file.read()) == 6
    n += 3
    return n
