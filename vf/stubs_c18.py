"""Stubs of check C18 (DESIGN §3.1): `urllib.parse.unquote` as seen from ombott.request_pkg.helpers.

parse_qsl hands slices of the query string to `urlunquote` and stores what comes back; it never looks inside
the result.  The scanner-arithmetic queries therefore replace the decoder by an injective marker, so that the
slice boundaries chosen by the scanner stay visible (and symbolic) in the result.  The real decoder is used by
every other query family of C18."""
import urllib.parse

from ombott.request_pkg import helpers

REAL_UNQUOTE = urllib.parse.unquote
OPEN, CLOSE = "⟦", "⟧"


def mark_unquote(s):
    """Injective marker in place of urllib.parse.unquote: the argument, bracketed; '' stays '' as with the real
    function (parse_qsl stores '' itself for a key without '=').  Rejects what the real function would reject
    (anything but text)."""
    if not isinstance(s, str):
        raise TypeError("unquote() argument must be str, got %s" % type(s).__name__)
    if not s:
        return ""
    return OPEN + s + CLOSE


def unmark(s):
    if not s:
        return ""
    assert s[:1] == OPEN and s[-1:] == CLOSE, s
    return s[1:-1]


def use_unquote(fn):
    """Rebind `urlunquote` inside ombott.request_pkg.helpers (this process only)."""
    helpers.urlunquote = fn


def differential(corpus):
    """The marker abstraction is sound for parse_qsl iff decoding the marked slices afterwards gives what the
    real decoder gives in place: checked pair list by pair list on concrete strings.  Returns the number of
    strings compared."""
    n = 0
    for qs in corpus:
        use_unquote(mark_unquote)
        try:
            marked = helpers.parse_qsl(qs)
        finally:
            use_unquote(REAL_UNQUOTE)
        real = helpers.parse_qsl(qs)
        later = [(REAL_UNQUOTE(unmark(k)), REAL_UNQUOTE(unmark(v))) for k, v in marked]
        assert later == real, "mark_unquote differs from urllib.parse.unquote on %r: %r / %r" % (qs, later, real)
        n += 1
    return n
