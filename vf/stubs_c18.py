"""Stubs of check C18 (DESIGN §3.1): `urllib.parse.unquote` as seen from ombott.request_pkg.helpers.

parse_qsl hands slices of the query string to `urlunquote` and stores what comes back; it never looks inside
the result.  The scanner-arithmetic queries therefore replace the decoder by an injective marker, so that the
slice boundaries chosen by the scanner stay visible (and symbolic) in the result.  The real decoder is used by
every other query family of C18."""
import urllib.parse

from ombott.request_pkg import helpers

REAL_UNQUOTE = urllib.parse.unquote
OPEN, CLOSE = "⟦", "⟧"


def mark_unquote(s, encoding="utf-8", errors="replace"):
    """Injective marker in place of urllib.parse.unquote: the argument, bracketed; '' stays '' as with the real
    function (parse_qsl stores '' itself for a key without '=').  Rejects what the real function would reject
    (anything but text); a decoding other than the default (UTF-8, replace) is appended to the marker."""
    if not isinstance(s, str):
        raise TypeError("unquote() argument must be str, got %s" % type(s).__name__)
    if not s:
        return ""
    if encoding != "utf-8" or errors != "replace":
        return OPEN + s + CLOSE + encoding + "|" + errors
    return OPEN + s + CLOSE


def unmark(m):
    """(text, encoding, errors) the marker was made from"""
    if not m:
        return "", "utf-8", "replace"
    end = m.rfind(CLOSE)
    assert m[:1] == OPEN and end > 0, m
    if end == len(m) - 1:
        return m[1:end], "utf-8", "replace"
    encoding, _, errors = m[end + 1:].partition("|")
    return m[1:end], encoding, errors


def use_unquote(fn):
    """Rebind `urlunquote` inside ombott.request_pkg.helpers (this process only)."""
    helpers.urlunquote = fn


class AssocForms:
    """FormsDict (a C-level hash table: hashing realises a symbolic key) as seen from the code that fills and
    merges it: the same mapping protocol over an association list searched with `==`, so keys stay symbolic.
    Insertion order and overwrite semantics of dict are kept."""

    def __init__(self, *args, **kw):
        self.entries = []
        self.update(*args, **kw)

    def update(self, *args, **kw):
        for src in args:
            pairs = [(k, src[k]) for k in src.keys()] if hasattr(src, "keys") else src
            for k, v in pairs:
                self[k] = v
        for k, v in kw.items():
            self[k] = v

    def __setitem__(self, key, value):
        for e in self.entries:
            if e[0] == key:
                e[1] = value
                return
        self.entries.append([key, value])

    def __getitem__(self, key):
        for k, v in self.entries:
            if k == key:
                return v
        raise KeyError(key)

    def get(self, key, default=None):
        for k, v in self.entries:
            if k == key:
                return v
        return default

    def __contains__(self, key):
        for k, _ in self.entries:
            if k == key:
                return True
        return False

    def __len__(self):
        return len(self.entries)

    def __iter__(self):
        return iter([k for k, _ in self.entries])

    def keys(self):
        return [k for k, _ in self.entries]

    def items(self):
        return [(k, v) for k, v in self.entries]

    def __repr__(self):
        return "AssocForms(%r)" % (self.items(),)


def differential_forms(scripts):
    """AssocForms against FormsDict on concrete scripts of (key, value) assignments followed by a merge with a
    second script: same keys in the same order, same values."""
    n = 0
    for first, second in scripts:
        a, d = AssocForms(), helpers.FormsDict()
        for k, v in first:
            a[k] = v
            d[k] = v
        a2, d2 = AssocForms(first), helpers.FormsDict(first)
        assert a.items() == list(d.items()) == a2.items() == list(d2.items()), (first, a.items(), list(d.items()))
        b, e = AssocForms(a, **AssocForms(second)), helpers.FormsDict(d, **helpers.FormsDict(second))
        assert b.items() == list(e.items()) and len(b) == len(e), (first, second, b.items(), list(e.items()))
        for k, _ in first + second:
            assert (k in b) and b[k] == e[k] and b.get(k) == e.get(k), (first, second, k)
        assert "\x00absent" not in b and b.get("\x00absent") is None
        n += 1
    return n


def differential(corpus):
    """The marker abstraction is sound for parse_qsl iff decoding the marked slices afterwards gives what the
    real decoder gives in place: checked pair list by pair list on concrete strings.  Returns the number of
    strings compared."""
    n = 0
    for qs in corpus:
        use_unquote(mark_unquote)
        try:
            marked = helpers.parse_qsl(qs)
        finally:
            use_unquote(REAL_UNQUOTE)
        real = helpers.parse_qsl(qs)
        later = [(REAL_UNQUOTE(*unmark(k)), REAL_UNQUOTE(*unmark(v))) for k, v in marked]
        assert later == real, "mark_unquote differs from urllib.parse.unquote on %r: %r / %r" % (qs, later, real)
        n += 1
    return n
