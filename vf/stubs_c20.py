"""Stubs for C20 (error pages): pure-Python stand-ins for two library boundaries that
the symbolic engine cannot carry a symbolic str through without enumerating it value by
value.  Both are validated differentially against the real function by `validate()`.

* `py_quote`      urllib.parse.quote(text) as seen from ombott.request_pkg.props_mixin
                  (PropsMixin.urlparts calls it with the default safe='/'): the real one
                  looks every byte up in a dict (one path per byte value).
* `PyJson.dumps`  json.dumps(obj) as seen from ombott.ombott (default_error_handler) for a
                  str, None or a flat dict of them (ensure_ascii, default separators): the
                  real one is C code.  Installed only by the queries that let request text
                  flow into the JSON body; every other query runs the real json.dumps.
"""
import json
from urllib.parse import quote as _real_quote


def _hexdigit(d):
    return chr(48 + d) if d < 10 else chr(55 + d)


def py_quote(string, safe="/"):
    if safe != "/":
        raise NotImplementedError("py_quote models the default safe='/' only")
    out = []
    for ch in string:
        c = ord(ch)
        if 97 <= c <= 122 or 65 <= c <= 90 or 45 <= c <= 57 or c == 95 or c == 126:   # alnum - . / _ ~
            out.append(ch)
        elif c < 128:
            out.append("%" + _hexdigit(c // 16) + _hexdigit(c % 16))
        else:
            for b in ch.encode("utf-8"):
                out.append("%" + _hexdigit(b // 16) + _hexdigit(b % 16))
    return "".join(out)


def _json_string(text):
    out = ['"']
    for ch in text:
        c = ord(ch)
        if c == 34:
            out.append('\\"')
        elif c == 92:
            out.append("\\\\")
        elif 32 <= c < 127:
            out.append(ch)
        elif c == 10:
            out.append("\\n")
        elif c == 13:
            out.append("\\r")
        elif c == 9:
            out.append("\\t")
        elif c == 8:
            out.append("\\b")
        elif c == 12:
            out.append("\\f")
        else:
            units = [c] if c < 0x10000 else [0xD800 + ((c - 0x10000) >> 10), 0xDC00 + ((c - 0x10000) & 0x3FF)]
            for u in units:
                out.append("\\u" + "".join(_hexdigit((u >> s) & 15) for s in (12, 8, 4, 0)).lower())
    out.append('"')
    return "".join(out)


class PyJson:
    """the part of the json module that ombott.ombott uses"""

    @staticmethod
    def dumps(obj):
        if obj is None:
            return "null"
        if isinstance(obj, str):
            return _json_string(obj)
        if not isinstance(obj, dict):
            raise NotImplementedError("PyJson.dumps models str, None and a flat dict of them only")
        items = []
        for k, v in obj.items():
            if not isinstance(k, str) or isinstance(v, dict):
                raise NotImplementedError("PyJson.dumps models str, None and a flat dict of them only")
            items.append(_json_string(k) + ": " + PyJson.dumps(v))
        return "{" + ", ".join(items) + "}"


def install_quote():
    """Rebind urlquote inside ombott.request_pkg.props_mixin (this process only)."""
    from ombott.request_pkg import props_mixin
    props_mixin.urlquote = py_quote


def install_json():
    import ombott.ombott as mod
    mod.json = PyJson


def uninstall_json():
    import ombott.ombott as mod
    mod.json = json


def validate():
    """Differential check of both stubs against the real functions (concrete inputs)."""
    n = 0
    singles = [chr(i) for i in range(256)] + ["€", "\U0001f600", "߿", "￿"]
    samples = singles + [a + b for a in "a/%<&'\" ~\x7f\xe9" for b in "z.?>{}\\+\nĀ"] + [
        "", "/p/a b", "/<script>alert(1)</script>", "/%41%", "/a//b/../c", "/{e.status}", "/über/\U0001f600"]
    for s in samples:
        n += 1
        assert py_quote(s) == _real_quote(s), ("quote", s)
    texts = samples + ["Traceback (most recent call last):\n  File \"x.py\", line 1\nBoom: '<b>\\'\n", "\x00\x1f\x7f\x80"]
    for s in texts:
        n += 1
        d = dict(body=s, exception=repr(s), traceback=None)
        assert PyJson.dumps(d) == json.dumps(d) and PyJson.dumps(s) == json.dumps(s), ("dumps", s)
    return n
