"""Corrections / extensions of CrossHair 0.0.110's library models (DESIGN §3.2).

Installed in the checking process only (imported by vf.engine).  Each model is
validated against CPython on concrete inputs by `selfcheck()`.
"""
import re

import crosshair.core_and_libs  # noqa: registrations first
from crosshair import core as _core
from crosshair.core import NoTracing, ResumedTracing, realize, deep_realize
from crosshair.libimpl import relib as _relib
from crosshair.libimpl import builtinslib as _bl
from crosshair.util import CrossHairValue

# --------------------------------------------------------------------------
# 1. re.Match.start/end/span(group) for a group that did not participate:
#    CPython returns -1 / (-1, -1); CrossHair raised TypeError (None[0]).
# --------------------------------------------------------------------------


def _start(self, group=0):
    g = self._groups[_gidx(self, group)]
    return -1 if g is None else g[0]


def _end(self, group=0):
    g = self._groups[_gidx(self, group)]
    return -1 if g is None else g[1]


def _span(self, group=0):
    g = self._groups[_gidx(self, group)]
    return (-1, -1) if g is None else g


def _gidx(self, group):
    if isinstance(group, str):
        return self.re.groupindex[group]
    return group


for _cls in (_relib._MatchPart, _relib._Match):
    _cls.start, _cls.end, _cls.span = _start, _end, _span


# --------------------------------------------------------------------------
# 2. int(text, 10|16) on symbolic str / bytes without realising the text:
#    a character-class parser following CPython's PyLong_FromString.
#    ValueError messages are constant (formatting the offending text would
#    realise it); only the exception type is observable to ombott.
# --------------------------------------------------------------------------
_orig_int = _core._PATCH_REGISTRATIONS[int]
_MISSING = _bl._MISSING
_WS_BYTES = (9, 10, 11, 12, 13, 32)
# str.strip()-whitespace below 128 as used by int(str): same six plus 0x1c-0x1f
_WS_STR = _WS_BYTES   # CPython 3.12: int(str) strips the same six below 128 (checked by selfcheck)


def _bad():
    raise ValueError("invalid literal for int()")


def _digit(c, base):
    """value of code point c as a digit in `base` or -1 (forks per class, not per value)"""
    if 48 <= c <= 57:
        d = c - 48
    elif 97 <= c <= 122:
        d = c - 87
    elif 65 <= c <= 90:
        d = c - 55
    else:
        return -1
    if d >= base:
        return -1
    return d


def _isws(c):
    return c == 32 or 9 <= c <= 13


def _parse_codes(codes, base, ws):
    n = len(codes)
    i = 0
    while i < n and _isws(codes[i]):
        i += 1
    j = n
    while j > i and _isws(codes[j - 1]):
        j -= 1
    sign = 1
    if i < j and codes[i] == 43:
        i += 1
    elif i < j and codes[i] == 45:
        sign = -1
        i += 1
    if base == 16 and i + 1 < j and codes[i] == 48 and codes[i + 1] in (120, 88):
        i += 2
        if i < j and codes[i] == 95:      # one underscore allowed after the prefix
            i += 1
    if i >= j or codes[i] == 95:
        _bad()
    val = 0
    prev_us = False
    while i < j:
        c = codes[i]
        if c == 95:
            if prev_us:
                _bad()
            prev_us = True
        else:
            d = _digit(c, base)
            if d < 0:
                _bad()
            val = val * base + d
            prev_us = False
        i += 1
    if prev_us:
        _bad()
    return sign * val


def _fallback_int(val, base):
    """what CrossHair's own _int does outside its symbolic fast path: realise, then the real int()
    (called from this module's code object, so the tracer hands us the unpatched builtin)"""
    with NoTracing():
        if isinstance(val, _bl.SymbolicInt):
            if base is not _MISSING:
                raise TypeError("int() can't convert non-string with explicit base")
            return val
        if isinstance(val, CrossHairValue):
            val = deep_realize(val)
        if isinstance(base, CrossHairValue):
            base = deep_realize(base)
        return int(val) if base is _MISSING else int(val, base)


def int_model(val=0, base=_MISSING):
    with NoTracing():
        is_str = isinstance(val, _bl.AnySymbolicStr)
        is_bytes = isinstance(val, _bl.BytesLike)
        b = 10 if base is _MISSING else base
        if isinstance(b, CrossHairValue):
            b = realize(b)
        usable = (is_str or is_bytes) and b in (10, 16)
    if not usable:
        return _fallback_int(val, base)
    if is_bytes:
        codes = [c for c in val]
        return _parse_codes(codes, b, _WS_BYTES)
    codes = [ord(c) for c in val]
    for c in codes:
        if c >= 128:
            # Unicode digits / whitespace: outside the model, realise (harnesses keep this off exhaustive paths)
            return _fallback_int(val, base)
    return _parse_codes(codes, b, _WS_STR)


_core._PATCH_REGISTRATIONS[int] = int_model


# --------------------------------------------------------------------------
# 3. repr(text) on a symbolic str without realising it.  Exact for code points
#    below 128 (quote choice, backslash, \n \r \t, \xNN); code points >= 128
#    are copied verbatim (CPython escapes the non-printable ones) - queries that
#    look at the rendered text restrict themselves to ASCII.
# 4. "fmt" % args with only %s / %r / %d / %% conversions: built by
#    concatenation; %r of a symbolic str is quote+text+quote WITHOUT escaping
#    (cheap: no per-character forks).  ombott uses %-formatting with %r only
#    for exception messages and __repr__/__doc__ texts, which no check inspects.
# --------------------------------------------------------------------------
_HEXD = "0123456789abcdef"


def _repr_codes(s):
    has_sq = "'" in s
    has_dq = '"' in s
    q = '"' if (has_sq and not has_dq) else "'"
    out = [q]
    for ch in s:
        c = ord(ch)
        if c >= 128:
            out.append(ch)
        elif c == 92:
            out.append("\\\\")
        elif ch == q:
            out.append("\\" + q)
        elif c == 10:
            out.append("\\n")
        elif c == 13:
            out.append("\\r")
        elif c == 9:
            out.append("\\t")
        elif c < 32 or c == 127:
            out.append("\\x" + _HEXD[c // 16] + _HEXD[c % 16])
        else:
            out.append(ch)
    out.append(q)
    return "".join(out)


def repr_model(obj):
    with NoTracing():
        sym = isinstance(obj, _bl.AnySymbolicStr)
    if sym:
        return _repr_codes(obj)
    return _bl.invoke_dunder(obj, "__repr__")


_core._PATCH_REGISTRATIONS[repr] = repr_model
_SIMPLE_FMT = re.compile(r"%([srd%])")


def mod_model(self, other):
    if not isinstance(self, str):
        raise TypeError
    with NoTracing():
        fmt = realize(self)
        simple = "%" not in _SIMPLE_FMT.sub("", fmt)
        args = other if isinstance(other, tuple) else (other,)
        convs = _SIMPLE_FMT.findall(fmt)
        nargs = len([c for c in convs if c != "%"])
        anysym = any(isinstance(a, CrossHairValue) for a in args)
        usable = simple and anysym and nargs == len(args) and not isinstance(other, dict)
    if not usable:
        return fmt.__mod__(deep_realize(other))
    pieces = _SIMPLE_FMT.split(fmt)      # text, conv, text, conv, ...
    out = []
    k = 0
    for i, piece in enumerate(pieces):
        if i % 2 == 0:
            out.append(piece)
            continue
        if piece == "%":
            out.append("%")
            continue
        a = args[k]
        k += 1
        with NoTracing():
            symstr = isinstance(a, _bl.AnySymbolicStr)
            symval = isinstance(a, CrossHairValue)
        if piece == "r" and symstr:
            out.append("'" + a + "'")
        elif piece == "r":
            out.append(repr(a))
        elif piece == "d":
            if symval:
                out.append(str(a.__index__() if not isinstance(a, _bl.SymbolicInt) else a))
            else:
                out.append("%d" % a)
        else:
            out.append(a if symstr else str(a))
    return "".join(out)


_core._PATCH_REGISTRATIONS[str.__mod__] = mod_model


# --------------------------------------------------------------------------
# 5. functools.lru_cache: CrossHair calls every lru_cache'd function with the
#    cache skipped, so state the code under test keeps in such a cache between
#    two calls would be invisible to the symbolic run.  For functions of the
#    listed module prefixes called with concrete arguments the real cache is
#    used, as in CPython (calls with a symbolic argument keep CrossHair's
#    behaviour: hashing would realise the value).
# --------------------------------------------------------------------------
def keep_caches(module_prefix):
    from functools import _lru_cache_wrapper
    real_call = _lru_cache_wrapper.__call__
    skipping = _core._PATCH_REGISTRATIONS[real_call]
    if getattr(skipping, "keeps_for", None) is not None:       # already installed
        skipping.keeps_for.add(module_prefix)
        return

    def call(self, *a, **kw):
        with NoTracing():
            if (isinstance(self, _lru_cache_wrapper)
                    and any(str(self.__wrapped__.__module__).startswith(p) for p in call.keeps_for)
                    and not any(isinstance(v, CrossHairValue) for v in a)
                    and not any(isinstance(v, CrossHairValue) for v in kw.values())):
                return real_call(self, *a, **kw)
        return skipping(self, *a, **kw)
    call.keeps_for = {module_prefix}
    _core._PATCH_REGISTRATIONS[real_call] = call


keep_caches("ombott.")


def _ref_int(x, base):
    try:
        return int(x, base)
    except ValueError:
        return "ValueError"


def _model_int(x, base):
    codes = list(x) if isinstance(x, bytes) else [ord(c) for c in x]
    try:
        return _parse_codes(codes, base, _WS_BYTES if isinstance(x, bytes) else _WS_STR)
    except ValueError:
        return "ValueError"


def selfcheck():
    """Differential validation of the models against CPython (concrete)."""
    import itertools
    n = 0
    # all byte strings of length <= 2, both bases
    for L in (0, 1, 2):
        for t in itertools.product(range(256), repeat=L):
            x = bytes(t)
            for base in (10, 16):
                n += 1
                assert _ref_int(x, base) == _model_int(x, base), (x, base)
    alpha = " \t\r\n\x0b\x1c0179afFgxX_+-;."
    for L in (1, 2, 3, 4):
        for t in itertools.product(alpha, repeat=L):
            s = "".join(t)
            for base in (10, 16):
                n += 1
                assert _ref_int(s, base) == _model_int(s, base), (s, base)
                if L <= 3:
                    assert _ref_int(s.encode(), base) == _model_int(s.encode(), base), (s, base)
    for s in ("0x_1f", "0x__1", "0_x1", "1_0", "_1", "1_", "0x", "0X1", "+0x1", "-0X_f", " 1_0 ", "0b1", "0o7", "00", "-0"):
        for base in (10, 16):
            assert _ref_int(s, base) == _model_int(s, base), (s, base)
            assert _ref_int(s.encode(), base) == _model_int(s.encode(), base), (s, base)
    # repr model: all ASCII strings of length <= 2 and a sample of length 3
    asc = [chr(i) for i in range(128)]
    for L in (0, 1, 2):
        for t in itertools.product(asc, repeat=L):
            x = "".join(t)
            n += 1
            assert _repr_codes(x) == repr(x), x
    for t in itertools.product("a'\"\\\n\x00\x7f ", repeat=3):
        x = "".join(t)
        assert _repr_codes(x) == repr(x), x
    assert mod_model("a %s b %r c %d %%", ("x", "y", 5)) == "a %s b %r c %d %%" % ("x", "y", 5)
    # Match model: unmatched group
    m = re.compile(br"(\r\n\r\n)|(\r(\n\r?)?)$").search(b"ab\r")
    assert m.start(1) == -1
    return n


if __name__ == "__main__":
    print("chmodels selfcheck: %d comparisons ok" % selfcheck())
